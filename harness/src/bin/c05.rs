//! C05 — built objects decode back to themselves and look the same either way.
//!
//! Every builder of the library (TbsCert as TA/CA/EE/router, TbsCertList/Crl,
//! ManifestContent, RoaBuilder, AspaBuilder, SignedObjectBuilder, Csr, IdCert,
//! SignedMessage, ProvisioningCms, PublicationCms) is driven with every
//! combination from small boundary-dense per-field domains, one field group at
//! a time against a fixed non-trivial setting of the other fields, plus a
//! full product of representatives (which contains every pairwise
//! interaction). The oracle is differential — no expected value is written
//! down by hand:
//!
//!  (i)   decode(enc(x)) succeeds (strict DER) and validates under the issuing
//!        key at both ends of the validity window;
//!  (ii)  enc(decode(enc(x))) == enc(x) byte for byte;
//!  (iii) a generic `observe` that calls every public accessor and iterator of
//!        the value (each under `guard`, a panic is rendered as "PANIC ...")
//!        is applied to the built value and to its decoded twin; the two lists
//!        must agree entry by entry, and a panic on either side is a violation;
//!  (iv)  for content types (ROA / ASPA attestation, manifest content)
//!        `encode_ref()` of the decoded content equals the eContent octets.
//!
//! Inputs stay inside the object profiles (RFC 6487 / 8209 / 9286 / 9582 /
//! ASPA profile): windows with notBefore <= notAfter, thisUpdate <=
//! nextUpdate, whole-second times, at least one resource extension, no
//! inheritance in a TA, RFC 9286 file names, maxLength within the family,
//! customer AS not among the providers, no ROA without prefixes. What the
//! property does not demand is not demanded here: that a builder echoes its
//! inputs (a builder that normalises or ignores a field yields a built value
//! and a twin that still agree) or that the DER follows profile rules the
//! library's decoder does not enforce.
//!
//! Two further dimensions are explored in spaces of their own: the FORM in
//! which a list reaches a builder (`build.input_forms`: Vec, slice, mapped,
//! filtered, `from_fn`, chained, the decoded twin's own iterator) and
//! OPERATION SEQUENCES on builders (`build.setter_sequences`: construct with
//! A, then set B, in every order, once / twice / back and forth); both are
//! judged differentially against the plainly built object.
//!
//! A third sequence dimension is OBJECT-LEVEL HISTORY (`builder.sequences.*`,
//! `object.history`): explicit-state exploration of every operation sequence
//! of bounded length on each builder (every construction form, every mutator
//! with elements chosen by their relation to what is inside, remove / clear,
//! clone continuing on both, read accessors in between) and on each finished
//! object (queries, caching calls, validations, clones), judged by the usual
//! oracles plus a twin that only ever saw the final state and a tiny
//! reference model of the content.
//!
//! VALUE ROUTES of times (`build.time_value_routes`): a `Time` obtained by
//! parsing, serde, conversion or arithmetic can carry a sub-second part or
//! chrono's leap-second form, which `Time::utc` never makes; every
//! time-carrying builder field is fed every such value (compared with the
//! twin at whole seconds, validated at a whole second inside both windows).
//!
//! `C05_ONLY=<space>[,<space>]` (cert, crl, sigobj, manifest, roa, aspa, csr,
//! idcert, sigmsg, cms, forms, setters, made, timeroutes, reissue, scale, chains,
//! history, usage, sequences (or seq.aspa, seq.roa, seq.manifest, seq.crl,
//! seq.resources, seq.cert, seq.sigobj, seq.ca_side), objhist) restricts a run to some
//! spaces while developing.

use std::collections::{BTreeMap, BTreeSet};
use std::io;
use std::net::{IpAddr, Ipv4Addr, Ipv6Addr};
use std::str::FromStr;
use bcder::encode::{PrimitiveContent, Values};
use bcder::{Mode, Oid};
use bytes::Bytes;
use rayon::prelude::*;
use rpki::ca::csr::{Csr, RpkiCaCsr};
use rpki::ca::idcert::IdCert;
use rpki::ca::idexchange::{RecipientHandle, SenderHandle};
use rpki::ca::provisioning::{self, ProvisioningCms};
use rpki::ca::publication::{self, PublicationCms};
use rpki::ca::sigmsg::SignedMessage;
use rpki::crypto::keys::{PublicKey, PublicKeyFormat};
use rpki::crypto::signature::{Signature, SignatureAlgorithm};
use rpki::crypto::signer::{KeyError, Signer, SigningAlgorithm, SigningError};
use rpki::crypto::{DigestAlgorithm, RpkiSignatureAlgorithm};
use rpki::repository::aspa::{Aspa, AspaBuilder, AsProviderAttestation};
use rpki::repository::cert::{Cert, ExtendedKeyUsage, KeyUsage, Overclaim, ResourceCert, TbsCert};
use rpki::repository::crl::{Crl, CrlEntry, TbsCertList};
use rpki::repository::manifest::{FileAndHash, Manifest, ManifestContent};
use rpki::repository::resources::{
    AsBlock, AsBlocks, AsResources, Asn, IpBlock, IpBlocks, IpResources,
};
use rpki::repository::roa::{Roa, RoaBuilder, RoaIpAddress, RoaIpAddresses, RouteOriginAttestation};
use rpki::repository::sigobj::{SignedObject, SignedObjectBuilder};
use rpki::repository::x509::{Name, Serial, Time, Validity};
use rpki::uri;
use rpki_verif::engine::der;
use rpki_verif::engine::enumerate::permutations;
use rpki_verif::engine::pki::{self, Claim, Res};
use rpki_verif::engine::signer::{ec_public, sha256, Kid, PoolSigner};
use rpki_verif::{guard, hex, Ctx, Space};

//============ Observation records ===========================================

/// The answers of every public accessor of one value, in a fixed order.
struct Obs(Vec<(String, String)>);

impl Obs {
    fn new() -> Obs { Obs(Vec::with_capacity(96)) }
    /// Calls one accessor under the panic guard and records what it said.
    fn put(&mut self, name: &str, f: impl FnOnce() -> String) {
        let v = match guard(f) { Ok(v) => v, Err(p) => format!("PANIC {p}") };
        self.0.push((name.to_string(), v));
    }
    /// Two ways of asking the same thing (by value / by reference, wall-clock
    /// variant / `_at(now)`, `take_opt_from` / `take_from`, ...) must answer
    /// alike; a disagreement is recorded as a value that `diff` always flags.
    fn pair(&mut self, name: &str, a: impl FnOnce() -> String, b: impl FnOnce() -> String) {
        let va = match guard(a) { Ok(v) => v, Err(p) => format!("PANIC {p}") };
        let vb = match guard(b) { Ok(v) => v, Err(p) => format!("PANIC {p}") };
        let v = if va == vb { va } else { format!("SIBLING-MISMATCH {} <> {}", rpki_verif::trunc(&va, 120), rpki_verif::trunc(&vb, 120)) };
        self.0.push((name.to_string(), v));
    }
    fn sub(&mut self, prefix: &str, other: Obs) {
        for (n, v) in other.0 { self.0.push((format!("{prefix}.{n}"), v)) }
    }
}

/// Entry-by-entry comparison; a panic on either side is a finding even when
/// both sides panic alike.
fn diff(built: &Obs, decoded: &Obs) -> Option<String> { diff_l(built, decoded, "built", "decoded") }

fn diff_l(built: &Obs, decoded: &Obs, la: &str, lb: &str) -> Option<String> {
    let mut out: Vec<String> = Vec::new();
    let mut n = 0;
    if built.0.len() != decoded.0.len() {
        out.push(format!("{} accessor answers on the {la} value, {} on the {lb} one", built.0.len(), decoded.0.len()));
        n += 1;
    }
    for ((na, va), (nb, vb)) in built.0.iter().zip(decoded.0.iter()) {
        let bad = if na != nb { Some(format!("entry order differs: {na} / {nb}")) }
            else if va.starts_with("PANIC") || vb.starts_with("PANIC") || va.contains("SIBLING-MISMATCH") || vb.contains("SIBLING-MISMATCH") {
                Some(format!("{na}: {la}={} {lb}={}", rpki_verif::trunc(va, 160), rpki_verif::trunc(vb, 160)))
            }
            else if va != vb { Some(format!("{na}: {la}={} {lb}={}", rpki_verif::trunc(va, 160), rpki_verif::trunc(vb, 160))) }
            else { None };
        if let Some(b) = bad { n += 1; if out.len() < 3 { out.push(b) } }
    }
    if n == 0 { None } else { Some(format!("{n} disagreeing accessor(s): {}", out.join(" | "))) }
}

/// Renders octets: short ones in full, long ones as length + FNV-1a hash.
fn hx(b: &[u8]) -> String { if b.len() <= 40 { hex(b) } else { format!("{}octets#{:016x}", b.len(), fnv(b)) } }

fn cap<V: Values>(v: V) -> Vec<u8> { v.to_captured(Mode::Der).as_slice().to_vec() }

//------------ renderers for the value types accessors return -----------------

thread_local! {
    /// (compare times at whole seconds?, sub-second parts dropped so far)
    static WHOLE_SECONDS: std::cell::Cell<(bool, u64)> = const { std::cell::Cell::new((false, 0)) };
}
/// DER times carry whole seconds. A time with a sub-second part (everything
/// derived from `Time::now()`) is not a profile-conforming input, so for the
/// library-made inputs -- and only there -- such a time is compared with its
/// twin at whole-second granularity; the occurrences are counted, not judged.
fn r_time(t: Time) -> String {
    let ns = t.timestamp_subsec_nanos();
    let (whole, n) = WHOLE_SECONDS.with(|w| w.get());
    if whole && ns != 0 { WHOLE_SECONDS.with(|w| w.set((whole, n + 1))); return format!("{}s+0ns", t.timestamp()) }
    format!("{}s+{}ns", t.timestamp(), ns)
}
fn r_validity(v: Validity) -> String { format!("{}..{}", r_time(v.not_before()), r_time(v.not_after())) }
thread_local! {
    /// `build.time_value_routes` only: (the whole second into which the
    /// sub-second / leap-second input time of the running case falls,
    /// verdicts not compared so far).
    static TRUNCATED_SECOND: std::cell::Cell<(Option<i64>, u64)> = const { std::cell::Cell::new((None, 0)) };
}
/// A validity verdict asked at a fixed whole-second instant. When the case's
/// input time has a sub-second part and the instant is that very second, the
/// built value (bound = second + fraction) and its twin (bound = second, DER
/// carries no fraction) are both right to answer differently: the verdict is
/// not compared (counted). Everywhere else -- and in every other space --
/// this is the plain verdict.
fn r_verdict_at(now: Time, verdict: impl FnOnce() -> String) -> String {
    let (sec, n) = TRUNCATED_SECOND.with(|w| w.get());
    if sec == Some(now.timestamp()) { TRUNCATED_SECOND.with(|w| w.set((sec, n + 1))); return "asked inside the second the input's fraction was cut from (not compared)".into() }
    verdict()
}
fn r_name(n: &Name) -> String { format!("{} rpki={:?} router={:?}", hex(&cap(n.encode_ref())),
    n.inspect_rpki(true).map_err(|e| e.to_string()), n.inspect_router(true).map_err(|e| e.to_string())) }
fn r_key(k: &PublicKey) -> String {
    let info = k.to_info_bytes();
    // siblings: by-value encoder, bits as Bytes, SHA-1 helper, and a key
    // rebuilt from its own bits / components must be the same key
    let mut sib: Vec<String> = vec![];
    if cap(k.clone().encode()) != info.as_ref() || cap(k.encode_ref()) != info.as_ref() { sib.push("encode/encode_ref/to_info_bytes differ".into()) }
    if k.bits_bytes().as_ref() != k.bits() { sib.push("bits_bytes != bits".into()) }
    if rpki::crypto::digest::sha1_digest(k.bits()).as_ref() != k.key_identifier().as_slice() { sib.push("sha1_digest(bits) != key_identifier".into()) }
    { let mut c = rpki::crypto::digest::start_sha1(); c.update(k.bits()); if c.finish().as_ref() != k.key_identifier().as_slice() { sib.push("start_sha1 != key_identifier".into()) } }
    if PublicKey::decode(info.clone()).map(|x| x == *k).unwrap_or(false) == false { sib.push("decode(to_info_bytes) != self".into()) }
    if k.algorithm() == PublicKeyFormat::Rsa {
        match PublicKey::rsa_from_bits_bytes(k.bits_bytes()) { Ok(x) => if x != *k || x.to_info_bytes() != info { sib.push("rsa_from_bits_bytes(bits) != self".into()) }, Err(e) => sib.push(format!("rsa_from_bits_bytes: {e}")) }
        if let Some(n) = der::parse_one(k.bits(), false) { if n.children.len() == 2 {
            match PublicKey::rsa_from_components(n.children[0].content(k.bits()), n.children[1].content(k.bits())) {
                Ok(x) => if x != *k || x.to_info_bytes() != info { sib.push("rsa_from_components(n, e) != self".into()) }, Err(e) => sib.push(format!("rsa_from_components: {e}")) }
        }}
    }
    format!("{} ski={} alg={:?} rpki={} router={} bits={}{}", hx(&info), k.key_identifier(), k.algorithm(),
        k.allow_rpki_cert(), k.allow_router_cert(), k.bits().len(), if sib.is_empty() { String::new() } else { format!(" SIBLING-MISMATCH {}", sib.join("; ")) })
}
fn r_ski(ki: &rpki::crypto::keys::KeyIdentifier) -> String {
    let enc = cap(ki.encode_ref());
    let a = Mode::Der.decode(enc.as_slice(), rpki::crypto::keys::KeyIdentifier::take_from).map(|x| x.to_string()).map_err(|e| e.to_string());
    let b = Mode::Der.decode(enc.as_slice(), |c| rpki::crypto::keys::KeyIdentifier::take_opt_from(c)).map(|x| x.map(|x| x.to_string()).unwrap_or_default()).map_err(|e| e.to_string());
    let c = Mode::Der.decode(enc.as_slice(), |c| rpki::crypto::keys::KeyIdentifier::skip_opt_in(c)).map(|x| x.is_some()).map_err(|e| e.to_string());
    if a == b && a == Ok(ki.to_string()) && c == Ok(true) { ki.to_string() } else { format!("SIBLING-MISMATCH {ki} take_from={a:?} take_opt_from={b:?} skip_opt_in={c:?}") }
}
fn r_digest_alg(a: DigestAlgorithm) -> String {
    let one = cap(a.encode()); let set = cap(a.encode_set());
    let t = Mode::Der.decode(one.as_slice(), DigestAlgorithm::take_from).is_ok();
    let o = Mode::Der.decode(one.as_slice(), |c| DigestAlgorithm::take_opt_from(c)).map(|x| x.is_some()).unwrap_or(false);
    let ts = Mode::Der.decode(set.as_slice(), DigestAlgorithm::take_set_from).is_ok();
    let ss = Mode::Der.decode(set.as_slice(), DigestAlgorithm::skip_set).is_ok();
    let len_ok = a.digest(b"x").as_ref().len() == a.digest_len();
    format!("{:?} sha256={} len={}{}", a, a.is_sha256(), a.digest_len(),
        if t && o && ts && ss && len_ok { String::new() } else { format!(" SIBLING-MISMATCH take_from={t} take_opt_from={o} take_set_from={ts} skip_set={ss} digest_len_matches={len_ok}") })
}
fn r_rsync(u: Option<&uri::Rsync>) -> String {
    match u {
        None => "None".into(),
        Some(u) => format!("{} auth={} canon={} modname={} module={} cmod={} path={} dir={} parent={:?} bytes={}",
            u.as_str(), u.authority(), u.canonical_authority(), u.module_name(), u.module(), u.canonical_module(),
            u.path(), u.path_is_dir(), u.parent().map(|p| p.to_string()), hex(u.as_slice())),
    }
}
fn r_https(u: Option<&uri::Https>) -> String {
    match u {
        None => "None".into(),
        Some(u) => format!("{} auth={} canon={} path={} dir={} parent={:?}", u.as_str(), u.authority(),
            u.canonical_authority(), u.path(), u.path_is_dir(), u.parent().map(|p| p.to_string())),
    }
}
fn r_ipblocks(b: &IpBlocks, v4: bool) -> String {
    let mut s = format!("empty={} [", b.is_empty());
    for blk in b.iter() {
        let var = match blk { IpBlock::Prefix(_) => "P", IpBlock::Range(_) => "R" };
        s.push_str(&format!("{var}:{:032x}-{:032x}:{} ", blk.min().to_bits(), blk.max().to_bits(),
            if v4 { blk.display_v4().to_string() } else { blk.display_v6().to_string() }));
    }
    s.push_str(&format!("] text={}", if v4 { b.as_v4().to_string() } else { b.as_v6().to_string() }));
    s
}
fn r_ipres(r: &IpResources, v4: bool) -> String {
    format!("inherit={} present={} blocks={}", r.is_inherited(), r.is_present(),
        match r.to_blocks() { Ok(b) => r_ipblocks(&b, v4), Err(e) => format!("Err({e})") })
}
fn r_asblocks_n(b: &AsBlocks, count: bool) -> String {
    // `asn_count` of the whole AS space overflows (DESIGN §4 #6, decided by
    // C03); resources resolved from the all-covering TA are rendered without it.
    let mut s = format!("empty={} count={} [", b.is_empty(), if count { b.asn_count().to_string() } else { "-".into() });
    for blk in b.iter() {
        let var = match blk { AsBlock::Id(_) => "I", AsBlock::Range(_) => "R" };
        s.push_str(&format!("{var}:{}-{}:{} ", blk.min().into_u32(), blk.max().into_u32(), blk));
    }
    s.push_str(&format!("] text={b}"));
    s
}
fn r_asblocks(b: &AsBlocks) -> String { r_asblocks_n(b, true) }
fn r_asres(r: &AsResources) -> String {
    format!("inherit={} present={} text={} blocks={}", r.is_inherited(), r.is_present(), r,
        match r.to_blocks() { Ok(b) => r_asblocks(&b), Err(e) => format!("Err({e})") })
}
fn r_res<T, E: std::fmt::Display>(r: Result<T, E>) -> String { match r { Ok(_) => "Ok".into(), Err(e) => format!("Err({e})") } }

//============ The per-field domains ==========================================

/// serial ∈ {0, 1, 127, 128, 2^63, 2^159−1}: both ends, the sign-octet
/// boundary, and the two longest encodings.
fn serial_dom() -> Vec<(&'static str, Serial)> {
    let mut top = [0xffu8; 20]; top[0] = 0x7f;
    vec![("0", Serial::from(0u64)), ("1", Serial::from(1u64)), ("127", Serial::from(127u64)),
         ("128", Serial::from(128u64)), ("2^63", Serial::from(1u64 << 63)),
         ("2^159-1", Serial::from_array(top).unwrap())]
}

/// The instants where `encode_varied` switches between UTCTime and
/// GeneralizedTime, plus the far end.
const INSTANT_NAMES: [&str; 5] = ["1949-12-31T23:59:59", "1950-01-01T00:00:00", "2049-12-31T23:59:59", "2050-01-01T00:00:00", "9999-12-31T23:59:59"];
fn instants() -> [Time; 5] {
    [Time::utc(1949, 12, 31, 23, 59, 59), Time::utc(1950, 1, 1, 0, 0, 0), Time::utc(2049, 12, 31, 23, 59, 59),
     Time::utc(2050, 1, 1, 0, 0, 0), Time::utc(9999, 12, 31, 23, 59, 59)]
}
/// All windows nb <= na over the five instants (15).
fn windows() -> Vec<(usize, usize)> {
    let mut v = vec![]; for a in 0..5 { for b in a..5 { v.push((a, b)) } } v
}

/// URI-legal punctuation (everything `check_uri_ascii` admits that is not a
/// letter or digit; "/" separates the segments).
const PUNCT: &str = "!$%&'()*+,-.:;=_~";
fn long_seg() -> String { "L".repeat(140) }

fn rsync_dirs() -> Vec<uri::Rsync> {
    [ "rsync://h/m/".to_string(),
      format!("rsync://Host.Example.net:873/mod-1_a/{PUNCT}/d/"),
      "RSYNC://EXAMPLE.NET/Mod/Dir/".to_string(),
      format!("rsync://long.example.net/module/{}/", long_seg()) ]
        .iter().map(|s| uri::Rsync::from_str(s).unwrap_or_else(|e| panic!("{s}: {e}"))).collect()
}
fn rsync_files(ext: &str) -> Vec<uri::Rsync> {
    [ format!("rsync://h/m/a.{ext}"),
      format!("rsync://Host.Example.net:873/mod-1_a/{PUNCT}/x-y_z.{ext}"),
      format!("RSYNC://EXAMPLE.NET/Mod/Dir/FILE.{ext}"),
      format!("rsync://long.example.net/module/{}/o.{ext}", long_seg()) ]
        .iter().map(|s| uri::Rsync::from_str(s).unwrap_or_else(|e| panic!("{s}: {e}"))).collect()
}
/// index 0 = absent
fn https_opts() -> Vec<Option<uri::Https>> {
    let mut v = vec![None];
    for s in [ "https://h/n.xml".to_string(), format!("https://Host.Example.net:8443/{PUNCT}/notification.xml"),
               format!("https://long.example.net/{}/n.xml", long_seg()) ] {
        v.push(Some(uri::Https::from_str(&s).unwrap_or_else(|e| panic!("{s}: {e}"))));
    }
    v
}

/// Positions x character classes for free-text-like inputs. A text is made
/// of parts; in one part of a neutral text, the character at one POSITION
/// CLASS (first, middle, last, the part's only character) is replaced by one
/// representative of each CHARACTER CLASS the input type admits.
const POS_NAMES: [&str; 4] = ["first", "middle", "last", "only"];
fn put_at(part: &str, pos: usize, ch: char) -> String {
    let c: Vec<char> = part.chars().collect();
    match pos { 0 => format!("{ch}{}{}", c[1], c[2]), 1 => format!("{}{ch}{}", c[0], c[2]), 2 => format!("{}{}{ch}", c[0], c[1]), _ => ch.to_string() }
}
/// lower, upper, digit, and every punctuation character the URI types admit
fn uri_chars() -> Vec<char> { let mut v = vec!['a', 'Z', '7']; v.extend(PUNCT.chars()); v }

struct XText { desc: String, file: uri::Rsync, dir: uri::Rsync, https: uri::Https }

/// rsync://AUTHORITY/MODULE/SEGMENT/LAST (+ "/" for directories) and
/// https://AUTHORITY/SEGMENT/LAST with every (part, position, character).
/// Texts the URI types themselves refuse ("." / ".." segments, ...) are not
/// builder inputs and are left out.
fn xtexts() -> Vec<XText> {
    let parts = ["hst", "mod", "seg", "lst"];
    let part_names = ["authority", "module", "segment", "last segment"];
    let mut out = vec![];
    for (pi, _) in parts.iter().enumerate() { for pos in 0..4 { for ch in uri_chars() {
        let mut p: Vec<String> = parts.iter().map(|x| x.to_string()).collect();
        p[pi] = put_at(parts[pi], pos, ch);
        let file = format!("rsync://{}/{}/{}/{}", p[0], p[1], p[2], p[3]);
        let hp = [if pi == 0 { p[0].clone() } else { "hst".into() }, if pi == 1 || pi == 2 { p[pi].clone() } else { "seg".into() }, if pi == 3 { p[3].clone() } else { "lst".into() }];
        let https = format!("https://{}/{}/{}", hp[0], hp[1], hp[2]);
        if let (Ok(f), Ok(dr), Ok(h)) = (uri::Rsync::from_str(&file), uri::Rsync::from_str(&format!("{file}/")), uri::Https::from_str(&https)) {
            out.push(XText { desc: format!("{} {} char {:?}", part_names[pi], POS_NAMES[pos], ch), file: f, dir: dr, https: h });
        }
    }}}
    out
}

/// PrintableString common names: every character class of PrintableString
/// (RFC 5280: letters, digits, space and ' ( ) + , - . / : = ?) at the first,
/// middle and last position and as the only character.
fn xnames() -> Vec<(String, Name)> {
    let mut out = vec![];
    for pos in 0..4 { for ch in "aZ7 '()+,-./:=?".chars() {
        let text = put_at("Cmn", pos, ch);
        let dn = der::seq(&[der::set_of(&[der::seq(&[der::oid(&[2, 5, 4, 3]), der::printable(&text)])])]);
        if let Ok(n) = Mode::Der.decode(dn.as_slice(), Name::take_from) { out.push((format!("CN {} char {:?}", POS_NAMES[pos], ch), n)) }
    }}
    out
}

/// Manifest file names (RFC 9286 4.2.2: one or more of a-z A-Z 0-9 - _, a
/// dot, three letters): every character class at the first, middle and last
/// stem position and as a one-character stem; every pair of classes as a
/// two-character stem; a digits-only stem; stems of nothing but punctuation;
/// every registered extension; every upper/lower-case pattern of one extension.
fn mft_name_classes() -> Vec<String> {
    let classes = ['a', 'Z', '7', '-', '_'];
    let mut v: Vec<String> = vec![];
    for pos in 0..4 { for ch in classes { v.push(format!("{}.roa", put_at("mmm", pos, ch))) } }
    for a in classes { for b in classes { v.push(format!("{a}{b}.cer")) } }
    v.push("0123456789.crl".into());
    for st in ["-_-", "___", "---", "_-_-_-_-", "-", "_"] { v.push(format!("{st}.mft")) }
    for ext in ["asa", "cer", "crl", "gbr", "mft", "roa", "sig", "tak"] { v.push(format!("m.{ext}")) }
    for m in 0..8 { let e: String = "roa".chars().enumerate().map(|(i, c)| if m & (1 << i) != 0 { c.to_ascii_uppercase() } else { c }).collect(); v.push(format!("m.{e}")) }
    for ext in ["aaa", "zzz", "AAA", "ZZZ"] { v.push(format!("m.{ext}")) }
    v.sort(); v.dedup();
    v
}

/// names {derived from the key, explicit PrintableString CN, explicit CN + serialNumber}
fn explicit_names() -> Vec<Name> {
    let cn = |s: &str| der::seq(&[der::oid(&[2, 5, 4, 3]), der::printable(s)]);
    let sn = |s: &str| der::seq(&[der::oid(&[2, 5, 4, 5]), der::printable(s)]);
    let a = der::seq(&[der::set_of(&[cn("Verif CA-1 (test)")])]);
    let b = der::seq(&[der::set_of(&[cn("0123456789ABCDEF"), sn("42")])]);
    [a, b].iter().map(|d| Mode::Der.decode(d.as_slice(), Name::take_from).expect("explicit name decodes")).collect()
}

/// Four atoms per family: two adjacent ones (merge into one block), one that
/// is a range but no prefix, one at the top end.
const ATOM_NAMES: [&str; 4] = ["a", "b", "c", "d"];
fn v4_atoms() -> [(u128, u128); 4] {
    [(0x0a00_0000, 0x0a00_00ff), (0x0a00_0100, 0x0a00_01ff), (0x0a00_0300, 0x0a00_05ff), (0xffff_ffff, 0xffff_ffff)]
}
fn v6_atoms() -> [(u128, u128); 4] {
    let b = 0x2001_0db8u128 << 96; let c = 0x2001_0db9u128 << 96; let d = 0x2001_0dbau128 << 96;
    [(0, 0), (b, b | ((1u128 << 96) - 1)), (c, c | ((1u128 << 96) - 1)), (d | 1, d | 0xffff_ffff)]
}
fn as_atoms() -> [(u128, u128); 4] { [(0, 0), (1, 1), (64496, 64511), (4294967295, 4294967295)] }

/// One family's resource choice; `Blocks` lists atom indexes in insertion order.
#[derive(Clone, Debug, PartialEq, Eq, PartialOrd, Ord)]
enum ResCh { Missing, Inherit, Blocks(Vec<usize>) }

impl ResCh {
    fn wit(&self) -> String {
        match self { ResCh::Missing => "-".into(), ResCh::Inherit => "inh".into(),
            ResCh::Blocks(v) => v.iter().map(|&i| ATOM_NAMES[i]).collect::<String>() }
    }
    fn claim(&self, atoms: &[(u128, u128); 4]) -> Claim {
        match self { ResCh::Missing => Claim::Missing, ResCh::Inherit => Claim::Inherit,
            ResCh::Blocks(v) => Claim::Blocks(v.iter().map(|&i| atoms[i]).collect()) }
    }
    fn class(&self) -> &'static str { match self { ResCh::Missing => "M", ResCh::Inherit => "I", ResCh::Blocks(_) => "B" } }
}
/// missing, inherit, and every non-empty subset in ascending order (17)
fn res_subsets(inherit: bool) -> Vec<ResCh> {
    let mut v = vec![ResCh::Missing];
    if inherit { v.push(ResCh::Inherit) }
    for m in 1u32..16 { v.push(ResCh::Blocks((0..4).filter(|i| m & (1 << i) != 0).collect())) }
    v
}
/// every ordered selection of 1..=4 distinct atoms (64)
fn res_orders() -> Vec<ResCh> {
    let mut v = vec![];
    for m in 1u32..16 {
        let set: Vec<usize> = (0..4).filter(|i| m & (1 << i) != 0).collect();
        for p in permutations(set.len()) { v.push(ResCh::Blocks(p.iter().map(|&k| set[k]).collect())) }
    }
    v
}
//============ Signer wrapper =================================================

/// The pool signer with a chosen one-off key and chosen "random" octets, so
/// that `Serial::random` (identity EE certificates) walks the serial domain
/// and every case is a pure function of its input tuple.
struct CaseSigner<'a> { inner: &'a PoolSigner, one_off: usize, rand: [u8; 20] }

impl<'a> CaseSigner<'a> {
    fn new(inner: &'a PoolSigner, one_off: usize) -> Self { CaseSigner { inner, one_off, rand: [0x5a; 20] } }
    fn with_rand(inner: &'a PoolSigner, one_off: usize, serial: Serial) -> Self {
        CaseSigner { inner, one_off, rand: serial.into_array() }
    }
}

impl Signer for CaseSigner<'_> {
    type KeyId = Kid;
    type Error = io::Error;
    fn create_key(&self, a: PublicKeyFormat) -> Result<Kid, io::Error> { self.inner.create_key(a) }
    fn get_key_info(&self, k: &Kid) -> Result<PublicKey, KeyError<io::Error>> { self.inner.get_key_info(k) }
    fn destroy_key(&self, k: &Kid) -> Result<(), KeyError<io::Error>> { self.inner.destroy_key(k) }
    fn sign<Alg: SignatureAlgorithm, D: AsRef<[u8]> + ?Sized>(&self, k: &Kid, alg: Alg, d: &D)
        -> Result<Signature<Alg>, SigningError<io::Error>> { self.inner.sign(k, alg, d) }
    fn sign_one_off<Alg: SignatureAlgorithm, D: AsRef<[u8]> + ?Sized>(&self, alg: Alg, d: &D)
        -> Result<(Signature<Alg>, PublicKey), io::Error> {
        if !matches!(alg.signing_algorithm(), SigningAlgorithm::RsaSha256) { return Err(io::Error::other("invalid algorithm")) }
        Ok((Signature::new(alg, self.inner.sign_raw(self.one_off, d.as_ref()).into()), self.inner.public(self.one_off)))
    }
    fn rand(&self, target: &mut [u8]) -> Result<(), io::Error> {
        for (i, b) in target.iter_mut().enumerate() { *b = self.rand[i % 20] }
        Ok(())
    }
}

//============ Case runner ====================================================

#[derive(Default)]
struct CaseResult {
    /// (oracle suffix, detail)
    fails: Vec<(String, String)>,
    /// outcome class (measured on the produced DER / decoded value)
    label: String,
    /// hash of the produced encoding (distinctness measure)
    der_hash: u64,
    /// things counted but not judged (see the space's rule text)
    counted: u64,
    /// sequence spaces: hashes of the model states passed through, and the
    /// number of operations applied
    states: Vec<u64>,
    transitions: u64,
}
impl CaseResult {
    fn fail(&mut self, oracle: &str, detail: impl Into<String>) { self.fails.push((oracle.to_string(), detail.into())) }
}

fn fnv(b: &[u8]) -> u64 { let mut h = 0xcbf29ce484222325u64; for x in b { h ^= *x as u64; h = h.wrapping_mul(0x100000001b3) } h }

/// Counts UTCTime and GeneralizedTime values anywhere in the encoding
/// (extension values and eContent included) — shows from the bytes that
/// both branches of the time encoder were taken.
fn time_tags(derb: &[u8]) -> String {
    let Some(root) = der::parse_one(derb, true) else { return "unparsable".into() };
    let mut all = vec![]; root.walk(&mut vec![], &mut all);
    let u = all.iter().filter(|(_, n)| n.tag == der::T_UTCTIME).count();
    let g = all.iter().filter(|(_, n)| n.tag == der::T_GENTIME).count();
    format!("utc{u}/gen{g}")
}

/// Runs all cases on all cores; reports failures in case order.
fn run_cases<C: Sync>(ctx: &Ctx, sp: &Space, obj: &str, cases: &[C],
                      wit: impl Fn(&C) -> String + Sync, f: impl Fn(&C) -> CaseResult + Sync) {
    let results: Vec<CaseResult> = cases.par_iter().map(|c| {
        WHOLE_SECONDS.with(|w| w.set((false, 0)));
        TRUNCATED_SECOND.with(|w| w.set((None, 0)));
        match guard(|| f(c)) {
            Ok(r) => r,
            Err(p) => { let mut r = CaseResult::default(); r.label = "harness-panic".into(); r.fail("build", format!("unguarded {p}")); r }
        }
    }).collect();
    let mut labels: BTreeMap<String, u64> = BTreeMap::new();
    let mut hashes: BTreeSet<u64> = BTreeSet::new();
    let counted: u64 = results.iter().map(|r| r.counted).sum();
    if counted > 0 { sp.set("counted_not_judged", serde_json::json!(counted)) }
    let states: BTreeSet<u64> = results.iter().flat_map(|r| r.states.iter().copied()).collect();
    if !states.is_empty() { sp.states(states.len() as u64); sp.transitions(results.iter().map(|r| r.transitions).sum()); sp.traces(cases.len() as u64) }
    for (c, r) in cases.iter().zip(results.iter()) {
        *labels.entry(r.label.clone()).or_insert(0) += 1;
        if r.der_hash != 0 { hashes.insert(r.der_hash); }
        for (o, d) in &r.fails { ctx.fail(&format!("C05.{obj}.{o}"), wit(c), d.clone()); }
    }
    sp.evals(cases.len() as u64);
    sp.nontrivial(hashes.len() as u64);
    for (l, n) in labels { sp.outcomes_n(&l, n) }
    if let Some(c) = cases.first() { sp.sample_str(|| wit(c)) }
    if let Some(c) = cases.last() { sp.sample_str(|| wit(c)) }
}

/// Oracles (i) decode, (ii) re-encode, (iii) accessor agreement for one
/// built value. Returns the encoding and the decoded twin.
fn twin<T>(r: &mut CaseResult, built: &T, enc: impl Fn(&T) -> Vec<u8>, dec: impl Fn(&[u8]) -> Result<T, String>,
           observe: impl Fn(&T) -> Obs) -> Option<(Vec<u8>, T)> {
    let bytes = match guard(|| enc(built)) { Ok(b) => b, Err(p) => { r.fail("encode", p); return None } };
    r.der_hash = fnv(&bytes);
    let decoded = match guard(|| dec(&bytes)) {
        Ok(Ok(d)) => d,
        Ok(Err(e)) => { r.fail("decode", format!("{e}; der={}", rpki_verif::trunc(&hex(&bytes), 400))); return None }
        Err(p) => { r.fail("decode", p); return None }
    };
    match guard(|| enc(&decoded)) {
        Ok(b2) => if b2 != bytes {
            let pos = b2.iter().zip(bytes.iter()).position(|(a, b)| a != b).unwrap_or(b2.len().min(bytes.len()));
            r.fail("reencode", format!("{} octets built, {} re-encoded, first difference at {pos}", bytes.len(), b2.len()));
        },
        Err(p) => r.fail("reencode", p),
    }
    if let Some(d) = diff(&observe(built), &observe(&decoded)) { r.fail("accessors", d) }
    Some((bytes, decoded))
}

//============ observe(): every public accessor, per type =====================

fn obs_tbs(t: &TbsCert) -> Obs {
    let mut o = Obs::new();
    o.put("serial_number", || format!("{} {}", t.serial_number(), hex(&t.serial_number().into_array())));
    o.put("issuer", || r_name(t.issuer()));
    o.put("validity", || r_validity(t.validity()));
    o.put("subject", || r_name(t.subject()));
    o.put("subject_public_key_info", || r_key(t.subject_public_key_info()));
    o.put("basic_ca", || format!("{:?}", t.basic_ca()));
    o.put("subject_key_identifier", || r_ski(&t.subject_key_identifier()));
    o.put("authority_key_identifier", || format!("{:?}", t.authority_key_identifier().map(|k| r_ski(&k))));
    o.pair("validity.verify", || r_res(t.validity().verify()), || r_res(t.validity().verify_at(Time::now())));
    #[allow(deprecated)]
    o.pair("validity.to_binary_time", || t.validity().not_before().to_binary_time().to_string(), || t.validity().not_before().timestamp().to_string());
    o.put("key_usage", || format!("{:?}", t.key_usage()));
    o.put("extended_key_usage", || format!("{:?}", t.extended_key_usage().map(|e| r_res(e.inspect_router()))));
    o.put("crl_uri", || r_rsync(t.crl_uri()));
    o.put("ca_issuer", || r_rsync(t.ca_issuer()));
    o.put("ca_repository", || r_rsync(t.ca_repository()));
    o.put("rpki_manifest", || r_rsync(t.rpki_manifest()));
    o.put("signed_object", || r_rsync(t.signed_object()));
    o.put("rpki_notify", || r_https(t.rpki_notify()));
    o.put("overclaim", || format!("{:?}", t.overclaim()));
    o.put("v4_resources", || r_ipres(t.v4_resources(), true));
    o.put("v6_resources", || r_ipres(t.v6_resources(), false));
    o.put("has_ip_resources", || t.has_ip_resources().to_string());
    o.put("as_resources", || r_asres(t.as_resources()));
    o.put("is_ca", || t.is_ca().to_string());
    o.put("is_self_signed", || t.is_self_signed().to_string());
    o.put("tbs.encode_ref", || hx(&cap(t.encode_ref())));
    o
}

fn obs_cert(c: &Cert) -> Obs {
    let mut o = obs_tbs(c);
    o.put("to_captured", || hx(c.to_captured().as_slice()));
    o.put("encode_ref", || hx(&cap(c.encode_ref())));
    o.put("inspect_ta", || r_res(c.inspect_ta(true)));
    o.put("inspect_ca", || r_res(c.inspect_ca(true)));
    o.put("inspect_ee", || r_res(c.inspect_ee(true)));
    o.put("inspect_detached_ee", || r_res(c.inspect_detached_ee(true)));
    o.put("inspect_router", || r_res(c.inspect_router(true)));
    for (i, t) in instants().iter().enumerate() {
        o.put(&format!("verify_validity@{i}"), || r_verdict_at(*t, || r_res(c.verify_validity(*t))));
    }
    o.put("verify_ta_ref_at(nb)", || r_res(c.verify_ta_ref_at(true, c.validity().not_before())));
    o.pair("verify_ta_ref", || r_res(c.verify_ta_ref(true)), || r_res(c.verify_ta_ref_at(true, Time::now())));
    // sibling decoders of the same octets
    let bytes = c.to_captured();
    o.pair("take_opt_from", || Mode::Der.decode(bytes.as_slice(), |x| Cert::take_opt_from(x)).map(|x| x.map(|x| hx(x.to_captured().as_slice())).unwrap_or("None".into())).unwrap_or_else(|e| e.to_string()),
        || Mode::Der.decode(bytes.as_slice(), Cert::take_from).map(|x| hx(x.to_captured().as_slice())).unwrap_or_else(|e| e.to_string()));
    o.pair("SignedData::decode", || rpki::repository::x509::SignedData::<RpkiSignatureAlgorithm>::decode(bytes.as_slice()).map(|x| hx(&cap(x.encode_ref()))).unwrap_or_else(|e| e.to_string()),
        || hx(bytes.as_slice()));
    o.pair("SignedData::take_from", || Mode::Der.decode(bytes.as_slice(), rpki::repository::x509::SignedData::<RpkiSignatureAlgorithm>::take_from)
        .map(|x| format!("{} sig={}", hx(x.data().as_slice()), hx(x.signature().value()))).unwrap_or_else(|e| e.to_string()),
        || rpki::repository::x509::SignedData::<RpkiSignatureAlgorithm>::decode(bytes.as_slice()).map(|x| format!("{} sig={}", hx(x.data().as_slice()), hx(x.signature().value()))).unwrap_or_else(|e| e.to_string()));
    o
}

fn obs_rescert(rc: &ResourceCert) -> Obs {
    let mut o = Obs::new();
    o.put("v4_resources", || r_ipblocks(rc.v4_resources(), true));
    o.put("v6_resources", || r_ipblocks(rc.v6_resources(), false));
    o.put("as_resources", || r_asblocks_n(rc.as_resources(), false));
    o.pair("tal", || rc.tal().name().to_string(), || rc.clone().into_tal().name().to_string());
    o.put("as_cert", || hx(rc.as_cert().to_captured().as_slice()));
    o
}

fn obs_crl(c: &Crl, probes: &[Serial]) -> Obs {
    let mut o = Obs::new();
    // the identifier is observed through what it encodes to: whether its
    // parameters were present when it was parsed is a spelling the encoder
    // normalises by its documentation ("we will always include a parameters field")
    o.put("signature", || hex(&cap(c.signature().x509_encode())));
    o.put("issuer", || r_name(c.issuer()));
    o.put("this_update", || r_time(c.this_update()));
    o.put("next_update", || r_time(c.next_update()));
    o.put("is_stale", || c.is_stale().to_string());
    o.put("authority_key_identifier", || r_ski(c.authority_key_identifier()));
    o.put("crl_number", || c.crl_number().to_string());
    o.put("revoked_certs.iter", || c.revoked_certs().iter()
        .map(|e| format!("{}@{}", e.user_certificate, r_time(e.revocation_date))).collect::<Vec<_>>().join(","));
    o.put("revoked_certs.encode_ref", || hex(&cap(c.revoked_certs().encode_ref())));
    o.put("as_cert_list.encode_ref", || hx(&cap(c.as_cert_list().encode_ref())));
    for s in probes {
        o.put(&format!("contains({s})"), || c.contains(*s).to_string());
        o.put(&format!("revoked_certs.contains({s})"), || c.revoked_certs().contains(*s).to_string());
    }
    o.put("cached.contains", || { let mut c2 = c.clone(); c2.cache_serials();
        probes.iter().map(|s| c2.contains(*s).to_string()).collect::<Vec<_>>().join(",") });
    o.put("signed_data.data", || hx(c.signed_data().data().as_slice()));
    o.put("signed_data.signature", || hx(c.signed_data().signature().value()));
    o.put("to_captured", || hx(c.to_captured().as_slice()));
    // sibling decoders and the (deprecated) store
    let bytes = c.to_captured();
    o.pair("take_opt_from", || Mode::Der.decode(bytes.as_slice(), |x| Crl::take_opt_from(x)).map(|x| x.map(|x| hx(x.to_captured().as_slice())).unwrap_or("None".into())).unwrap_or_else(|e| e.to_string()),
        || Mode::Der.decode(bytes.as_slice(), Crl::take_from).map(|x| hx(x.to_captured().as_slice())).unwrap_or_else(|e| e.to_string()));
    o.pair("SignedData::decode", || rpki::repository::x509::SignedData::<RpkiSignatureAlgorithm>::decode(bytes.as_slice()).map(|x| hx(x.data().as_slice())).unwrap_or_else(|e| e.to_string()),
        || hx(c.signed_data().data().as_slice()));
    o.pair("CrlEntry::take_from", || c.revoked_certs().iter().map(|e| { let d = cap(e.encode());
            Mode::Der.decode(d.as_slice(), CrlEntry::take_from).map(|x| format!("{}@{}", x.user_certificate, r_time(x.revocation_date))).unwrap_or_else(|e| e.to_string()) }).collect::<Vec<_>>().join(","),
        || c.revoked_certs().iter().map(|e| format!("{}@{}", e.user_certificate, r_time(e.revocation_date))).collect::<Vec<_>>().join(","));
    #[allow(deprecated)]
    for caching in [false, true] {
        o.pair(&format!("CrlStore(caching={caching})"), || {
            let mut st = rpki::repository::crl::CrlStore::new();
            if caching { st.enable_serial_caching() }
            let (u1, u2) = (uri::Rsync::from_str("rsync://h/m/a.crl").unwrap(), uri::Rsync::from_str("rsync://h/m/b.crl").unwrap());
            st.push(u1.clone(), c.clone());
            format!("{:?} {} missing={}", st.get(&u1).map(|x| hx(x.to_captured().as_slice())),
                st.get(&u1).map(|x| probes.iter().map(|s| x.contains(*s).to_string()).collect::<Vec<_>>().join(",")).unwrap_or_default(), st.get(&u2).is_none())
        }, || format!("{:?} {} missing=true", Some(hx(c.to_captured().as_slice())), probes.iter().map(|s| c.contains(*s).to_string()).collect::<Vec<_>>().join(",")));
    }
    o
}

fn obs_mft_content(m: &ManifestContent, base: &uri::Rsync) -> Obs {
    let mut o = Obs::new();
    o.put("manifest_number", || m.manifest_number().to_string());
    o.put("this_update", || r_time(m.this_update()));
    o.put("next_update", || r_time(m.next_update()));
    o.put("file_hash_alg", || r_digest_alg(m.file_hash_alg()));
    o.put("len", || m.len().to_string());
    o.put("is_empty", || m.is_empty().to_string());
    o.put("is_stale", || m.is_stale().to_string());
    o.put("iter", || m.iter().map(|f| format!("{}={}", hex(f.file()), hex(f.hash()))).collect::<Vec<_>>().join(","));
    o.put("iter_uris", || m.iter_uris(base).map(|(u, h)| format!("{}={}:{:?}", u, hex(h.as_slice()), h.algorithm())).collect::<Vec<_>>().join(","));
    o.put("encode_ref", || hx(&cap(m.encode_ref())));
    o
}

fn obs_manifest(m: &Manifest, base: &uri::Rsync) -> Obs {
    let mut o = Obs::new();
    o.sub("content", obs_mft_content(m.content(), base));
    o.put("deref.len", || { let c: &ManifestContent = m; c.len().to_string() });
    o.sub("cert", obs_cert(m.cert()));
    o.put("to_captured", || hx(m.to_captured().as_slice()));
    o
}

fn r_roa_addrs(a: &RoaIpAddresses) -> String {
    a.iter().map(|x| format!("{:032x}/{}-{:?} range={:032x}..{:032x}", x.prefix().addr().to_bits(), x.prefix().addr_len(),
        x.max_length(), x.range().0.to_bits(), x.range().1.to_bits())).collect::<Vec<_>>().join(",")
}

fn obs_roa_content(c: &RouteOriginAttestation) -> Obs {
    let mut o = Obs::new();
    o.put("as_id", || c.as_id().to_string());
    o.put("v4_addrs.is_empty", || c.v4_addrs().is_empty().to_string());
    o.put("v6_addrs.is_empty", || c.v6_addrs().is_empty().to_string());
    o.put("v4_addrs.iter", || r_roa_addrs(c.v4_addrs()));
    o.put("v6_addrs.iter", || r_roa_addrs(c.v6_addrs()));
    o.put("iter", || c.iter().map(|f| format!("{} v4={} addr={} len={} max={} pfx={:032x}", f, f.is_v4(), f.address(),
        f.address_length(), f.max_length(), f.prefix().addr().to_bits())).collect::<Vec<_>>().join(","));
    o.put("iter_origins", || c.iter_origins().map(|r| format!("{:?}", r)).collect::<Vec<_>>().join(","));
    o.put("encode_ref", || hx(&cap(c.encode_ref())));
    o
}

fn obs_roa(r: &Roa) -> Obs {
    let mut o = Obs::new();
    o.sub("content", obs_roa_content(r.content()));
    o.sub("cert", obs_cert(r.cert()));
    o.put("to_captured", || hx(r.to_captured().as_slice()));
    o
}

fn obs_aspa_content(c: &AsProviderAttestation) -> Obs {
    let mut o = Obs::new();
    o.put("customer_as", || c.customer_as().to_string());
    o.put("as_resources", || r_asres(&c.as_resources()));
    o.put("provider_as_set.len", || c.provider_as_set().len().to_string());
    o.put("provider_as_set.iter", || c.provider_as_set().iter().map(|a| a.to_string()).collect::<Vec<_>>().join(","));
    o.put("provider_as_set.to_set", || { let s = c.provider_as_set().to_set();
        format!("len={} [{}]", s.len(), s.iter().map(|a| a.to_string()).collect::<Vec<_>>().join(",")) });
    o.put("encode_ref", || hx(&cap(c.encode_ref())));
    o
}

fn obs_aspa(a: &Aspa) -> Obs {
    let mut o = Obs::new();
    o.sub("content", obs_aspa_content(a.content()));
    o.sub("cert", obs_cert(a.cert()));
    o.put("to_captured", || hx(a.to_captured().as_slice()));
    o
}

fn obs_sigobj(s: &SignedObject) -> Obs {
    let mut o = Obs::new();
    o.put("content_type", || s.content_type().to_string());
    o.put("content", || hx(&s.content().to_bytes()));
    o.put("signing_time", || r_time(s.signing_time()));
    o.put("decode_content", || r_res(s.decode_content(|cons| cons.capture_all()).map(|c| c.len())));
    o.sub("cert", obs_cert(s.cert()));
    o.put("encode_ref", || hx(&cap(s.encode_ref())));
    o
}

fn obs_csr(c: &RpkiCaCsr) -> Obs {
    let mut o = Obs::new();
    o.put("subject", || r_name(c.subject()));
    o.put("public_key", || r_key(c.public_key()));
    o.put("basic_ca", || c.basic_ca().to_string());
    o.put("key_usage", || format!("{:?}", c.key_usage()));
    o.put("extended_key_usage", || format!("{:?}", c.extended_key_usage().map(|e| r_res(e.inspect_router()))));
    o.put("ca_repository", || r_rsync(c.ca_repository()));
    o.put("rpki_manifest", || r_rsync(c.rpki_manifest()));
    o.put("rpki_notify", || r_https(c.rpki_notify()));
    o.put("verify_signature", || r_res(c.verify_signature()));
    o.put("to_captured", || hx(c.to_captured().as_slice()));
    o
}

/// `attributes()` of the RPKI CA request and the BGPsec attribute reader run
/// over the same request (the two readers share the extension grammar).
fn csr_attribute_siblings(c: &RpkiCaCsr) -> Option<String> {
    let mut o = Obs::new();
    let bytes = c.to_captured();
    o.put("attributes", || format!("{:?}", c.attributes()).len().to_string());
    let bg = Csr::<RpkiSignatureAlgorithm, rpki::ca::csr::BgpsecCsrAttributes>::decode(bytes.as_slice());
    match bg {
        Ok(b) => {
            o.pair("bgpsec.subject", || r_name(b.subject()), || r_name(c.subject()));
            o.pair("bgpsec.public_key", || r_key(b.public_key()), || r_key(c.public_key()));
            o.pair("bgpsec.extended_key_usage", || format!("{:?}", b.attributes().extended_key_usage().map(|e| r_res(e.inspect_router()))),
                || format!("{:?}", c.extended_key_usage().map(|e| r_res(e.inspect_router()))));
            o.pair("bgpsec.verify_signature", || r_res(b.verify_signature()), || r_res(c.verify_signature()));
            o.pair("bgpsec.to_captured", || hx(b.to_captured().as_slice()), || hx(bytes.as_slice()));
        }
        Err(e) => o.put("bgpsec.decode", || format!("SIBLING-MISMATCH the BGPsec attribute reader rejects the request: {e}")),
    }
    let bad: Vec<String> = o.0.iter().filter(|(_, v)| v.contains("SIBLING-MISMATCH") || v.starts_with("PANIC")).map(|(n, v)| format!("{n}: {v}")).collect();
    if bad.is_empty() { None } else { Some(bad.join(" | ")) }
}

fn obs_idcert(c: &IdCert) -> Obs {
    let mut o = Obs::new();
    o.put("public_key", || r_key(c.public_key()));
    o.put("subject_public_key_info", || r_key(c.subject_public_key_info()));
    o.put("subject_key_identifier", || c.subject_key_identifier().to_string());
    o.put("subject_key_id", || c.subject_key_id().to_string());
    o.put("authority_key_id", || format!("{:?}", c.authority_key_id()));
    o.put("serial_number", || c.serial_number().to_string());
    o.put("subject", || r_name(c.subject()));
    o.put("validity", || r_validity(*c.validity()));
    o.put("tbs.encode_ref", || { let t: &rpki::ca::idcert::TbsIdCert = c; hx(&cap(t.encode_ref())) });
    for (i, t) in instants().iter().enumerate() {
        o.put(&format!("verify_validity@{i}"), || r_verdict_at(*t, || r_res(c.verify_validity(*t))));
        o.put(&format!("validate_ta_at@{i}"), || r_verdict_at(*t, || r_res(c.validate_ta_at(*t))));
    }
    o.pair("validate_ta", || r_res(c.validate_ta()), || r_res(c.validate_ta_at(Time::now())));
    o.put("to_bytes", || hx(&c.to_bytes()));
    o.put("to_captured", || hx(c.to_captured().as_slice()));
    o
}

fn obs_sigmsg(m: &SignedMessage) -> Obs {
    let mut o = Obs::new();
    o.put("content_type", || m.content_type().to_string());
    o.put("content", || hx(&m.content().to_bytes()));
    o.put("to_captured", || hx(m.to_captured().as_slice()));
    o
}

//============ Shared fixtures ================================================

struct Dom {
    signer: PoolSigner,
    ta: ResourceCert,
    serials: Vec<(&'static str, Serial)>,
    instants: [Time; 5],
    windows: Vec<(usize, usize)>,
    dirs: Vec<uri::Rsync>,
    crls: Vec<uri::Rsync>,
    cers: Vec<uri::Rsync>,
    mfts: Vec<uri::Rsync>,
    objs: Vec<uri::Rsync>,
    https: Vec<Option<uri::Https>>,
    names: Vec<Name>,
    xtext: Vec<XText>,
    xnames: Vec<(String, Name)>,
}

impl Dom {
    fn new() -> Dom {
        let signer = PoolSigner::load();
        let ta = pki::valid_ta(&signer, 0, Res::all());
        Dom { signer, ta, serials: serial_dom(), instants: instants(), windows: windows(), dirs: rsync_dirs(),
              crls: rsync_files("crl"), cers: rsync_files("cer"), mfts: rsync_files("mft"), objs: rsync_files("roa"),
              https: https_opts(), names: explicit_names(), xtext: xtexts(), xnames: xnames() }
    }
    /// 0 = derived from the key, 1.. = explicit
    fn name_opt(&self, i: usize) -> Option<Name> { if i == 0 { None } else { Some(self.names[i - 1].clone()) } }
    fn issuer_name(&self, i: usize, key: usize) -> Name { self.name_opt(i).unwrap_or_else(|| self.signer.public(key).to_subject_name()) }
    fn validity(&self, w: (usize, usize)) -> Validity { Validity::new(self.instants[w.0], self.instants[w.1]) }
    fn wname(&self, w: (usize, usize)) -> String { format!("{}..{}", INSTANT_NAMES[w.0], INSTANT_NAMES[w.1]) }
}

const URI_NAMES: [&str; 4] = ["short", "punct", "upcase", "long"];
const NAME_NAMES: [&str; 3] = ["derived", "cn", "cn+sn"];

//============ Certificates (TbsCert as TA / CA / EE / router) ================

#[derive(Clone, Copy, Debug, PartialEq, Eq)]
enum CKind { Ta, Ca, Ee, Router }

#[derive(Clone, Debug)]
struct CertSpec {
    kind: CKind,
    serial: usize,
    win: (usize, usize),
    issuer_name: usize,
    subject_name: usize,
    /// crl, ca_issuer, (ca_repository | signed_object), rpki_manifest
    uris: [usize; 4],
    notify: usize,
    v4: ResCh, v6: ResCh, asn: ResCh,
    overclaim: Overclaim,
    subject_key: usize,
    /// TA only: write an AKI (equal to the SKI)
    ta_aki: bool,
    /// positions x classes layer: every URI field takes this text / both names take this name
    text_x: Option<usize>,
    name_x: Option<usize>,
    /// time-route layer: this window instead of `win`, handed to `TbsCert::new`
    validity_x: Option<Validity>,
}

impl CertSpec {
    /// The fixed non-trivial setting every field group is varied against.
    fn base(kind: CKind) -> CertSpec {
        CertSpec { kind, serial: 3, win: (1, 3), issuer_name: 1, subject_name: 2, uris: [1, 1, 1, 1], notify: 2,
            v4: if kind == CKind::Router { ResCh::Missing } else { ResCh::Blocks(vec![0, 2]) },
            v6: if kind == CKind::Router { ResCh::Missing } else if kind == CKind::Ta { ResCh::Blocks(vec![1]) } else { ResCh::Inherit },
            asn: ResCh::Blocks(vec![1, 2]), overclaim: Overclaim::Refuse,
            subject_key: if kind == CKind::Ta { 0 } else { 2 }, ta_aki: false, text_x: None, name_x: None, validity_x: None }
    }
    fn wit(&self, d: &Dom) -> String {
        format!("{:?} serial={} validity={} issuer={} subject={} uris={}/{}/{}/{} notify={} v4={} v6={} as={} policy={:?} key={}{}",
            self.kind, d.serials[self.serial].0, d.wname(self.win), NAME_NAMES[self.issuer_name], NAME_NAMES[self.subject_name],
            URI_NAMES[self.uris[0]], URI_NAMES[self.uris[1]], URI_NAMES[self.uris[2]], URI_NAMES[self.uris[3]], self.notify,
            self.v4.wit(), self.v6.wit(), self.asn.wit(), self.overclaim, self.subject_key, if self.ta_aki { " aki=ski" } else { "" })
            + &self.text_x.map(|i| format!(" all-uris=[{}: {}]", d.xtext[i].desc, d.xtext[i].file)).unwrap_or_default()
            + &self.name_x.map(|i| format!(" both-names=[{}]", d.xnames[i].0)).unwrap_or_default()
    }
    /// Is this combination inside the RFC 6487 / 8209 profile?
    fn conforming(&self) -> bool {
        let any = self.v4 != ResCh::Missing || self.v6 != ResCh::Missing || self.asn != ResCh::Missing;
        match self.kind {
            CKind::Ta => any && self.v4 != ResCh::Inherit && self.v6 != ResCh::Inherit && self.asn != ResCh::Inherit,
            CKind::Ca | CKind::Ee => any,
            CKind::Router => self.v4 == ResCh::Missing && self.v6 == ResCh::Missing && matches!(self.asn, ResCh::Blocks(_)),
        }
    }
    fn build(&self, d: &Dom) -> TbsCert {
        let signing_key = if self.kind == CKind::Ta { self.subject_key } else { 0 };
        let subject_pub = if self.kind == CKind::Router { ec_public(self.subject_key) } else { d.signer.public(self.subject_key) };
        let usage = match self.kind { CKind::Ta | CKind::Ca => KeyUsage::Ca, _ => KeyUsage::Ee };
        let mut t = TbsCert::new(d.serials[self.serial].1, d.issuer_name(self.issuer_name, signing_key), self.validity_x.unwrap_or_else(|| d.validity(self.win)),
            d.name_opt(self.subject_name), subject_pub, usage, self.overclaim);
        match self.kind {
            CKind::Ta => {
                t.set_basic_ca(Some(true));
                t.set_ca_repository(Some(d.dirs[self.uris[2]].clone()));
                t.set_rpki_manifest(Some(d.mfts[self.uris[3]].clone()));
                t.set_rpki_notify(d.https[self.notify].clone());
                if self.ta_aki { t.set_authority_key_identifier(Some(d.signer.public(self.subject_key).key_identifier())) }
            }
            CKind::Ca => {
                t.set_basic_ca(Some(true));
                t.set_crl_uri(Some(d.crls[self.uris[0]].clone()));
                t.set_ca_issuer(Some(d.cers[self.uris[1]].clone()));
                t.set_ca_repository(Some(d.dirs[self.uris[2]].clone()));
                t.set_rpki_manifest(Some(d.mfts[self.uris[3]].clone()));
                t.set_rpki_notify(d.https[self.notify].clone());
                t.set_authority_key_identifier(Some(d.ta.subject_key_identifier()));
            }
            CKind::Ee => {
                t.set_crl_uri(Some(d.crls[self.uris[0]].clone()));
                t.set_ca_issuer(Some(d.cers[self.uris[1]].clone()));
                t.set_signed_object(Some(d.objs[self.uris[2]].clone()));
                t.set_authority_key_identifier(Some(d.ta.subject_key_identifier()));
            }
            CKind::Router => {
                t.set_extended_key_usage(Some(ExtendedKeyUsage::create_router()));
                t.set_crl_uri(Some(d.crls[self.uris[0]].clone()));
                t.set_ca_issuer(Some(d.cers[self.uris[1]].clone()));
                t.set_authority_key_identifier(Some(d.ta.subject_key_identifier()));
            }
        }
        t.set_v4_resources(pki::ip_res(32, &self.v4.claim(&v4_atoms())));
        t.set_v6_resources(pki::ip_res(128, &self.v6.claim(&v6_atoms())));
        t.set_as_resources(pki::as_res(&self.asn.claim(&as_atoms())));
        if let Some(i) = self.text_x {
            let x = &d.xtext[i];
            if t.crl_uri().is_some() { t.set_crl_uri(Some(x.file.clone())) }
            if t.ca_issuer().is_some() { t.set_ca_issuer(Some(x.file.clone())) }
            if t.ca_repository().is_some() { t.set_ca_repository(Some(x.dir.clone())) }
            if t.rpki_manifest().is_some() { t.set_rpki_manifest(Some(x.file.clone())) }
            if t.signed_object().is_some() { t.set_signed_object(Some(x.file.clone())) }
            if t.rpki_notify().is_some() { t.set_rpki_notify(Some(x.https.clone())) }
        }
        if let Some(i) = self.name_x { t.set_issuer(d.xnames[i].1.clone()); t.set_subject(d.xnames[i].1.clone()) }
        t
    }
}

fn validate_cert(d: &Dom, kind: CKind, c: &Cert, now: Time) -> Result<Option<ResourceCert>, String> {
    match kind {
        CKind::Ta => c.clone().validate_ta_at(pki::tal(), true, now).map(Some).map_err(|e| e.to_string()),
        CKind::Ca => c.clone().validate_ca_at(&d.ta, true, now).map(Some).map_err(|e| e.to_string()),
        CKind::Ee => c.clone().validate_ee_at(&d.ta, true, now).map(Some).map_err(|e| e.to_string()),
        CKind::Router => c.validate_router_at(&d.ta, true, now).map(|_| None).map_err(|e| e.to_string()),
    }
}

fn cert_case(d: &Dom, s: &CertSpec) -> CaseResult {
    let mut r = CaseResult::default();
    let signing_key = if s.kind == CKind::Ta { s.subject_key } else { 0 };
    let built = match guard(|| s.build(d).into_cert(&d.signer, &Kid(signing_key))) {
        Ok(Ok(c)) => c,
        Ok(Err(e)) => { r.fail("build", format!("signing error: {e}")); r.label = "build-failed".into(); return r }
        Err(p) => { r.fail("build", p); r.label = "build-failed".into(); return r }
    };
    let Some((bytes, decoded)) = twin(&mut r, &built, |c| c.to_captured().as_slice().to_vec(),
        |b| Cert::decode(b).map_err(|e| e.to_string()), obs_cert) else { r.label = "no-twin".into(); return r };
    r.label = format!("{} v4{} v6{} as{}", time_tags(&bytes), s.v4.class(), s.v6.class(), s.asn.class());
    // (i) validates under the issuing key at both ends of the window; the
    // built value must validate to the same resolved resources.
    for now in [d.instants[s.win.0], d.instants[s.win.1]] {
        match guard(|| (validate_cert(d, s.kind, &decoded, now), validate_cert(d, s.kind, &built, now))) {
            Err(p) => r.fail("validate", p),
            Ok((Err(e), _)) => r.fail("validate", format!("decoded twin rejected at {}: {e}", r_time(now))),
            Ok((Ok(_), Err(e))) => r.fail("accessors", format!("built value rejected at {} where its twin validates: {e}", r_time(now))),
            Ok((Ok(Some(a)), Ok(Some(b)))) => if let Some(x) = diff(&obs_rescert(&b), &obs_rescert(&a)) { r.fail("accessors", format!("validated: {x}")) },
            Ok(_) => {}
        }
        if !r.fails.is_empty() { break }
    }
    // wall-clock variants must give the verdict (and resources) of their `_at(now)` siblings
    for (who, c) in [("built", &built), ("decoded", &decoded)] {
        if let Some(x) = wallclock_cert(d, s.kind, c) { r.fail("wallclock", format!("{who}: {x}")); break }
    }
    // `set_*_resources_inherit()` is `set_*_resources(inherit())`
    if s.v4 == ResCh::Inherit || s.v6 == ResCh::Inherit || s.asn == ResCh::Inherit {
        match guard(|| { let mut t = s.build(d);
            if s.v4 == ResCh::Inherit { t.set_v4_resources(IpResources::missing()); t.set_v4_resources_inherit() }
            if s.v6 == ResCh::Inherit { t.set_v6_resources(IpResources::missing()); t.set_v6_resources_inherit() }
            if s.asn == ResCh::Inherit { t.set_as_resources(AsResources::missing()); t.set_as_resources_inherit() }
            cap(t.encode_ref()) }) {
            Ok(b) => if b != cap({ let t: &TbsCert = &built; t.encode_ref() }) { r.fail("form_independent", "set_*_resources_inherit() gives another TBSCertificate than set_*_resources(inherit())") },
            Err(p) => r.fail("form_independent", p),
        }
    }
    r
}

/// `validate_x(..)` against `validate_x_at(.., Time::now())`, `verify_x` likewise.
fn wallclock_cert(d: &Dom, kind: CKind, c: &Cert) -> Option<String> {
    let rc = |x: Result<ResourceCert, String>| match x { Ok(rc) => { let o = obs_rescert(&rc); o.0.iter().map(|(n, v)| format!("{n}={v}")).collect::<Vec<_>>().join(";") }, Err(e) => format!("Err({e})") };
    let mut o = Obs::new();
    match kind {
        CKind::Ta => {
            o.pair("validate_ta", || rc(c.clone().validate_ta(pki::tal(), true).map_err(|e| e.to_string())), || rc(c.clone().validate_ta_at(pki::tal(), true, Time::now()).map_err(|e| e.to_string())));
            o.pair("verify_ta", || rc(c.clone().verify_ta(pki::tal(), true).map_err(|e| e.to_string())), || rc(c.clone().verify_ta_at(pki::tal(), true, Time::now()).map_err(|e| e.to_string())));
        }
        CKind::Ca => {
            o.pair("validate_ca", || rc(c.clone().validate_ca(&d.ta, true).map_err(|e| e.to_string())), || rc(c.clone().validate_ca_at(&d.ta, true, Time::now()).map_err(|e| e.to_string())));
            o.pair("verify_ca", || rc(c.clone().verify_ca(&d.ta, true).map_err(|e| e.to_string())), || rc(c.clone().verify_ca_at(&d.ta, true, Time::now()).map_err(|e| e.to_string())));
        }
        CKind::Ee => {
            o.pair("validate_ee", || rc(c.clone().validate_ee(&d.ta, true).map_err(|e| e.to_string())), || rc(c.clone().validate_ee_at(&d.ta, true, Time::now()).map_err(|e| e.to_string())));
            o.pair("validate_detached_ee", || rc(c.clone().validate_detached_ee(&d.ta, true).map_err(|e| e.to_string())), || rc(c.clone().validate_detached_ee_at(&d.ta, true, Time::now()).map_err(|e| e.to_string())));
            o.pair("verify_ee", || rc(c.clone().verify_ee(&d.ta, true).map_err(|e| e.to_string())), || rc(c.clone().verify_ee_at(&d.ta, true, Time::now()).map_err(|e| e.to_string())));
        }
        CKind::Router => {
            o.pair("validate_router", || r_res(c.validate_router(&d.ta, true)), || r_res(c.validate_router_at(&d.ta, true, Time::now())));
            o.pair("verify_router", || r_res(c.verify_router(&d.ta, true)), || r_res(c.verify_router_at(&d.ta, true, Time::now())));
        }
    }
    let bad: Vec<String> = o.0.iter().filter(|(_, v)| v.contains("SIBLING-MISMATCH") || v.starts_with("PANIC")).map(|(n, v)| format!("{n}: {v}")).collect();
    if bad.is_empty() { None } else { Some(bad.join(" | ")) }
}

/// The representative resource choices used in the product layer.
fn res_reps(kind: CKind) -> Vec<(ResCh, ResCh, ResCh)> {
    use ResCh::*;
    let b = |v: &[usize]| Blocks(v.to_vec());
    let all = vec![
        (b(&[0]), Missing, Missing), (Missing, b(&[3, 0]), Missing), (Missing, Missing, b(&[2])),
        (Inherit, Inherit, Inherit), (b(&[0, 1, 2, 3]), b(&[1, 2]), b(&[0, 1, 3])), (Inherit, b(&[2, 1, 0]), Missing),
        (b(&[2]), Missing, Inherit), (b(&[3, 2, 1, 0]), b(&[3, 2, 1, 0]), b(&[3, 2, 1, 0])),
    ];
    match kind {
        CKind::Router => vec![(Missing, Missing, b(&[0])), (Missing, Missing, b(&[2, 0])), (Missing, Missing, b(&[0, 1, 2, 3])), (Missing, Missing, b(&[3]))],
        CKind::Ta => all.into_iter().filter(|(a, b, c)| *a != Inherit && *b != Inherit && *c != Inherit).collect(),
        _ => all,
    }
}

fn cert_cases(d: &Dom, kind: CKind, thorough: bool) -> Vec<CertSpec> {
    let base = CertSpec::base(kind);
    let mut v: Vec<CertSpec> = vec![];
    let nser = d.serials.len();
    // (a) serial x validity x names
    for s in 0..nser { for &w in &d.windows { for i in 0..3 { for j in 0..3 {
        v.push(CertSpec { serial: s, win: w, issuer_name: i, subject_name: j, ..base.clone() });
    }}}}
    // (b) URI fields, each absent(where optional)/short/punctuated/upper-case/long
    let (n0, n1, n2, n3, nn) = match kind { CKind::Ta => (1, 1, 4, 4, 4), CKind::Ca => (4, 4, 4, 4, 4), CKind::Ee => (4, 4, 4, 1, 1), CKind::Router => (4, 4, 1, 1, 1) };
    for a in 0..n0 { for b in 0..n1 { for c in 0..n2 { for e in 0..n3 { for n in 0..nn {
        v.push(CertSpec { uris: [a, b, c, e], notify: n, ..base.clone() });
    }}}}}
    // (c) resources: atom subsets x {missing, inherit, blocks} per family
    let inh = kind != CKind::Ta;
    let subs = res_subsets(inh);
    let policies: &[Overclaim] = if thorough { &[Overclaim::Refuse, Overclaim::Trim] } else { &[Overclaim::Refuse] };
    if kind == CKind::Router {
        for a in &subs { for &p in &[Overclaim::Refuse, Overclaim::Trim] { v.push(CertSpec { asn: a.clone(), overclaim: p, ..base.clone() }) } }
    } else if thorough || kind == CKind::Ca {
        for a in &subs { for b in &subs { for c in &subs { for &p in policies {
            v.push(CertSpec { v4: a.clone(), v6: b.clone(), asn: c.clone(), overclaim: p, ..base.clone() });
        }}}}
    } else {
        for a in &subs { for &p in &[Overclaim::Refuse, Overclaim::Trim] {
            v.push(CertSpec { v4: a.clone(), overclaim: p, ..base.clone() });
            v.push(CertSpec { v6: a.clone(), overclaim: p, ..base.clone() });
            v.push(CertSpec { asn: a.clone(), overclaim: p, ..base.clone() });
        }}
    }
    // (d) every insertion order of every atom subset, one family at a time
    for o in res_orders() { for &p in &[Overclaim::Refuse, Overclaim::Trim] {
        if kind != CKind::Router {
            v.push(CertSpec { v4: o.clone(), overclaim: p, ..base.clone() });
            v.push(CertSpec { v6: o.clone(), overclaim: p, ..base.clone() });
        }
        v.push(CertSpec { asn: o.clone(), overclaim: p, ..base.clone() });
    }}
    // (e) subject keys, TA authority key identifier
    let nkeys = if kind == CKind::Router { 2 } else { 8 };
    for k in 0..nkeys { if kind == CKind::Ta || k != 0 || kind == CKind::Router {
        v.push(CertSpec { subject_key: k, ..base.clone() });
        if kind == CKind::Ta { v.push(CertSpec { subject_key: k, ta_aki: true, ..base.clone() }) }
    }}
    // (f) product of representatives (contains every pairwise interaction)
    let sers: Vec<usize> = if thorough { (0..nser).collect() } else { vec![0, 3, 5] };
    let wins: Vec<(usize, usize)> = if thorough { d.windows.clone() } else { vec![(0, 0), (0, 1), (1, 2), (2, 3), (3, 4), (0, 4)] };
    let names = [(0usize, 0usize), (1, 2), (2, 1)];
    let uri_sets: Vec<([usize; 4], usize)> = vec![([0, 0, 0, 0], 0), ([1, 1, 1, 1], 2), ([2, 2, 2, 2], 1), ([3, 3, 3, 3], 3)];
    for &s in &sers { for &w in &wins { for &(i, j) in &names { for (u, n) in &uri_sets { for (a, b, c) in res_reps(kind) { for &p in &[Overclaim::Refuse, Overclaim::Trim] {
        v.push(CertSpec { serial: s, win: w, issuer_name: i, subject_name: j, uris: *u, notify: if matches!(kind, CKind::Ta | CKind::Ca) { *n } else { 0 },
            v4: a.clone(), v6: b.clone(), asn: c.clone(), overclaim: p, ..base.clone() });
    }}}}}}
    // (g) positions x character classes in every URI field and in both names
    if kind != CKind::Router || thorough {
        for i in 0..d.xtext.len() { v.push(CertSpec { text_x: Some(i), ..base.clone() }) }
        for i in 0..d.xnames.len() { v.push(CertSpec { name_x: Some(i), ..base.clone() }) }
    }
    v.retain(|s| s.conforming());
    v
}

fn space_certs(ctx: &Ctx, d: &Dom) {
    for (kind, obj) in [(CKind::Ta, "cert.ta"), (CKind::Ca, "cert.ca"), (CKind::Ee, "cert.ee"), (CKind::Router, "cert.router")] {
        let sp = ctx.space(&format!("build.{obj}"),
            "TbsCert::new + setters + into_cert -> Cert::decode -> validate_*_at(both window ends): serial x validity x names; every URI field x {short, URI-legal punctuation, upper-case scheme/host, >127 octets} (rpkiNotify also absent); atom subsets x {missing, inherit, blocks} per family; every insertion order of every atom subset; subject keys; full product of representatives of all groups; positions x character classes: in every URI field (authority / module / segment / last segment x first / middle / last / only character x {lower, upper, digit, each of the 17 URI-legal punctuation characters}) and in both names (PrintableString classes x positions); non-trivial = distinct DER encodings produced; outcome = UTCTime/GeneralizedTime counts found in the DER + resource choice per family");
        let cases = cert_cases(d, kind, ctx.tier.is_thorough());
        run_cases(ctx, &sp, obj, &cases, |s| s.wit(d), |s| cert_case(d, s));
        sp.done(true, &format!("{} profile-conforming input tuples (all field groups complete)", cases.len()));
    }
}

//============ SignedObjectBuilder ============================================

/// The EE-certificate and CMS fields every signed object takes from the
/// `SignedObjectBuilder`.
#[derive(Clone, Debug)]
struct SoSpec {
    serial: usize,
    win: (usize, usize),
    issuer_name: usize,
    subject_name: usize,
    /// crl, ca_issuer, signed_object
    uris: [usize; 3],
    /// index into the instants
    signing: usize,
    one_off: usize,
}

impl SoSpec {
    fn base() -> SoSpec { SoSpec { serial: 3, win: (1, 3), issuer_name: 1, subject_name: 2, uris: [1, 1, 1], signing: 2, one_off: 7 } }
    /// A few settings used as the second dimension in the content spaces.
    fn reps() -> Vec<SoSpec> {
        vec![SoSpec::base(),
             SoSpec { serial: 0, win: (0, 4), issuer_name: 0, subject_name: 0, uris: [0, 0, 0], signing: 3, one_off: 5 },
             SoSpec { serial: 5, win: (1, 2), issuer_name: 2, subject_name: 1, uris: [3, 2, 3], signing: 0, one_off: 7 }]
    }
    fn wit(&self, d: &Dom) -> String {
        format!("ee[serial={} validity={} issuer={} subject={} uris={}/{}/{} signing={} oneoff={}]", d.serials[self.serial].0,
            d.wname(self.win), NAME_NAMES[self.issuer_name], NAME_NAMES[self.subject_name], URI_NAMES[self.uris[0]],
            URI_NAMES[self.uris[1]], URI_NAMES[self.uris[2]], INSTANT_NAMES[self.signing], self.one_off)
    }
    fn builder(&self, d: &Dom) -> SignedObjectBuilder {
        let mut b = SignedObjectBuilder::new(d.serials[self.serial].1, d.validity(self.win), d.crls[self.uris[0]].clone(),
            d.cers[self.uris[1]].clone(), d.objs[self.uris[2]].clone());
        b.set_issuer(d.name_opt(self.issuer_name));
        b.set_subject(d.name_opt(self.subject_name));
        b.set_signing_time(d.instants[self.signing]);
        b
    }
    /// Does the validity window contain the wall clock? (`Roa::process` and
    /// `Aspa::process` have no `_at` variant.)
    fn contains_now(&self) -> bool { self.win.0 <= 1 && self.win.1 >= 2 }
    fn signer<'a>(&self, d: &'a Dom) -> CaseSigner<'a> { CaseSigner::new(&d.signer, self.one_off) }
    fn all(d: &Dom, thorough: bool) -> Vec<SoSpec> {
        let base = SoSpec::base();
        let mut v = vec![];
        for s in 0..d.serials.len() { for &w in &d.windows { for i in 0..3 { for j in 0..3 {
            v.push(SoSpec { serial: s, win: w, issuer_name: i, subject_name: j, ..base.clone() });
        }}}}
        for a in 0..4 { for b in 0..4 { for c in 0..4 { v.push(SoSpec { uris: [a, b, c], ..base.clone() }) }}}
        for t in 0..5 { for k in [7usize, 5, 3] { v.push(SoSpec { signing: t, one_off: k, ..base.clone() }) }}
        let sers: Vec<usize> = if thorough { (0..6).collect() } else { vec![0, 3, 5] };
        for &s in &sers { for &w in &d.windows { for (i, j) in [(0, 0), (1, 2), (2, 1)] { for u in 0..4 { for t in 0..5 {
            v.push(SoSpec { serial: s, win: w, issuer_name: i, subject_name: j, uris: [u, u, u], signing: t, one_off: 7 });
        }}}}}
        v
    }
}

/// Validates a decoded signed object (any content type) at both window ends
/// through `SignedObject::validate_at`; returns the object and the validated
/// EE certificates (one per instant that was accepted).
fn validate_signed(d: &Dom, r: &mut CaseResult, bytes: &[u8], so: &SoSpec) -> Option<(SignedObject, Vec<ResourceCert>)> {
    let signed = match guard(|| SignedObject::decode(bytes, true)) {
        Ok(Ok(s)) => s,
        Ok(Err(e)) => { r.fail("decode", format!("as SignedObject: {e}")); return None }
        Err(p) => { r.fail("decode", p); return None }
    };
    let mut certs = vec![];
    for now in [d.instants[so.win.0], d.instants[so.win.1]] {
        match guard(|| signed.clone().validate_at(&d.ta, true, now)) {
            Ok(Ok(c)) => certs.push(c),
            Ok(Err(e)) => { r.fail("validate", format!("rejected at {}: {e}", r_time(now))); break }
            Err(p) => { r.fail("validate", p); break }
        }
    }
    Some((signed, certs))
}

#[derive(Clone, Debug)]
struct SigObjCase { so: SoSpec, content: usize, v4: ResCh, v6: ResCh, asn: ResCh }

fn sigobj_contents() -> Vec<Vec<u8>> {
    // DER values of 2, 5, 127, 128, 129 and 300 octets (eContent must be DER
    // for `decode_content`); lengths straddle the one-octet length form.
    let mut v = vec![der::null(), der::seq(&[der::int_u(7)])];
    for n in [123usize, 125, 126, 296] { v.push(der::octets(&vec![0xa5; n])) }
    v
}

fn space_sigobj(ctx: &Ctx, d: &Dom) {
    let sp = ctx.space("build.sigobj",
        "SignedObjectBuilder::finalize with a foreign content type -> SignedObject::decode(strict) -> validate_at(both window ends): EE serial x validity x issuer/subject names; crl/caIssuers/signedObject URIs x 4 shapes; signing time x 5 instants x one-off key; eContent of 2..300 octets; resources over representative choices; product of representatives; non-trivial = distinct DER; outcome = time tags in the DER");
    let contents = sigobj_contents();
    let base = SoSpec::base();
    let mut cases: Vec<SigObjCase> = vec![];
    for so in SoSpec::all(d, ctx.tier.is_thorough()) {
        cases.push(SigObjCase { so, content: 1, v4: ResCh::Blocks(vec![0, 2]), v6: ResCh::Inherit, asn: ResCh::Blocks(vec![1]) });
    }
    for c in 0..contents.len() { for (a, b, e) in res_reps(CKind::Ee) { for so in SoSpec::reps() {
        cases.push(SigObjCase { so, content: c, v4: a.clone(), v6: b.clone(), asn: e.clone() });
    }}}
    let subs = res_subsets(true);
    for a in &subs { for b in &subs {
        cases.push(SigObjCase { so: base.clone(), content: 0, v4: a.clone(), v6: b.clone(), asn: ResCh::Blocks(vec![3]) });
        cases.push(SigObjCase { so: base.clone(), content: 0, v4: ResCh::Missing, v6: a.clone(), asn: b.clone() });
    }}
    cases.retain(|c| c.v4 != ResCh::Missing || c.v6 != ResCh::Missing || c.asn != ResCh::Missing);
    let ct = || Oid(Bytes::copy_from_slice(&der::oid(&[1, 2, 840, 113549, 1, 9, 16, 1, 35])[2..])); // id-ct-rpkiGhostbusters
    run_cases(ctx, &sp, "sigobj", &cases,
        |c| format!("sigobj content#{}({} octets) v4={} v6={} as={} {}", c.content, contents[c.content].len(), c.v4.wit(), c.v6.wit(), c.asn.wit(), c.so.wit(d)),
        |c| {
            let mut r = CaseResult::default();
            let signer = c.so.signer(d);
            let built = match guard(|| {
                let mut b = c.so.builder(d);
                b.set_v4_resources(pki::ip_res(32, &c.v4.claim(&v4_atoms())));
                b.set_v6_resources(pki::ip_res(128, &c.v6.claim(&v6_atoms())));
                b.set_as_resources(pki::as_res(&c.asn.claim(&as_atoms())));
                // closure-driven siblings of the three setters
                let mut b2 = c.so.builder(d);
                b2.set_v4_resources(b.v4_resources().clone()); b2.set_v6_resources(b.v6_resources().clone()); b2.set_as_resources(b.as_resources().clone());
                if let ResCh::Blocks(l) = &c.v4 { b2.build_v4_resource_blocks(|x| for &i in l { x.push(pki::ip_blocks(32, &[v4_atoms()[i]]).iter().next().unwrap()) }) }
                if let ResCh::Blocks(l) = &c.v6 { b2.build_v6_resource_blocks(|x| for &i in l { x.push(pki::ip_blocks(128, &[v6_atoms()[i]]).iter().next().unwrap()) }) }
                if let ResCh::Blocks(l) = &c.asn { b2.build_as_resource_blocks(|x| for &i in l { x.push(pki::as_blocks(&[as_atoms()[i]]).iter().next().unwrap()) }) }
                if b2.v4_resources() != b.v4_resources() || b2.v6_resources() != b.v6_resources() || b2.as_resources() != b.as_resources() || r_digest_alg(b.digest_algorithm()).contains("SIBLING") {
                    panic!("build_*_resource_blocks gives other resources than set_*_resources: {} {} {} / {} {} {}", r_ipres(b2.v4_resources(), true), r_ipres(b2.v6_resources(), false),
                        r_asres(b2.as_resources()), r_ipres(b.v4_resources(), true), r_ipres(b.v6_resources(), false), r_asres(b.as_resources()));
                }
                b.finalize(ct(), Bytes::from(contents[c.content].clone()), &signer, &Kid(0))
            }) {
                Ok(Ok(x)) => x,
                Ok(Err(e)) => { r.fail("build", e.to_string()); r.label = "build-failed".into(); return r }
                Err(p) => { r.fail("build", p); r.label = "build-failed".into(); return r }
            };
            let Some((bytes, _)) = twin(&mut r, &built, |s| cap(s.encode_ref()),
                |b| SignedObject::decode(b, true).map_err(|e| e.to_string()), obs_sigobj) else { r.label = "no-twin".into(); return r };
            r.label = time_tags(&bytes);
            validate_signed(d, &mut r, &bytes, &c.so);
            r
        });
    sp.done(true, &format!("{} input tuples", cases.len()));
}

//============ Manifests ======================================================

/// File-list entries chosen for their relations: 0/1 differ in case only,
/// 0/2 share the stem, 0/3 are neighbours in any ordering, 4 is the name 0
/// again with another hash (a repeated name), 5 needs a long-form length.
/// Lists are sequences with repetition, so exact duplicates occur as well.
fn mft_files() -> Vec<(Vec<u8>, Vec<u8>)> {
    let names: Vec<(String, &str)> = vec![("a.roa".into(), "a.roa"), ("A.roa".into(), "A.roa"), ("a.cer".into(), "a.cer"), ("b.roa".into(), "b.roa"),
        ("a.roa".into(), "other content"), (format!("{}.crl", "n".repeat(130)), "long")];
    names.iter().map(|(n, content)| (n.as_bytes().to_vec(), sha256(content.as_bytes()))).collect()
}

#[derive(Clone, Debug)]
struct MftCase { number: usize, this: usize, next: usize, files: Vec<usize>, so: SoSpec }

fn space_manifest(ctx: &Ctx, d: &Dom) {
    let sp = ctx.space("build.manifest",
        "ManifestContent::new + into_manifest -> Manifest::decode(strict) -> SignedObject::validate_at + Manifest::validate_at at both window ends: manifest number x (thisUpdate <= nextUpdate over the 5 instants) x every sequence (with repetition) of 0-3 file entries out of 6 chosen for their relations (case-only difference, same stem, neighbours, the same name with another hash, exact duplicates, one name of 134 octets) x EE settings; plus positions x character classes of RFC 9286 file names (every class of a-z A-Z 0-9 - _ at the first / middle / last stem position and as the only stem character, every pair of classes as a two-character stem, digits-only and punctuation-only stems, every registered extension, every upper/lower-case pattern of an extension), each alone, after another entry, and twice around another entry; quick thins the number x window grid for lists of >= 2 entries to 3 x 3, thorough for lists of 3 to (all numbers x 3 windows) + (one number x all windows); non-trivial = distinct DER; outcome = number of files measured on the twin");
    let mut files = mft_files();
    let thorough = ctx.tier.is_thorough();
    let nfiles = files.len();
    for n in mft_name_classes() { let h = sha256(n.as_bytes()); files.push((n.into_bytes(), h)) }
    let lists = sequences(nfiles, 0, 3);
    let mut cases = vec![];
    let few_numbers = [0usize, 3, 5];
    let few_windows = [(1usize, 3usize), (0, 4), (2, 2)];
    for n in 0..d.serials.len() { for &(a, b) in &d.windows { for l in &lists {
        // quick: the full number x window grid for lists of <= 1 entry, three numbers x three windows for the longer ones
        if !thorough && l.len() > 1 && !(few_numbers.contains(&n) && few_windows.contains(&(a, b))) { continue }
        if thorough && l.len() == 3 && !few_windows.contains(&(a, b)) && !(n == 3) { continue }
        cases.push(MftCase { number: n, this: a, next: b, files: l.clone(), so: SoSpec::base() });
    }}}
    for so in SoSpec::reps().into_iter().skip(1) { for n in [0usize, 5] { for &(a, b) in &few_windows { for l in lists.iter().filter(|l| l.len() <= 2) {
        cases.push(MftCase { number: n, this: a, next: b, files: l.clone(), so: so.clone() });
    }}}}
    // positions x character classes of file names: each alone, and next to / after another entry
    for i in nfiles..files.len() { for l in [vec![i], vec![0, i], vec![i, 3, i]] {
        cases.push(MftCase { number: 3, this: 1, next: 3, files: l, so: SoSpec::base() });
    }}
    let base_uri = d.dirs[1].clone();
    run_cases(ctx, &sp, "manifest", &cases,
        |c| format!("manifest number={} this={} next={} files={:?} {}", d.serials[c.number].0, INSTANT_NAMES[c.this], INSTANT_NAMES[c.next],
            c.files.iter().map(|&i| String::from_utf8_lossy(&files[i].0[..files[i].0.len().min(12)]).to_string()).collect::<Vec<_>>(), c.so.wit(d)),
        |c| {
            let mut r = CaseResult::default();
            let signer = c.so.signer(d);
            let built = match guard(|| {
                let content = ManifestContent::new(d.serials[c.number].1, d.instants[c.this], d.instants[c.next], DigestAlgorithm::sha256(),
                    c.files.iter().map(|&i| FileAndHash::new(files[i].0.clone(), files[i].1.clone())));
                content.into_manifest(c.so.builder(d), &signer, &Kid(0))
            }) {
                Ok(Ok(x)) => x,
                Ok(Err(e)) => { r.fail("build", e.to_string()); r.label = "build-failed".into(); return r }
                Err(p) => { r.fail("build", p); r.label = "build-failed".into(); return r }
            };
            let Some((bytes, decoded)) = twin(&mut r, &built, |m| m.to_captured().as_slice().to_vec(),
                |b| Manifest::decode(b, true).map_err(|e| e.to_string()), |m| obs_manifest(m, &base_uri)) else { r.label = "no-twin".into(); return r };
            r.label = format!("{} files", decoded.content().iter().count());
            if let Some((signed, _)) = validate_signed(d, &mut r, &bytes, &c.so) {
                // (iv) the decoded content re-encodes to the eContent octets
                match guard(|| cap(decoded.content().encode_ref())) {
                    Ok(e) => if e != signed.content().to_bytes().as_ref() { r.fail("content_reencode", format!("encode_ref()={} eContent={}", hex(&e), hex(&signed.content().to_bytes()))) },
                    Err(p) => r.fail("content_reencode", p),
                }
            }
            for x in [&built, &decoded] {
                let f = |v: Result<(ResourceCert, ManifestContent), rpki::repository::error::ValidationError>| match v {
                    Ok((rc, m)) => format!("Ok {} {}", hx(rc.as_cert().to_captured().as_slice()), hx(&cap(m.encode_ref()))), Err(e) => format!("Err({e})") };
                let (a, b) = (guard(|| f(x.clone().validate(&d.ta, true))), guard(|| f(x.clone().validate_at(&d.ta, true, Time::now()))));
                if a != b || a.is_err() { r.fail("wallclock", format!("validate {a:?} but validate_at(now) {b:?}")) }
            }
            for now in [d.instants[c.so.win.0], d.instants[c.so.win.1]] {
                match guard(|| (decoded.clone().validate_at(&d.ta, true, now).map(|x| x.1), built.clone().validate_at(&d.ta, true, now).map(|x| x.1))) {
                    Ok((Ok(a), Ok(b))) => if let Some(x) = diff(&obs_mft_content(&b, &base_uri), &obs_mft_content(&a, &base_uri)) { r.fail("accessors", format!("validated content: {x}")) },
                    Ok((Err(e), _)) => { r.fail("validate", format!("Manifest::validate_at: {e}")); break }
                    Ok((_, Err(e))) => { r.fail("accessors", format!("built manifest rejected where its twin validates: {e}")); break }
                    Err(p) => { r.fail("validate", p); break }
                }
            }
            r
        });
    sp.done(true, &format!("{} input tuples; {} file lists (sequences of 0-3 out of {} with repetition)", cases.len(), lists.len(), nfiles));
}

//============ ROAs ===========================================================

/// The ROA entry alphabet is built around RELATIONS between entries rather
/// than single entries. Entries 0..ROA_CORE carry no maxLength:
///   0  the covering prefix                       10.0.0.0/8        2001:db8::/32
///   1  same network address, more specific       10.0.0.0/16       2001:db8::/48
///   2  same network address, more specific still 10.0.0.0/24       2001:db8::/64
///   3  adjacent to 1 (merges into one block)     10.1.0.0/16       2001:db8:1::/48
///   4  inside 0, apart from 1..3 (bridging)      10.3.0.0/24       2001:db8:4000::/34
///   5  the whole space                           0.0.0.0/0         ::/0
/// and the rest: the identical prefix with other maxLengths (= len, > len),
/// and the top of the space:
///   6  = 0 with maxLength = len     7  = 0 with maxLength = family width
///   8  = 1 with maxLength = len+1   9  the last address (/32, /128)
/// Lists are sequences WITH repetition, so exact duplicates, the same prefix
/// with different maxLengths, and same-address prefixes in both orders,
/// adjacent or separated by a third entry, all occur.
const ROA_CORE: usize = 6;
fn roa_alphabet(v4: bool) -> Vec<RoaIpAddress> {
    let a = |x: [u16; 8]| IpAddr::V6(Ipv6Addr::new(x[0], x[1], x[2], x[3], x[4], x[5], x[6], x[7]));
    let q = |x: [u8; 4]| IpAddr::V4(Ipv4Addr::new(x[0], x[1], x[2], x[3]));
    let e = RoaIpAddress::new_addr;
    if v4 {
        vec![e(q([10, 0, 0, 0]), 8, None), e(q([10, 0, 0, 0]), 16, None), e(q([10, 0, 0, 0]), 24, None), e(q([10, 1, 0, 0]), 16, None),
             e(q([10, 3, 0, 0]), 24, None), e(q([0, 0, 0, 0]), 0, None),
             e(q([10, 0, 0, 0]), 8, Some(8)), e(q([10, 0, 0, 0]), 8, Some(32)), e(q([10, 0, 0, 0]), 16, Some(17)), e(q([255, 255, 255, 255]), 32, None)]
    } else {
        vec![e(a([0x2001, 0xdb8, 0, 0, 0, 0, 0, 0]), 32, None), e(a([0x2001, 0xdb8, 0, 0, 0, 0, 0, 0]), 48, None), e(a([0x2001, 0xdb8, 0, 0, 0, 0, 0, 0]), 64, None),
             e(a([0x2001, 0xdb8, 1, 0, 0, 0, 0, 0]), 48, None), e(a([0x2001, 0xdb8, 0x4000, 0, 0, 0, 0, 0]), 34, None), e(a([0, 0, 0, 0, 0, 0, 0, 0]), 0, None),
             e(a([0x2001, 0xdb8, 0, 0, 0, 0, 0, 0]), 32, Some(32)), e(a([0x2001, 0xdb8, 0, 0, 0, 0, 0, 0]), 32, Some(128)), e(a([0x2001, 0xdb8, 0, 0, 0, 0, 0, 0]), 48, Some(49)),
             e(a([0xffff; 8]), 128, None)]
    }
}

/// every sequence (repetition allowed) of lo..=hi items out of n, shortest first
fn sequences(n: usize, lo: usize, hi: usize) -> Vec<Vec<usize>> {
    let mut out: Vec<Vec<usize>> = vec![];
    let mut layer: Vec<Vec<usize>> = vec![vec![]];
    for len in 0..=hi {
        if len >= lo { out.extend(layer.iter().cloned()) }
        if len == hi { break }
        let mut next = vec![];
        for s in &layer { for i in 0..n { let mut t = s.clone(); t.push(i); next.push(t) } }
        layer = next;
    }
    out
}

#[derive(Clone, Debug)]
struct RoaCase { asn: u32, v4: Vec<usize>, v6: Vec<usize>, so: SoSpec, push_mode: u8 }

fn r_roa_list(al: &[RoaIpAddress], l: &[usize], v4: bool) -> String {
    l.iter().map(|&i| { let a = al[i]; format!("{}/{}{}", if v4 { a.prefix().to_v4().to_string() } else { a.prefix().to_v6().to_string() },
        a.prefix().addr_len(), a.max_length().map(|m| format!("-{m}")).unwrap_or_default()) }).collect::<Vec<_>>().join(",")
}

fn space_roa(ctx: &Ctx, d: &Dom) {
    let sp = ctx.space("build.roa",
        "RoaBuilder (push / push_addr / extend_from_slice) + finalize -> Roa::decode(strict) -> SignedObject::validate_at at both window ends + prefix coverage by the validated EE certificate + Roa::process (windows containing the wall clock; all EE settings used here do): entry alphabet of 10 per family built around relations (covering prefix; same network address at 3 lengths; adjacent prefixes that merge; covered-and-apart; 0/0; last address; identical prefix with maxLength none / = len / > len); lists are sequences WITH repetition (duplicates, both orders, adjacent or separated): quick = all of length <= 2 plus all of length 3 over the 6 relation entries, thorough = all of length <= 3; one family exhaustively against 3 fixed lists of the other, plus all pairs of lists <= 2 x <= 1 both ways x asID x EE settings; never both families empty (documented panic); non-trivial = distinct DER; outcome = families present");
    let thorough = ctx.tier.is_thorough();
    let a4 = roa_alphabet(true); let a6 = roa_alphabet(false);
    // quick: every sequence of <= 2 entries over the whole alphabet and every
    // sequence of 3 over the relation core; thorough: every sequence of <= 3
    let mut lists = sequences(a4.len(), 0, if thorough { 3 } else { 2 });
    if !thorough { lists.extend(sequences(ROA_CORE, 3, 3)) }
    let short2: Vec<&Vec<usize>> = lists.iter().filter(|l| l.len() <= 2).collect();
    let short1: Vec<&Vec<usize>> = lists.iter().filter(|l| l.len() <= 1).collect();
    let asns = [0u32, 1, 65535, 65536, 4294967295];
    let base = SoSpec::base();
    let mut cases = vec![];
    for l in &lists { for other in [vec![], vec![1usize], vec![9, 0]] { for mode in 0..3u8 {
        if !thorough && mode != 0 && l.len() > 1 { continue }
        cases.push(RoaCase { asn: 65536, v4: l.clone(), v6: other.clone(), so: base.clone(), push_mode: mode });
        cases.push(RoaCase { asn: 65536, v4: other.clone(), v6: l.clone(), so: base.clone(), push_mode: mode });
    }}}
    for a in &short2 { for b in &short1 { for &asn in &asns { for (k, so) in SoSpec::reps().into_iter().enumerate() {
        if !thorough && !((asn == 0 && k == 1) || (asn == 4294967295 && k == 2) || (asn == 65536 && k == 0 && a.len() <= 1)) { continue }
        cases.push(RoaCase { asn, v4: (*a).clone(), v6: (*b).clone(), so: so.clone(), push_mode: k as u8 });
        cases.push(RoaCase { asn, v4: (*b).clone(), v6: (*a).clone(), so, push_mode: k as u8 });
    }}}}
    cases.retain(|c| !(c.v4.is_empty() && c.v6.is_empty()));
    run_cases(ctx, &sp, "roa", &cases,
        |c| format!("roa as={} v4=[{}] v6=[{}] via={} {}", c.asn, r_roa_list(&a4, &c.v4, true), r_roa_list(&a6, &c.v6, false),
            ["push", "push_addr", "extend_from_slice"][c.push_mode as usize], c.so.wit(d)),
        |c| {
            let mut r = CaseResult::default();
            let signer = c.so.signer(d);
            let l4: Vec<RoaIpAddress> = c.v4.iter().map(|&i| a4[i]).collect();
            let l6: Vec<RoaIpAddress> = c.v6.iter().map(|&i| a6[i]).collect();
            let built = match guard(|| {
                let mut b = RoaBuilder::new(Asn::from_u32(c.asn));
                match c.push_mode {
                    0 => { for a in &l4 { b.push_v4(*a) } for a in &l6 { b.push_v6(*a) } }
                    1 => { for a in &l4 { b.push_addr(a.prefix().to_v4().into(), a.prefix().addr_len(), a.max_length()) }
                           for a in &l6 { b.push_addr(a.prefix().to_v6().into(), a.prefix().addr_len(), a.max_length()) } }
                    _ => { b.extend_v4_from_slice(&l4); b.extend_v6_from_slice(&l6) }
                }
                b.finalize(c.so.builder(d), &signer, &Kid(0))
            }) {
                Ok(Ok(x)) => x,
                Ok(Err(e)) => { r.fail("build", e.to_string()); r.label = "build-failed".into(); return r }
                Err(p) => { r.fail("build", p); r.label = "build-failed".into(); return r }
            };
            r.label = format!("v4:{} v6:{}", !c.v4.is_empty(), !c.v6.is_empty());
            let Some((bytes, decoded)) = twin(&mut r, &built, |m| m.to_captured().as_slice().to_vec(),
                |b| Roa::decode(b, true).map_err(|e| e.to_string()), obs_roa) else { return r };
            if let Some((signed, ee_certs)) = validate_signed(d, &mut r, &bytes, &c.so) {
                match guard(|| cap(decoded.content().encode_ref())) {
                    Ok(e) => if e != signed.content().to_bytes().as_ref() { r.fail("content_reencode", format!("encode_ref()={} eContent={}", hex(&e), hex(&signed.content().to_bytes()))) },
                    Err(p) => r.fail("content_reencode", p),
                }
                // RFC 9582 section 5 at every instant (Roa::process below can
                // only be asked at the wall clock): every prefix of the ROA
                // lies within the validated EE certificate's resources.
                for rc in &ee_certs {
                    let res = guard(|| {
                        for x in decoded.content().v4_addrs().iter() { if !rc.v4_resources().contains_roa(&x) { return Err(format!("IPv4 {:?}", x.prefix())) } }
                        for x in decoded.content().v6_addrs().iter() { if !rc.v6_resources().contains_roa(&x) { return Err(format!("IPv6 {:?}", x.prefix())) } }
                        Ok(())
                    });
                    match res { Ok(Ok(())) => {}, Ok(Err(e)) => { r.fail("validate", format!("ROA prefix {e} is not covered by the EE certificate the builder made ({} / {})",
                        r_ipblocks(rc.v4_resources(), true), r_ipblocks(rc.v6_resources(), false))); break }, Err(p) => { r.fail("validate", p); break } }
                }
            }
            if c.so.contains_now() {
                match guard(|| (decoded.clone().process(&d.ta, true, |_| Ok(())).map(|x| x.1), built.clone().process(&d.ta, true, |_| Ok(())).map(|x| x.1))) {
                    Ok((Ok(a), Ok(b))) => if let Some(x) = diff(&obs_roa_content(&b), &obs_roa_content(&a)) { r.fail("accessors", format!("processed content: {x}")) },
                    Ok((Err(e), _)) => r.fail("validate", format!("Roa::process: {e}")),
                    Ok((_, Err(e))) => r.fail("accessors", format!("built ROA rejected by process where its twin validates: {e}")),
                    Err(p) => r.fail("accessors", format!("Roa::process: {p}")),
                }
            }
            r
        });
    sp.set("entries_per_family", serde_json::json!(a4.len()));
    sp.done(true, &format!("{} input tuples; {} lists per family over {} entries (sequences with repetition)", cases.len(), lists.len(), a4.len()));
}

//============ ASPAs ==========================================================

#[derive(Clone, Debug)]
struct AspaCase { customer: u32, providers: Vec<u32>, via_new: bool, so: SoSpec }

fn space_aspa(ctx: &Ctx, d: &Dom) {
    let sp = ctx.space("build.aspa",
        "AspaBuilder::new(vec) and AspaBuilder::empty + add_provider in the given order + finalize -> Aspa::decode(strict) -> SignedObject::validate_at at both window ends + customer covered by the validated EE certificate + Aspa::process (windows containing the wall clock): customer in {0, 1, 65536, MAX} x every sequence (with repetition) of 1-3 providers out of the other boundary ASNs and their neighbours {0, 1, 2, 65535, 65536, MAX-1, MAX} x EE settings; a repeated provider must be refused by the builder (outcome class), everything else must round-trip; non-trivial = distinct DER; outcome = provider count measured on the twin / refusal");
    // boundary ASNs and their neighbours: adjacent pairs (0,1) (1,2)
    // (65535,65536) (MAX-1,MAX); the customer sits next to its providers
    let asns = [0u32, 1, 2, 65535, 65536, 4294967294, 4294967295];
    let thorough = ctx.tier.is_thorough();
    let mut cases = vec![];
    for &cust in &[0u32, 1, 65536, 4294967295] {
        let others: Vec<u32> = asns.iter().copied().filter(|a| *a != cust).collect();
        // sequences with repetition: a provider named twice (next to each
        // other or apart) must be refused by the builder, never built
        for sel in sequences(others.len(), 1, 3) { for via_new in [true, false] { for (k, so) in SoSpec::reps().into_iter().enumerate() {
            let dup = (1..sel.len()).any(|i| sel[..i].contains(&sel[i]));
            if k != 0 && (dup || (!thorough && sel.len() == 3)) { continue }
            cases.push(AspaCase { customer: cust, providers: sel.iter().map(|&i| others[i]).collect(), via_new, so });
        }}}
    }
    run_cases(ctx, &sp, "aspa", &cases,
        |c| format!("aspa customer={} providers={:?} via={} {}", c.customer, c.providers, if c.via_new { "new" } else { "add_provider" }, c.so.wit(d)),
        |c| {
            let mut r = CaseResult::default();
            let signer = c.so.signer(d);
            let dup = (1..c.providers.len()).any(|i| c.providers[..i].contains(&c.providers[i]));
            let built = match guard(|| {
                let provs: Vec<Asn> = c.providers.iter().map(|&a| Asn::from_u32(a)).collect();
                let b = if c.via_new { AspaBuilder::new(Asn::from_u32(c.customer), provs).map_err(|e| e.to_string())? }
                    else { let mut b = AspaBuilder::empty(Asn::from_u32(c.customer)); for p in provs { b.add_provider(p).map_err(|e| e.to_string())? } b };
                b.finalize(c.so.builder(d), &signer, &Kid(0)).map_err(|e| e.to_string())
            }) {
                Ok(Ok(x)) => x,
                // a repeated provider is outside the profile; the builder says so
                Ok(Err(e)) if dup && e.contains("duplicate") => { r.label = "duplicate provider refused".into(); return r }
                Ok(Err(e)) => { r.fail("build", e); r.label = "build-failed".into(); return r }
                Err(p) => { r.fail("build", p); r.label = "build-failed".into(); return r }
            };
            r.label = format!("{} providers", c.providers.len());
            let Some((bytes, decoded)) = twin(&mut r, &built, |m| m.to_captured().as_slice().to_vec(),
                |b| Aspa::decode(b, true).map_err(|e| e.to_string()), obs_aspa) else { return r };
            r.label = format!("{} providers", decoded.content().provider_as_set().len());
            if let Some((signed, ee_certs)) = validate_signed(d, &mut r, &bytes, &c.so) {
                match guard(|| cap(decoded.content().encode_ref())) {
                    Ok(e) => if e != signed.content().to_bytes().as_ref() { r.fail("content_reencode", format!("encode_ref()={} eContent={}", hex(&e), hex(&signed.content().to_bytes()))) },
                    Err(p) => r.fail("content_reencode", p),
                }
                // the ASPA profile's certificate rules at every instant
                for rc in &ee_certs {
                    match guard(|| rc.as_resources().contains_asn(decoded.content().customer_as()) && !rc.as_cert().as_resources().is_inherited() && !rc.as_cert().has_ip_resources()) {
                        Ok(true) => {}
                        Ok(false) => { r.fail("validate", format!("customer AS not covered by / unsuitable EE certificate the builder made ({})", r_asres(rc.as_cert().as_resources()))); break }
                        Err(p) => { r.fail("validate", p); break }
                    }
                }
            }
            if c.so.contains_now() {
                match guard(|| (decoded.clone().process(&d.ta, true, |_| Ok(())).map(|x| x.1), built.clone().process(&d.ta, true, |_| Ok(())).map(|x| x.1))) {
                    Ok((Ok(a), Ok(b))) => if let Some(x) = diff(&obs_aspa_content(&b), &obs_aspa_content(&a)) { r.fail("accessors", format!("processed content: {x}")) },
                    Ok((Err(e), _)) => r.fail("validate", format!("Aspa::process: {e}")),
                    Ok((_, Err(e))) => r.fail("accessors", format!("built ASPA rejected by process where its twin validates: {e}")),
                    Err(p) => r.fail("accessors", format!("Aspa::process: {p}")),
                }
            }
            r
        });
    sp.done(true, &format!("{} input tuples; provider sequences of 1-3 out of 6 with repetition, both construction paths", cases.len()));
}

//============ CRLs ===========================================================

#[derive(Clone, Debug)]
struct CrlCase { number: usize, this: usize, next: usize, entries: Vec<usize>, issuer_name: usize, key: usize }

fn space_crl(ctx: &Ctx, d: &Dom) {
    let sp = ctx.space("build.crl",
        "TbsCertList::new(Vec<CrlEntry>) + into_crl -> Crl::decode -> verify_signature(issuing key): CRL number x (thisUpdate <= nextUpdate over the 5 instants) x every sequence (with repetition) of 0-3 entries out of 5 (7 thorough) chosen for their relations (the same serial with two dates, neighbours 127/128 and 0/1, exact duplicates, both ends of the serial space, every time-encoding branch) x issuer name; contains() probed with all 6 serials, cached and uncached; non-trivial = distinct DER; outcome = number of entries measured on the twin");
    // Entries chosen for their relations: (serial index, instant index; 5 = T0)
    //   0: 0 @ 1949        1: 128 @ 2050     2: 128 @ 1949 (the serial of 1 again, another date)
    //   3: 127 @ 2049      (neighbour of 128 across the sign-octet boundary)
    //   4: 2^159-1 @ T0    5: 1 @ 1950 (neighbour of 0)    6: 2^63 @ 9999
    // Lists are sequences with repetition: exact duplicates, the same serial
    // twice with different dates, neighbours in both orders.
    let ent: Vec<(usize, usize)> = vec![(0, 0), (3, 3), (3, 0), (2, 2), (5, 5), (1, 1), (4, 4)];
    let thorough = ctx.tier.is_thorough();
    let nent = if thorough { 7 } else { 5 };
    let when = |i: usize| if i < 5 { d.instants[i] } else { pki::time(pki::T0) };
    let lists = sequences(nent, 0, 3);
    let probes: Vec<Serial> = d.serials.iter().map(|s| s.1).collect();
    let few_windows = [(1usize, 3usize), (0, 4), (2, 2), (0, 0), (3, 4)];
    let mut cases = vec![];
    for n in 0..d.serials.len() { for &(a, b) in &d.windows { for l in &lists { for nm in 0..3 {
        // issuer-name variants for lists of <= 2 (thorough) / <= 1 (quick); quick thins the windows for lists of 3
        if nm != 1 && l.len() > if thorough { 2 } else { 1 } { continue }
        if !thorough && l.len() == 3 && !few_windows.contains(&(a, b)) { continue }
        cases.push(CrlCase { number: n, this: a, next: b, entries: l.clone(), issuer_name: nm, key: 0 });
    }}}}
    for k in 1..8 { cases.push(CrlCase { number: 3, this: 1, next: 3, entries: vec![1, 0], issuer_name: 0, key: k }) }
    run_cases(ctx, &sp, "crl", &cases,
        |c| format!("crl number={} this={} next={} revoked=[{}] issuer={} key={}", d.serials[c.number].0, INSTANT_NAMES[c.this], INSTANT_NAMES[c.next],
            c.entries.iter().map(|&i| format!("{}@{}", d.serials[ent[i].0].0, if ent[i].1 < 5 { INSTANT_NAMES[ent[i].1] } else { "T0" })).collect::<Vec<_>>().join(","), NAME_NAMES[c.issuer_name], c.key),
        |c| {
            let mut r = CaseResult::default();
            let built = match guard(|| {
                let entries: Vec<CrlEntry> = c.entries.iter().map(|&i| CrlEntry::new(d.serials[ent[i].0].1, when(ent[i].1))).collect();
                TbsCertList::new(RpkiSignatureAlgorithm::default(), d.issuer_name(c.issuer_name, c.key), d.instants[c.this], d.instants[c.next],
                    entries, d.signer.public(c.key).key_identifier(), d.serials[c.number].1).into_crl(&d.signer, &Kid(c.key))
            }) {
                Ok(Ok(x)) => x,
                Ok(Err(e)) => { r.fail("build", e.to_string()); r.label = "build-failed".into(); return r }
                Err(p) => { r.fail("build", p); r.label = "build-failed".into(); return r }
            };
            r.label = format!("{} entries", c.entries.len());
            let Some((_, decoded)) = twin(&mut r, &built, |m| m.to_captured().as_slice().to_vec(),
                |b| Crl::decode(b).map_err(|e| e.to_string()), |x| obs_crl(x, &probes)) else { return r };
            r.label = format!("{} entries", decoded.revoked_certs().iter().count());
            match guard(|| decoded.verify_signature(&d.signer.public(c.key))) {
                Ok(Ok(())) => {}
                Ok(Err(e)) => r.fail("validate", e.to_string()),
                Err(p) => r.fail("validate", p),
            }
            r
        });
    sp.done(true, &format!("{} input tuples; {} revocation lists (sequences of 0-3 out of {} with repetition)", cases.len(), lists.len(), nent));
}

//============ CA side: CSR, identity certificates, signed messages ===========

#[derive(Clone, Debug)]
struct CsrCase { key: usize, repo: usize, mft: usize, notify: usize }

fn space_csr(ctx: &Ctx, d: &Dom) {
    let sp = ctx.space("build.csr",
        "Csr::construct_rpki_ca -> RpkiCaCsr::decode -> verify_signature: key x caRepository {4 directory URI shapes + one whose path does not end in '/'} x rpkiManifest x 4 shapes x rpkiNotify {absent + 3}, plus positions x character classes in all three URIs (as in the certificate spaces); there is no built value (the builder returns bytes), so the decoded accessors are compared with the builder's own inputs rendered the same way; non-trivial = distinct DER; outcome = notify present / absent");
    let mut repos = d.dirs.clone();
    repos.push(uri::Rsync::from_str("rsync://h/m/ca").unwrap());
    let repo_names = ["short", "punct", "upcase", "long", "no-trailing-slash"];
    let mut cases = vec![];
    for r in 0..repos.len() { for m in 0..4 { for n in 0..4 { cases.push(CsrCase { key: 1, repo: r, mft: m, notify: n }) }}}
    for k in 0..8 { for r in [0usize, 4] { cases.push(CsrCase { key: k, repo: r, mft: 1, notify: 2 }) }}
    // positions x character classes of the three URIs (indexes beyond the fixed tables)
    let (nr, nm, nn) = (repos.len(), d.mfts.len(), d.https.len());
    for i in 0..d.xtext.len() { cases.push(CsrCase { key: 1, repo: nr + i, mft: nm + i, notify: nn + i }) }
    let repos: Vec<uri::Rsync> = repos.into_iter().chain(d.xtext.iter().map(|x| x.dir.clone())).collect();
    let mfts: Vec<uri::Rsync> = d.mfts.iter().cloned().chain(d.xtext.iter().map(|x| x.file.clone())).collect();
    let https: Vec<Option<uri::Https>> = d.https.iter().cloned().chain(d.xtext.iter().map(|x| Some(x.https.clone()))).collect();
    run_cases(ctx, &sp, "csr", &cases,
        |c| if c.repo < nr { format!("csr key={} caRepository={} rpkiManifest={} notify={}", c.key, repo_names[c.repo], URI_NAMES[c.mft], c.notify) }
            else { format!("csr key={} all three URIs: {} ({})", c.key, d.xtext[c.repo - nr].desc, d.xtext[c.repo - nr].file) },
        |c| {
            let mut r = CaseResult::default();
            r.label = format!("notify:{}", c.notify != 0);
            let bytes = match guard(|| Csr::construct_rpki_ca(&d.signer, &Kid(c.key), &repos[c.repo], &mfts[c.mft], https[c.notify].as_ref())) {
                Ok(Ok(x)) => x.as_slice().to_vec(),
                Ok(Err(e)) => { r.fail("build", e.to_string()); r.label = "build-failed".into(); return r }
                Err(p) => { r.fail("build", p); r.label = "build-failed".into(); return r }
            };
            r.der_hash = fnv(&bytes);
            let decoded = match guard(|| RpkiCaCsr::decode(bytes.as_slice())) {
                Ok(Ok(x)) => x,
                Ok(Err(e)) => { r.fail("decode", e.to_string()); return r }
                Err(p) => { r.fail("decode", p); return r }
            };
            match guard(|| decoded.to_captured().as_slice().to_vec()) {
                Ok(b2) => if b2 != bytes { r.fail("reencode", format!("{} octets built, {} re-encoded", bytes.len(), b2.len())) },
                Err(p) => r.fail("reencode", p),
            }
            match guard(|| decoded.verify_signature()) { Ok(Ok(())) => {}, Ok(Err(e)) => r.fail("validate", e.to_string()), Err(p) => r.fail("validate", p) }
            // the builder's inputs, rendered like the accessors' answers
            let mut want = Obs::new();
            let key = d.signer.public(c.key);
            want.put("subject", || r_name(&key.to_subject_name()));
            want.put("public_key", || r_key(&key));
            want.put("basic_ca", || "true".into());
            want.put("key_usage", || format!("{:?}", KeyUsage::Ca));
            want.put("extended_key_usage", || "None".into());
            want.put("ca_repository", || { let mut u = repos[c.repo].clone(); u.path_into_dir(); r_rsync(Some(&u)) });
            want.put("rpki_manifest", || r_rsync(Some(&mfts[c.mft])));
            want.put("rpki_notify", || r_https(https[c.notify].as_ref()));
            want.put("verify_signature", || "Ok".into());
            want.put("to_captured", || hx(&bytes));
            if let Some(x) = diff(&want, &obs_csr(&decoded)) { r.fail("accessors", format!("inputs vs decoded: {x}")) }
            if let Some(x) = csr_attribute_siblings(&decoded) { r.fail("accessors", x) }
            r
        });
    sp.done(true, &format!("{} input tuples", cases.len()));
}

#[derive(Clone, Debug)]
struct IdCase { ta: bool, key: usize, ee_key: usize, win: (usize, usize), serial: usize }

fn space_idcert(ctx: &Ctx, d: &Dom) {
    let sp = ctx.space("build.idcert",
        "IdCert::new_ta / IdCert::new_ee -> IdCert::decode -> validate_ta_at / validate_ee_at(issuing key, both window ends): issuing key x validity x (EE: subject key != issuing key, serial drawn by Serial::random from signer octets set to each domain serial); non-trivial = distinct DER; outcome = TA / EE + time tags");
    let mut cases = vec![];
    for k in 0..8 { for &w in &d.windows { cases.push(IdCase { ta: true, key: k, ee_key: k, win: w, serial: 1 }) }}
    for k in [0usize, 6] { for e in 0..8 { if e != k { for &w in &d.windows { for s in 0..d.serials.len() {
        cases.push(IdCase { ta: false, key: k, ee_key: e, win: w, serial: s });
    }}}}}
    run_cases(ctx, &sp, "idcert", &cases,
        |c| format!("idcert {} key={} subject_key={} validity={} rand_serial={}", if c.ta { "ta" } else { "ee" }, c.key, c.ee_key, d.wname(c.win), d.serials[c.serial].0),
        |c| {
            let mut r = CaseResult::default();
            let signer = CaseSigner::with_rand(&d.signer, 7, d.serials[c.serial].1);
            let built = match guard(|| if c.ta { IdCert::new_ta(d.validity(c.win), &Kid(c.key), &signer) }
                                       else { IdCert::new_ee(&d.signer.public(c.ee_key), d.validity(c.win), &Kid(c.key), &signer) }) {
                Ok(Ok(x)) => x,
                Ok(Err(e)) => { r.fail("build", e.to_string()); r.label = "build-failed".into(); return r }
                Err(p) => { r.fail("build", p); r.label = "build-failed".into(); return r }
            };
            let Some((bytes, decoded)) = twin(&mut r, &built, |m| m.to_captured().as_slice().to_vec(),
                |b| IdCert::decode(b).map_err(|e| e.to_string()), obs_idcert) else { r.label = "no-twin".into(); return r };
            r.label = format!("{} {}", if c.ta { "ta" } else { "ee" }, time_tags(&bytes));
            if built != decoded { r.fail("accessors", "IdCert == says the built value and its twin differ") }
            { let a: &rpki::ca::idcert::TbsIdCert = &built; let b: &rpki::ca::idcert::TbsIdCert = &decoded;
              if a != b { r.fail("accessors", format!("TbsIdCert == says the built value and its twin differ: {a:?} / {b:?}")) } }
            if !c.ta { for x in [&built, &decoded] {
                let key = d.signer.public(c.key);
                let (a, b) = (guard(|| r_res(x.validate_ee(&key))), guard(|| r_res(x.validate_ee_at(&key, Time::now()))));
                if a != b || a.is_err() { r.fail("wallclock", format!("validate_ee {a:?} but validate_ee_at(now) {b:?}")) }
            }}
            for now in [d.instants[c.win.0], d.instants[c.win.1]] {
                let res = guard(|| if c.ta { decoded.validate_ta_at(now) } else { decoded.validate_ee_at(&d.signer.public(c.key), now) });
                match res { Ok(Ok(())) => {}, Ok(Err(e)) => { r.fail("validate", format!("at {}: {e}", r_time(now))); break }, Err(p) => { r.fail("validate", p); break } }
            }
            r
        });
    sp.done(true, &format!("{} input tuples", cases.len()));
}

#[derive(Clone, Debug)]
struct MsgCase { data: usize, win: (usize, usize), key: usize, one_off: usize, serial: usize }

fn space_sigmsg(ctx: &Ctx, d: &Dom) {
    let sp = ctx.space("build.sigmsg",
        "SignedMessage::create -> SignedMessage::decode(strict) -> validate_at(issuing key, both window ends): payload of 1..300 octets x validity x issuing key x one-off key x EE serial (via signer octets); signing time and CRL number come from the wall clock inside the library; non-trivial = distinct DER; outcome = time tags in the DER");
    let datas: Vec<Vec<u8>> = vec![b"x".to_vec(), b"<msg/>".to_vec(), vec![b'a'; 127], vec![b'b'; 128], vec![b'c'; 300]];
    let mut cases = vec![];
    for dt in 0..datas.len() { for &w in &d.windows { for s in 0..d.serials.len() { cases.push(MsgCase { data: dt, win: w, key: 0, one_off: 7, serial: s }) }}}
    for k in 0..7 { for o in [7usize, 3] { if o != k { for &w in &[(1usize, 3usize), (0, 4)] { cases.push(MsgCase { data: 1, win: w, key: k, one_off: o, serial: 3 }) }}}}
    run_cases(ctx, &sp, "sigmsg", &cases,
        |c| format!("sigmsg data={}octets validity={} key={} oneoff={} rand_serial={}", datas[c.data].len(), d.wname(c.win), c.key, c.one_off, d.serials[c.serial].0),
        |c| {
            let mut r = CaseResult::default();
            let signer = CaseSigner::with_rand(&d.signer, c.one_off, d.serials[c.serial].1);
            let built = match guard(|| SignedMessage::create(Bytes::from(datas[c.data].clone()), d.validity(c.win), &Kid(c.key), &signer)) {
                Ok(Ok(x)) => x,
                Ok(Err(e)) => { r.fail("build", e.to_string()); r.label = "build-failed".into(); return r }
                Err(p) => { r.fail("build", p); r.label = "build-failed".into(); return r }
            };
            let Some((bytes, decoded)) = twin(&mut r, &built, |m| m.to_captured().as_slice().to_vec(),
                |b| SignedMessage::decode(b, true).map_err(|e| e.to_string()), obs_sigmsg) else { r.label = "no-twin".into(); return r };
            r.label = time_tags(&bytes);
            for x in [&built, &decoded] {
                let key = d.signer.public(c.key);
                let (a, b) = (guard(|| r_res(x.validate(&key))), guard(|| r_res(x.validate_at(&key, Time::now()))));
                if a != b || a.is_err() { r.fail("wallclock", format!("validate {a:?} but validate_at(now) {b:?}")) }
            }
            for now in [d.instants[c.win.0], d.instants[c.win.1]] {
                match guard(|| (decoded.validate_at(&d.signer.public(c.key), now), built.validate_at(&d.signer.public(c.key), now))) {
                    Ok((Ok(()), Ok(()))) => {}
                    Ok((Err(e), _)) => { r.fail("validate", format!("at {}: {e}", r_time(now))); break }
                    Ok((_, Err(e))) => { r.fail("accessors", format!("built message rejected where its twin validates: {e}")); break }
                    Err(p) => { r.fail("validate", p); break }
                }
            }
            r
        });
    sp.done(true, &format!("{} input tuples", cases.len()));
}

/// `ProvisioningCms::decode` / `PublicationCms::decode` always decode in
/// relaxed (BER) mode; re-encoding such a value trips bcder's capture-mode
/// assertion (DESIGN §4 #18, not a small repair). That one failure has its own
/// oracle name so that it can be listed as a known finding without hiding a
/// byte mismatch or any other panic of `to_bytes`.
fn reencode_oracle(panic: &str) -> &'static str {
    if panic.contains("Trying to encode a captured value with incompatible mode") { "reencode_relaxed_capture" } else { "reencode" }
}

fn space_cms(ctx: &Ctx, d: &Dom) {
    let sp = ctx.space("build.cms",
        "ProvisioningCms::create / PublicationCms::create -> ::decode -> validate_at(issuing key, now) -> to_bytes: message kinds x issuing keys (validity is fixed by the library to now +- 5 min); non-trivial = distinct DER; outcome = protocol + message kind");
    let sender = SenderHandle::from_str("child-1").unwrap();
    let recipient = RecipientHandle::from_str("Parent_A/b").unwrap();
    let class = provisioning::ResourceClassName::from("rc-0");
    let prov: Vec<(&str, provisioning::Message)> = vec![
        ("list", provisioning::Message::list(sender.clone(), recipient.clone())),
        ("list_response", provisioning::Message::list_response(sender.clone(), recipient.clone(), provisioning::ResourceClassListResponse::new(vec![]))),
        ("revoke", provisioning::Message::revoke(sender.clone(), recipient.clone(), provisioning::RevocationRequest::new(class.clone(), d.signer.public(2).key_identifier()))),
        ("error", provisioning::Message::not_performed_response(sender.clone(), recipient.clone(), provisioning::NotPerformedResponse::err_1101()).unwrap()),
    ];
    let mut delta = publication::PublishDelta::empty();
    delta.add_publish(publication::Publish::with_hash_tag(d.objs[0].clone(), publication::Base64::from_content(b"object")));
    let publ: Vec<(&str, publication::Message)> = vec![
        ("list_query", publication::Message::list_query()),
        ("list_reply", publication::Message::list_reply(publication::ListReply::empty())),
        ("delta", publication::Message::delta(delta)),
        ("success", publication::Message::success()),
        ("error", publication::Message::error(publication::ErrorReply::for_error(publication::ReportError::with_code(publication::ReportErrorCode::PermissionFailure)))),
    ];
    let mut cases: Vec<(bool, usize, usize)> = vec![];
    for k in 0..4 { for m in 0..prov.len() { cases.push((true, m, k)) } for m in 0..publ.len() { cases.push((false, m, k)) } }
    run_cases(ctx, &sp, "cms", &cases,
        |c| format!("{} message={} key={}", if c.0 { "ProvisioningCms" } else { "PublicationCms" }, if c.0 { prov[c.1].0 } else { publ[c.1].0 }, c.2),
        |c| {
            let mut r = CaseResult::default();
            let signer = CaseSigner::new(&d.signer, 7);
            let key = d.signer.public(c.2);
            r.label = format!("{} {}", if c.0 { "provisioning" } else { "publication" }, if c.0 { prov[c.1].0 } else { publ[c.1].0 });
            if c.0 {
                let built = match guard(|| ProvisioningCms::create(prov[c.1].1.clone(), &Kid(c.2), &signer)) {
                    Ok(Ok(x)) => x, Ok(Err(e)) => { r.fail("build", e.to_string()); return r } Err(p) => { r.fail("build", p); return r } };
                let bytes = match guard(|| built.to_bytes()) { Ok(b) => b, Err(p) => { r.fail("encode", p); return r } };
                r.der_hash = fnv(&bytes);
                let decoded = match guard(|| ProvisioningCms::decode(&bytes)) {
                    Ok(Ok(x)) => x, Ok(Err(e)) => { r.fail("decode", e.to_string()); return r } Err(p) => { r.fail("decode", p); return r } };
                match guard(|| decoded.validate_at(&key, Time::now())) { Ok(Ok(())) => {}, Ok(Err(e)) => r.fail("validate", e.to_string()), Err(p) => r.fail("validate", p) }
                match guard(|| decoded.to_bytes()) { Ok(b2) => if b2 != bytes { r.fail("reencode", "bytes differ") }, Err(p) => r.fail(reencode_oracle(&p), p) }
                let ob = |x: &ProvisioningCms| { let mut o = Obs::new(); o.put("message", || format!("{:?}", x.message()));
                    o.put("message.to_xml", || x.message().to_xml_string()); o.put("unpack.content", || hx(&x.clone().unpack().0.content().to_bytes())); o };
                if let Some(x) = diff(&ob(&built), &ob(&decoded)) { r.fail("accessors", x) }
            } else {
                let built = match guard(|| PublicationCms::create(publ[c.1].1.clone(), &Kid(c.2), &signer)) {
                    Ok(Ok(x)) => x, Ok(Err(e)) => { r.fail("build", e.to_string()); return r } Err(p) => { r.fail("build", p); return r } };
                let bytes = match guard(|| built.to_bytes()) { Ok(b) => b, Err(p) => { r.fail("encode", p); return r } };
                r.der_hash = fnv(&bytes);
                let decoded = match guard(|| PublicationCms::decode(&bytes)) {
                    Ok(Ok(x)) => x, Ok(Err(e)) => { r.fail("decode", e.to_string()); return r } Err(p) => { r.fail("decode", p); return r } };
                match guard(|| decoded.validate_at(&key, Time::now())) { Ok(Ok(())) => {}, Ok(Err(e)) => r.fail("validate", e.to_string()), Err(p) => r.fail("validate", p) }
                match guard(|| decoded.to_bytes()) { Ok(b2) => if b2 != bytes { r.fail("reencode", "bytes differ") }, Err(p) => r.fail(reencode_oracle(&p), p) }
                let ob = |x: &PublicationCms| { let mut o = Obs::new(); o.put("into_message", || format!("{:?}", x.clone().into_message()));
                    o.put("message.to_xml", || x.clone().into_message().to_xml_string()); o.put("unpack.content", || hx(&x.clone().unpack().0.content().to_bytes())); o };
                if let Some(x) = diff(&ob(&built), &ob(&decoded)) { r.fail("accessors", x) }
            }
            r
        });
    sp.done(true, &format!("{} input tuples", cases.len()));
}


//============ Input forms ====================================================
//
// Wherever a builder takes `impl IntoIterator`, `impl Into<Vec<_>>`, an
// `Extend` impl or a closure-driven sub-builder, the FORM in which the same
// list arrives is a dimension of its own: an exact-size Vec, a borrowed
// slice, a mapped range, a filtered iterator (lower size bound 0), `from_fn`
// (size hint (0, None)), a chain whose lower bound is positive but too
// small, and the library's own iterator over the decoded twin (re-issuing
// an object from a decoded one). Oracle: the object built from any form is
// octet-identical to the one built from the Vec (signatures are
// deterministic), answers every accessor like it, and passes the usual
// decode / re-encode / accessor-agreement / validation oracles itself.

const FORM_NAMES: [&str; 7] = ["vec", "slice.iter.cloned", "range.map", "filter_map(lower bound 0)", "from_fn(0,None)",
    "flatten.chain(lower bound too small)", "iterator over the decoded twin"];

macro_rules! with_form {
    ($form:expr, $items:expr, |$it:ident| $body:expr) => {{
        let items = $items;
        match $form {
            0 => { let $it = items.into_iter(); $body }
            1 => { let v = items; let $it = v.iter().cloned(); $body }
            2 => { let n = items.len(); let v = items; let $it = (0..n).map(move |i| v[i].clone()); $body }
            3 => { let padded: Vec<Option<_>> = items.into_iter().flat_map(|x| [None, Some(x)]).collect();
                   let $it = padded.into_iter().filter_map(|x| x); $body }
            4 => { let v = items; let mut i = 0usize; let $it = std::iter::from_fn(move || { let r = v.get(i).cloned(); i += 1; r }); $body }
            _ => { let mut a = items; let b = a.split_off(a.len() / 2);
                   let pa: Vec<Option<_>> = a.into_iter().flat_map(|x| [Some(x), None]).collect();
                   let $it = pa.into_iter().flatten().chain(b.into_iter()); $body }
        }
    }};
}

#[derive(Clone, Copy, Debug, PartialEq, Eq)]
enum FormObj { Manifest, Crl, Roa, Aspa, CertRes }

#[derive(Clone, Debug)]
struct FormCase { obj: FormObj, list: Vec<usize>, form: usize }

/// Compares a value built another way (other input form, setter sequence)
/// with the reference built the plain way (from a Vec / directly).
fn form_check(r: &mut CaseResult, ref_bytes: &[u8], bytes: &[u8], ref_obs: &Obs, obs: &Obs) {
    if ref_bytes != bytes {
        let pos = bytes.iter().zip(ref_bytes.iter()).position(|(a, b)| a != b).unwrap_or(bytes.len().min(ref_bytes.len()));
        r.fail("form_independent", format!("encoding differs from the reference (built from a Vec / constructed directly): {} vs {} octets, first difference at {pos}", bytes.len(), ref_bytes.len()));
    }
    if let Some(x) = diff_l(ref_obs, obs, "reference", "this") { r.fail("form_independent", format!("reference vs this way of building: {x}")) }
}

fn space_forms(ctx: &Ctx, d: &Dom) {
    let sp = ctx.space("build.input_forms",
        "the same list handed to ManifestContent::new, TbsCertList::new/into_crl, RoaIpAddressesBuilder::extend, AspaBuilder::new (Into<Vec>) and TbsCert::{v4,v6,as}_resources_from_iter / build_*_resource_blocks in 7 forms (Vec, borrowed slice, mapped range, filter_map with lower size bound 0, from_fn with size hint (0, None), chain with a too small lower bound, the library's iterator over the decoded twin) plus closure-driven push/extend for resources: every sequence of 0-3 out of 3 entries (resources: every ordered atom selection); the result must be octet-identical to the Vec-built object, answer every accessor like it, and pass decode / re-encode / accessor agreement / validation itself; non-trivial = distinct DER; outcome = object kind + form");
    let files = mft_files();
    let a4 = roa_alphabet(true); let a6 = roa_alphabet(false);
    let crl_ent: Vec<CrlEntry> = vec![CrlEntry::new(d.serials[3].1, d.instants[3]), CrlEntry::new(d.serials[0].1, d.instants[0]), CrlEntry::new(d.serials[5].1, pki::time(pki::T0))];
    let provs = [1u32, 65536, 4294967295];
    let so = SoSpec::base();
    let base_uri = d.dirs[1].clone();
    let probes: Vec<Serial> = d.serials.iter().map(|s| s.1).collect();
    let mut cases = vec![];
    for obj in [FormObj::Manifest, FormObj::Crl, FormObj::Roa, FormObj::Aspa] {
        for l in sequences(3, 0, 3) { for form in 0..7 {
            if obj == FormObj::Roa && l.is_empty() { continue }
            if obj == FormObj::Aspa && (l.is_empty() || (1..l.len()).any(|i| l[..i].contains(&l[i]))) { continue }
            cases.push(FormCase { obj, list: l.clone(), form });
        }}
    }
    for o in res_orders() { if let ResCh::Blocks(l) = o { for form in 0..9 { cases.push(FormCase { obj: FormObj::CertRes, list: l.clone(), form }) } } }
    let form_name = |c: &FormCase| if c.form < 7 { FORM_NAMES[c.form] } else if c.form == 7 { "build_*_resource_blocks(push)" } else { "build_*_resource_blocks(extend filter_map)" };
    run_cases(ctx, &sp, "forms", &cases,
        |c| format!("{:?} list={:?} form={}", c.obj, c.list, form_name(c)),
        |c| {
            let mut r = CaseResult::default();
            r.label = format!("{:?} {}", c.obj, form_name(c));
            let signer = so.signer(d);
            let res = guard(|| -> Result<(), String> {
                match c.obj {
                    FormObj::Manifest => {
                        let items: Vec<FileAndHash<Vec<u8>, Vec<u8>>> = c.list.iter().map(|&i| FileAndHash::new(files[i].0.clone(), files[i].1.clone())).collect();
                        let mk = |content: ManifestContent| content.into_manifest(so.builder(d), &signer, &Kid(0)).map_err(|e| e.to_string());
                        let head = (d.serials[3].1, d.instants[1], d.instants[3], DigestAlgorithm::sha256());
                        let reference = ManifestContent::new(head.0, head.1, head.2, head.3, items.clone());
                        let ref_obs = obs_mft_content(&reference, &base_uri);
                        let ref_built = mk(reference)?;
                        let ref_bytes = ref_built.to_captured().as_slice().to_vec();
                        let content = if c.form == 6 {
                            let twin_ = Manifest::decode(ref_bytes.as_slice(), true).map_err(|e| e.to_string())?;
                            ManifestContent::new(head.0, head.1, head.2, head.3, twin_.content().iter())
                        } else { with_form!(c.form, items, |it| ManifestContent::new(head.0, head.1, head.2, head.3, it)) };
                        let obs = obs_mft_content(&content, &base_uri);
                        let built = mk(content)?;
                        let Some((bytes, _)) = twin(&mut r, &built, |m| m.to_captured().as_slice().to_vec(),
                            |b| Manifest::decode(b, true).map_err(|e| e.to_string()), |m| obs_manifest(m, &base_uri)) else { return Ok(()) };
                        form_check(&mut r, &ref_bytes, &bytes, &ref_obs, &obs);
                        validate_signed(d, &mut r, &bytes, &so);
                    }
                    FormObj::Crl => {
                        let items: Vec<CrlEntry> = c.list.iter().map(|&i| crl_ent[i]).collect();
                        macro_rules! tbs { ($rc:expr) => { TbsCertList::new(RpkiSignatureAlgorithm::default(), d.issuer_name(1, 0), d.instants[1], d.instants[3], $rc,
                            d.signer.public(0).key_identifier(), d.serials[3].1) } }
                        let ref_built = tbs!(items.clone()).into_crl(&d.signer, &Kid(0)).map_err(|e| e.to_string())?;
                        let ref_bytes = ref_built.to_captured().as_slice().to_vec();
                        let built = if c.form == 6 {
                            let twin_ = Crl::decode(ref_bytes.as_slice()).map_err(|e| e.to_string())?;
                            tbs!(twin_.revoked_certs().iter()).into_crl(&d.signer, &Kid(0)).map_err(|e| e.to_string())?
                        } else { with_form!(c.form, items, |it| tbs!(it).into_crl(&d.signer, &Kid(0)).map_err(|e| e.to_string()))? };
                        let Some((bytes, decoded)) = twin(&mut r, &built, |m| m.to_captured().as_slice().to_vec(),
                            |b| Crl::decode(b).map_err(|e| e.to_string()), |x| obs_crl(x, &probes)) else { return Ok(()) };
                        form_check(&mut r, &ref_bytes, &bytes, &obs_crl(&ref_built, &probes), &obs_crl(&built, &probes));
                        if let Err(e) = decoded.verify_signature(&d.signer.public(0)) { r.fail("validate", e.to_string()) }
                    }
                    FormObj::Roa => {
                        let l4: Vec<RoaIpAddress> = c.list.iter().map(|&i| a4[i]).collect();
                        let l6: Vec<RoaIpAddress> = c.list.iter().rev().map(|&i| a6[i]).collect();
                        let mut rb = RoaBuilder::new(Asn::from_u32(65536));
                        for x in &l4 { rb.push_v4(*x) } for x in &l6 { rb.push_v6(*x) }
                        let ref_built = rb.finalize(so.builder(d), &signer, &Kid(0)).map_err(|e| e.to_string())?;
                        let ref_bytes = ref_built.to_captured().as_slice().to_vec();
                        let mut b = RoaBuilder::new(Asn::from_u32(65536));
                        if c.form == 6 {
                            let twin_ = Roa::decode(ref_bytes.as_slice(), true).map_err(|e| e.to_string())?;
                            b.v4_mut().extend(twin_.content().v4_addrs().iter());
                            b.v6_mut().extend(twin_.content().v6_addrs().iter());
                        } else {
                            with_form!(c.form, l4, |it| b.v4_mut().extend(it));
                            with_form!(c.form, l6, |it| b.v6_mut().extend(it));
                        }
                        let built = b.finalize(so.builder(d), &signer, &Kid(0)).map_err(|e| e.to_string())?;
                        let Some((bytes, decoded)) = twin(&mut r, &built, |m| m.to_captured().as_slice().to_vec(),
                            |b| Roa::decode(b, true).map_err(|e| e.to_string()), obs_roa) else { return Ok(()) };
                        form_check(&mut r, &ref_bytes, &bytes, &obs_roa(&ref_built), &obs_roa(&built));
                        validate_signed(d, &mut r, &bytes, &so);
                        if let Err(e) = decoded.process(&d.ta, true, |_| Ok(())) { r.fail("validate", format!("Roa::process: {e}")) }
                    }
                    FormObj::Aspa => {
                        let items: Vec<Asn> = c.list.iter().map(|&i| Asn::from_u32(provs[i])).collect();
                        let cust = Asn::from_u32(0);
                        let fin = |b: AspaBuilder| b.finalize(so.builder(d), &signer, &Kid(0)).map_err(|e| e.to_string());
                        let ref_built = fin(AspaBuilder::new(cust, items.clone()).map_err(|e| e.to_string())?)?;
                        let ref_bytes = ref_built.to_captured().as_slice().to_vec();
                        let b = match c.form {
                            0 => AspaBuilder::new(cust, items),
                            1 => AspaBuilder::new(cust, items.as_slice()),
                            2 => AspaBuilder::new(cust, items.into_boxed_slice()),
                            3 => AspaBuilder::new(cust, std::collections::VecDeque::from(items)),
                            4 => AspaBuilder::new(cust, std::borrow::Cow::Borrowed(items.as_slice())),
                            5 => AspaBuilder::new(cust, items.iter().map(|a| Some(*a)).filter_map(|x| x).collect::<Vec<_>>()),
                            _ => { let twin_ = Aspa::decode(ref_bytes.as_slice(), true).map_err(|e| e.to_string())?;
                                   AspaBuilder::new(cust, twin_.content().provider_as_set().iter().collect::<Vec<_>>()) }
                        }.map_err(|e| e.to_string())?;
                        let built = fin(b)?;
                        let Some((bytes, decoded)) = twin(&mut r, &built, |m| m.to_captured().as_slice().to_vec(),
                            |b| Aspa::decode(b, true).map_err(|e| e.to_string()), obs_aspa) else { return Ok(()) };
                        form_check(&mut r, &ref_bytes, &bytes, &obs_aspa(&ref_built), &obs_aspa(&built));
                        validate_signed(d, &mut r, &bytes, &so);
                        if let Err(e) = decoded.process(&d.ta, true, |_| Ok(())) { r.fail("validate", format!("Aspa::process: {e}")) }
                    }
                    FormObj::CertRes => {
                        let ch = ResCh::Blocks(c.list.clone());
                        let spec = CertSpec { v4: ch.clone(), v6: ch.clone(), asn: ch.clone(), ..CertSpec::base(CKind::Ca) };
                        let reference = spec.build(d);
                        let b4: Vec<IpBlock> = pki::ip_blocks(32, &c.list.iter().map(|&i| v4_atoms()[i]).collect::<Vec<_>>()).iter().collect();
                        let b6: Vec<IpBlock> = pki::ip_blocks(128, &c.list.iter().map(|&i| v6_atoms()[i]).collect::<Vec<_>>()).iter().collect();
                        let ba: Vec<AsBlock> = pki::as_blocks(&c.list.iter().map(|&i| as_atoms()[i]).collect::<Vec<_>>()).iter().collect();
                        // the blocks in INSERTION order (the collected chains above are already canonical)
                        let raw4: Vec<IpBlock> = c.list.iter().map(|&i| pki::ip_blocks(32, &[v4_atoms()[i]]).iter().next().unwrap()).collect();
                        let raw6: Vec<IpBlock> = c.list.iter().map(|&i| pki::ip_blocks(128, &[v6_atoms()[i]]).iter().next().unwrap()).collect();
                        let rawa: Vec<AsBlock> = c.list.iter().map(|&i| pki::as_blocks(&[as_atoms()[i]]).iter().next().unwrap()).collect();
                        let _ = (&b4, &b6, &ba);
                        let mut t = CertSpec { v4: ResCh::Inherit, v6: ResCh::Missing, asn: ResCh::Inherit, ..spec.clone() }.build(d);
                        match c.form {
                            6 => {
                                let twin_ = Cert::decode(reference.clone().into_cert(&d.signer, &Kid(0)).map_err(|e| e.to_string())?.to_captured().as_slice()).map_err(|e| e.to_string())?;
                                t.v4_resources_from_iter(twin_.v4_resources().to_blocks().map_err(|e| e.to_string())?.iter());
                                t.v6_resources_from_iter(twin_.v6_resources().to_blocks().map_err(|e| e.to_string())?.iter());
                                t.as_resources_from_iter(twin_.as_resources().to_blocks().map_err(|e| e.to_string())?.iter());
                            }
                            7 => {
                                t.build_v4_resource_blocks(|b| for x in &raw4 { b.push(*x) });
                                t.build_v6_resource_blocks(|b| for x in &raw6 { b.push(*x) });
                                t.build_as_resource_blocks(|b| for x in &rawa { b.push(*x) });
                            }
                            8 => {
                                t.build_v4_resource_blocks(|b| b.extend(raw4.iter().map(|x| Some(*x)).filter_map(|x| x)));
                                t.build_v6_resource_blocks(|b| b.extend(raw6.iter().map(|x| Some(*x)).filter_map(|x| x)));
                                t.build_as_resource_blocks(|b| b.extend(rawa.iter().map(|x| Some(*x)).filter_map(|x| x)));
                            }
                            f => {
                                with_form!(f, raw4, |it| t.v4_resources_from_iter(it));
                                with_form!(f, raw6, |it| t.v6_resources_from_iter(it));
                                with_form!(f, rawa, |it| t.as_resources_from_iter(it));
                            }
                        }
                        let ref_obs = obs_tbs(&reference); let obs = obs_tbs(&t);
                        let ref_bytes = cap(reference.encode_ref()); let tb = cap(t.encode_ref());
                        form_check(&mut r, &ref_bytes, &tb, &ref_obs, &obs);
                        let built = t.into_cert(&d.signer, &Kid(0)).map_err(|e| e.to_string())?;
                        let Some((_, decoded)) = twin(&mut r, &built, |c| c.to_captured().as_slice().to_vec(),
                            |b| Cert::decode(b).map_err(|e| e.to_string()), obs_cert) else { return Ok(()) };
                        if let Err(e) = validate_cert(d, CKind::Ca, &decoded, d.instants[spec.win.0]) { r.fail("validate", e) }
                    }
                }
                Ok(())
            });
            match res { Ok(Ok(())) => {}, Ok(Err(e)) => r.fail("build", e), Err(p) => r.fail("build", p) }
            r
        });
    sp.done(true, &format!("{} (object, list, form) triples", cases.len()));
}


//============ Operation sequences on builders ================================
//
// Every public setter of every builder: the object reached by "construct
// with value A, then set B" must be octet-identical to the object constructed
// directly with B (differential, nothing written down by hand), answer every
// accessor like it, and validate. For every set of 1-3 fields, every order
// of their setters, and three patterns per setter: once, twice, and
// B-A-B (setting back and forth).

const PATTERN_NAMES: [&str; 3] = ["once", "twice", "B,A,B"];

/// all subsets of size 1..=k of 0..n, each in every order
fn ordered_subsets(n: usize, k: usize) -> Vec<Vec<usize>> {
    fn rec(n: usize, k: usize, cur: &mut Vec<usize>, out: &mut Vec<Vec<usize>>) {
        if !cur.is_empty() { out.push(cur.clone()) }
        if cur.len() == k { return }
        for i in 0..n { if !cur.contains(&i) { cur.push(i); rec(n, k, cur, out); cur.pop(); } }
    }
    let mut out = vec![]; rec(n, k, &mut vec![], &mut out);
    out.sort_by(|a, b| a.len().cmp(&b.len()).then(a.cmp(b)));
    out
}

fn apply_pattern<T>(t: &mut T, pattern: usize, set_b: &dyn Fn(&mut T), set_a: &dyn Fn(&mut T)) {
    match pattern { 0 => set_b(t), 1 => { set_b(t); set_b(t) }, _ => { set_b(t); set_a(t); set_b(t) } }
}

const TBS_FIELDS: [&str; 19] = ["serial_number", "issuer", "validity", "subject", "subject_public_key", "key_usage", "overclaim",
    "basic_ca", "authority_key_identifier", "extended_key_usage", "crl_uri", "ca_issuer", "ca_repository", "rpki_manifest",
    "signed_object", "rpki_notify", "v4_resources", "v6_resources", "as_resources"];
const TBS_CTOR_FIELDS: usize = 7;

/// Copies one field from `src` into `t` through the public setter.
fn tbs_set(t: &mut TbsCert, f: usize, src: &TbsCert) {
    match f {
        0 => t.set_serial_number(src.serial_number()),
        1 => t.set_issuer(src.issuer().clone()),
        2 => t.set_validity(src.validity()),
        3 => t.set_subject(src.subject().clone()),
        4 => t.set_subject_public_key(src.subject_public_key_info().clone()),
        5 => t.set_key_usage(src.key_usage()),
        6 => t.set_overclaim(src.overclaim()),
        7 => t.set_basic_ca(src.basic_ca()),
        8 => t.set_authority_key_identifier(src.authority_key_identifier()),
        9 => t.set_extended_key_usage(src.extended_key_usage().cloned()),
        10 => t.set_crl_uri(src.crl_uri().cloned()),
        11 => t.set_ca_issuer(src.ca_issuer().cloned()),
        12 => t.set_ca_repository(src.ca_repository().cloned()),
        13 => t.set_rpki_manifest(src.rpki_manifest().cloned()),
        14 => t.set_signed_object(src.signed_object().cloned()),
        15 => t.set_rpki_notify(src.rpki_notify().cloned()),
        16 => if src.v4_resources().is_inherited() { t.set_v4_resources_inherit() } else { t.set_v4_resources(src.v4_resources().clone()) },
        17 => if src.v6_resources().is_inherited() { t.set_v6_resources_inherit() } else { t.set_v6_resources(src.v6_resources().clone()) },
        _ => if src.as_resources().is_inherited() { t.set_as_resources_inherit() } else { t.set_as_resources(src.as_resources().clone()) },
    }
}

/// A TbsCert that differs from `b` in every one of the 19 fields.
fn tbs_alternative(d: &Dom, kind: CKind, b: &TbsCert) -> TbsCert {
    let spec = CertSpec { kind, serial: 5, win: (0, 4), issuer_name: 2, subject_name: 1, uris: [3, 3, 3, 3], notify: 1,
        v4: ResCh::Blocks(vec![3]), v6: ResCh::Blocks(vec![0, 1]), asn: ResCh::Blocks(vec![0]), overclaim: Overclaim::Trim, subject_key: 4, ta_aki: false, text_x: None, name_x: None, validity_x: None };
    let mut a = spec.build(d);
    a.set_key_usage(if b.key_usage() == KeyUsage::Ca { KeyUsage::Ee } else { KeyUsage::Ca });
    a.set_basic_ca(if b.basic_ca() == Some(true) { None } else { Some(true) });
    a.set_authority_key_identifier(Some(d.signer.public(5).key_identifier()));
    a.set_extended_key_usage(Some(ExtendedKeyUsage::create_router()));
    a.set_crl_uri(Some(d.crls[3].clone())); a.set_ca_issuer(Some(d.cers[3].clone()));
    a.set_ca_repository(Some(d.dirs[3].clone())); a.set_rpki_manifest(Some(d.mfts[3].clone()));
    a.set_signed_object(Some(d.objs[3].clone())); a.set_rpki_notify(d.https[1].clone());
    a
}

#[derive(Clone, Debug)]
struct SetCase { target: u8, fields: Vec<usize>, pattern: usize }

fn space_setters(ctx: &Ctx, d: &Dom) {
    let sp = ctx.space("build.setter_sequences",
        "construct with value A, then set B, against direct construction with B: TbsCert as CA / EE / TA (19 fields: 7 constructor arguments + 12 extension setters, resources also through set_*_resources_inherit), TbsCertList (6), SignedObjectBuilder (11), RoaBuilder (set_as_id / with_addresses / push order): every set of 1-3 fields (EE, TA quick: 1-2) in every setter order x {once, twice, B-A-B} (sets of 3: once; thorough: all three); the result must be octet-identical to the directly constructed object and answer every accessor like it; objects reached through <= 2 setters are also signed, decoded and validated (with equal octets the outcome for 3 is that of the direct object); non-trivial = distinct (target, field set) pairs; outcome = target + number of setters");
    let thorough = ctx.tier.is_thorough();
    let kinds = [CKind::Ca, CKind::Ee, CKind::Ta];
    let mut cases: Vec<SetCase> = vec![];
    for (ti, _) in kinds.iter().enumerate() {
        let k = if ti == 0 || thorough { 3 } else { 2 };
        for f in ordered_subsets(TBS_FIELDS.len(), k) { for p in 0..3 { if f.len() < 3 || p == 0 || thorough { cases.push(SetCase { target: ti as u8, fields: f.clone(), pattern: p }) } } }
    }
    const CRL_FIELDS: [&str; 6] = ["issuer", "this_update", "next_update", "revoked_certs", "authority_key_identifier", "crl_number"];
    for f in ordered_subsets(CRL_FIELDS.len(), 3) { for p in 0..3 { cases.push(SetCase { target: 3, fields: f.clone(), pattern: p }) } }
    const SO_FIELDS: [&str; 11] = ["serial_number", "validity", "crl_uri", "ca_issuer", "signed_object", "issuer", "subject", "v4_resources", "v6_resources", "as_resources", "signing_time"];
    const SO_CTOR: usize = 5;
    for f in ordered_subsets(SO_FIELDS.len(), 3) { for p in 0..3 { if f.len() < 3 || p == 0 || thorough { cases.push(SetCase { target: 4, fields: f.clone(), pattern: p }) } } }
    // RoaBuilder: `fields` = the variant, `pattern` = the address list
    for variant in 0..6 { for list in 0..6 { cases.push(SetCase { target: 5, fields: vec![variant], pattern: list }) } }

    // direct objects and alternatives, once
    let directs: Vec<TbsCert> = kinds.iter().map(|k| CertSpec::base(*k).build(d)).collect();
    let alts: Vec<TbsCert> = kinds.iter().zip(directs.iter()).map(|(k, b)| tbs_alternative(d, *k, b)).collect();
    let direct_bytes: Vec<Vec<u8>> = directs.iter().map(|t| cap(t.encode_ref())).collect();
    for ((k, a), b) in kinds.iter().zip(alts.iter()).zip(directs.iter()) {
        let (oa, ob) = (obs_tbs(a), obs_tbs(b));
        for f in 0..TBS_FIELDS.len() {
            // the alternative really differs in every field (else a setter would be exercised vacuously)
            let name = match f { 4 => "subject_public_key_info", 16 => "v4_resources", 17 => "v6_resources", 18 => "as_resources", _ => TBS_FIELDS[f] };
            let va = oa.0.iter().find(|x| x.0 == name).map(|x| &x.1); let vb = ob.0.iter().find(|x| x.0 == name).map(|x| &x.1);
            if va.is_none() || va == vb { ctx.machinery_error(format!("setter space: alternative TbsCert for {k:?} does not differ in {name}")) }
        }
    }
    let target_names = ["TbsCert(CA)", "TbsCert(EE)", "TbsCert(TA)", "TbsCertList", "SignedObjectBuilder", "RoaBuilder"];
    let so_b = SoSpec::base();
    let so_a = SoSpec { serial: 5, win: (0, 4), issuer_name: 2, subject_name: 1, uris: [3, 3, 3], signing: 0, one_off: 7 };
    let probes: Vec<Serial> = d.serials.iter().map(|s| s.1).collect();
    let a4 = roa_alphabet(true); let a6 = roa_alphabet(false);
    let roa_lists: [(&[usize], &[usize]); 6] = [(&[0], &[]), (&[], &[1]), (&[1, 0], &[0]), (&[2, 1, 0], &[3, 1]), (&[0, 0], &[5, 9]), (&[9, 5, 3], &[4, 0, 0])];
    let obs_sob = |b: &SignedObjectBuilder| { let mut o = Obs::new();
        o.put("digest_algorithm", || format!("{:?}", b.digest_algorithm())); o.put("serial_number", || b.serial_number().to_string());
        o.put("validity", || r_validity(b.validity())); o.put("issuer", || format!("{:?}", b.issuer().map(r_name))); o.put("subject", || format!("{:?}", b.subject().map(r_name)));
        o.put("crl_uri", || r_rsync(Some(b.crl_uri()))); o.put("ca_issuer", || r_rsync(Some(b.ca_issuer()))); o.put("signed_object", || r_rsync(Some(b.signed_object())));
        o.put("v4_resources", || r_ipres(b.v4_resources(), true)); o.put("v6_resources", || r_ipres(b.v6_resources(), false)); o.put("has_ip_resources", || b.has_ip_resources().to_string());
        o.put("as_resources", || r_asres(b.as_resources())); o.put("signing_time", || r_time(b.signing_time())); o };

    run_cases(ctx, &sp, "setters", &cases,
        |c| match c.target {
            0..=2 => format!("{} construct with A then set {} pattern={}", target_names[c.target as usize], c.fields.iter().map(|&f| TBS_FIELDS[f]).collect::<Vec<_>>().join(" -> "), PATTERN_NAMES[c.pattern]),
            3 => format!("TbsCertList construct with A then set {} pattern={}", c.fields.iter().map(|&f| CRL_FIELDS[f]).collect::<Vec<_>>().join(" -> "), PATTERN_NAMES[c.pattern]),
            4 => format!("SignedObjectBuilder construct with A then set {} pattern={}", c.fields.iter().map(|&f| SO_FIELDS[f]).collect::<Vec<_>>().join(" -> "), PATTERN_NAMES[c.pattern]),
            _ => format!("RoaBuilder variant={} list#{}", ["new(A),set_as_id(B),push", "push,set_as_id(B)", "with_addresses", "push v6 before v4", "set_as_id(A),set_as_id(B)", "interleaved push, set_as_id in the middle"][c.fields[0]], c.pattern),
        },
        |c| {
            let mut r = CaseResult::default();
            r.label = format!("{} {} setters", target_names[c.target as usize], c.fields.len());
            let mut key: Vec<usize> = c.fields.clone(); key.sort();
            r.der_hash = fnv(format!("{}{:?}", c.target, key).as_bytes());
            let res = guard(|| -> Result<(), String> {
                match c.target {
                    0..=2 => {
                        let ti = c.target as usize; let kind = kinds[ti];
                        let (b, a) = (&directs[ti], &alts[ti]);
                        let pick = |f: usize| if c.fields.contains(&f) { a } else { b };
                        // constructor arguments: A where the field is going to be set, B elsewhere
                        let mut t = TbsCert::new(pick(0).serial_number(), pick(1).issuer().clone(), pick(2).validity(), Some(pick(3).subject().clone()),
                            pick(4).subject_public_key_info().clone(), pick(5).key_usage(), pick(6).overclaim());
                        for f in TBS_CTOR_FIELDS..TBS_FIELDS.len() { tbs_set(&mut t, f, pick(f)) }
                        for &f in &c.fields { apply_pattern(&mut t, c.pattern, &|t| tbs_set(t, f, b), &|t| tbs_set(t, f, a)) }
                        let tb = cap(t.encode_ref());
                        form_check(&mut r, &direct_bytes[ti], &tb, &obs_tbs(b), &obs_tbs(&t));
                        if c.fields.len() <= 2 {
                            let key = if kind == CKind::Ta { 0 } else { 0 };
                            let built = t.into_cert(&d.signer, &Kid(key)).map_err(|e| e.to_string())?;
                            let Some((_, decoded)) = twin(&mut r, &built, |c| c.to_captured().as_slice().to_vec(),
                                |x| Cert::decode(x).map_err(|e| e.to_string()), obs_cert) else { return Ok(()) };
                            if let Err(e) = validate_cert(d, kind, &decoded, d.instants[1]) { r.fail("validate", format!("decoded twin: {e}")) }
                            if let Err(e) = validate_cert(d, kind, &built, d.instants[1]) { r.fail("validate", format!("built value: {e}")) }
                        }
                    }
                    3 => {
                        let ent_b: Vec<CrlEntry> = vec![CrlEntry::new(d.serials[3].1, d.instants[3]), CrlEntry::new(d.serials[0].1, d.instants[0])];
                        let ent_a: Vec<CrlEntry> = vec![CrlEntry::new(d.serials[5].1, d.instants[4])];
                        let mk = |which: &dyn Fn(usize) -> bool| TbsCertList::new(RpkiSignatureAlgorithm::default(),
                            if which(0) { d.issuer_name(2, 0) } else { d.issuer_name(1, 0) },
                            if which(1) { d.instants[0] } else { d.instants[1] }, if which(2) { d.instants[4] } else { d.instants[3] },
                            if which(3) { ent_a.clone() } else { ent_b.clone() },
                            if which(4) { d.signer.public(5).key_identifier() } else { d.signer.public(0).key_identifier() },
                            if which(5) { d.serials[5].1 } else { d.serials[3].1 });
                        let set = |t: &mut TbsCertList<Vec<CrlEntry>>, f: usize, alt: bool| match f {
                            0 => t.set_issuer(if alt { d.issuer_name(2, 0) } else { d.issuer_name(1, 0) }),
                            1 => t.set_this_update(if alt { d.instants[0] } else { d.instants[1] }),
                            2 => t.set_next_update(if alt { d.instants[4] } else { d.instants[3] }),
                            3 => if alt { t.set_revoked_certs(ent_a.clone()) } else if t.revoked_certs().len() == 1 { let m = t.revoked_certs_mut(); m.clear(); m.extend(ent_b.iter().copied()) } else { t.set_revoked_certs(ent_b.clone()) },
                            4 => t.set_authority_key_identifier(if alt { d.signer.public(5).key_identifier() } else { d.signer.public(0).key_identifier() }),
                            _ => t.set_crl_number(if alt { d.serials[5].1 } else { d.serials[3].1 }),
                        };
                        let direct = mk(&|_| false).into_crl(&d.signer, &Kid(0)).map_err(|e| e.to_string())?;
                        let mut t = mk(&|f| c.fields.contains(&f));
                        t.set_signature(RpkiSignatureAlgorithm::default());
                        for &f in &c.fields { apply_pattern(&mut t, c.pattern, &|t| set(t, f, false), &|t| set(t, f, true)) }
                        let built = t.into_crl(&d.signer, &Kid(0)).map_err(|e| e.to_string())?;
                        let Some((bytes, decoded)) = twin(&mut r, &built, |m| m.to_captured().as_slice().to_vec(),
                            |x| Crl::decode(x).map_err(|e| e.to_string()), |x| obs_crl(x, &probes)) else { return Ok(()) };
                        form_check(&mut r, direct.to_captured().as_slice(), &bytes, &obs_crl(&direct, &probes), &obs_crl(&built, &probes));
                        if let Err(e) = decoded.verify_signature(&d.signer.public(0)) { r.fail("validate", e.to_string()) }
                    }
                    4 => {
                        let res_b = (pki::ip_res(32, &ResCh::Blocks(vec![0, 2]).claim(&v4_atoms())), IpResources::inherit(), pki::as_res(&ResCh::Blocks(vec![1]).claim(&as_atoms())));
                        let res_a = (IpResources::inherit(), pki::ip_res(128, &ResCh::Blocks(vec![3]).claim(&v6_atoms())), AsResources::inherit());
                        let signer = so_b.signer(d);
                        let set = |t: &mut SignedObjectBuilder, f: usize, alt: bool| { let s = if alt { &so_a } else { &so_b }; let rs = if alt { &res_a } else { &res_b }; match f {
                            0 => t.set_serial_number(d.serials[s.serial].1), 1 => t.set_validity(d.validity(s.win)),
                            2 => t.set_crl_uri(d.crls[s.uris[0]].clone()), 3 => t.set_ca_issuer(d.cers[s.uris[1]].clone()), 4 => t.set_signed_object(d.objs[s.uris[2]].clone()),
                            5 => t.set_issuer(d.name_opt(s.issuer_name)), 6 => t.set_subject(d.name_opt(s.subject_name)),
                            7 => if rs.0.is_inherited() { t.set_v4_resources_inherit() } else { t.set_v4_resources(rs.0.clone()) },
                            8 => if rs.1.is_inherited() { t.set_v6_resources_inherit() } else { t.set_v6_resources(rs.1.clone()) },
                            9 => if rs.2.is_inherited() { t.set_as_resources_inherit() } else { t.set_as_resources(rs.2.clone()) },
                            _ => t.set_signing_time(d.instants[s.signing]),
                        } };
                        let mut direct = so_b.builder(d);
                        for f in 7..10 { set(&mut direct, f, false) }
                        let pick = |f: usize| if c.fields.contains(&f) { &so_a } else { &so_b };
                        let mut t = SignedObjectBuilder::new(d.serials[pick(0).serial].1, d.validity(pick(1).win), d.crls[pick(2).uris[0]].clone(),
                            d.cers[pick(3).uris[1]].clone(), d.objs[pick(4).uris[2]].clone());
                        t.set_digest_algorithm(DigestAlgorithm::sha256());
                        for f in SO_CTOR..SO_FIELDS.len() { set(&mut t, f, c.fields.contains(&f)) }
                        for &f in &c.fields { apply_pattern(&mut t, c.pattern, &|t| set(t, f, false), &|t| set(t, f, true)) }
                        if let Some(x) = diff_l(&obs_sob(&direct), &obs_sob(&t), "direct", "set") { r.fail("form_independent", format!("builder state, direct vs set: {x}")) }
                        if c.fields.len() <= 2 {
                            let ct = || Oid(Bytes::copy_from_slice(&der::oid(&[1, 2, 840, 113549, 1, 9, 16, 1, 35])[2..]));
                            let content = Bytes::from(der::seq(&[der::int_u(7)]));
                            let dir = direct.finalize(ct(), content.clone(), &signer, &Kid(0)).map_err(|e| e.to_string())?;
                            let built = t.finalize(ct(), content, &signer, &Kid(0)).map_err(|e| e.to_string())?;
                            let Some((bytes, _)) = twin(&mut r, &built, |s| cap(s.encode_ref()), |x| SignedObject::decode(x, true).map_err(|e| e.to_string()), obs_sigobj) else { return Ok(()) };
                            form_check(&mut r, &cap(dir.encode_ref()), &bytes, &obs_sigobj(&dir), &obs_sigobj(&built));
                            validate_signed(d, &mut r, &bytes, &so_b);
                        }
                    }
                    _ => {
                        let (i4, i6) = roa_lists[c.pattern];
                        let l4: Vec<RoaIpAddress> = i4.iter().map(|&i| a4[i]).collect(); let l6: Vec<RoaIpAddress> = i6.iter().map(|&i| a6[i]).collect();
                        let (asn_a, asn_b) = (Asn::from_u32(4294967295), Asn::from_u32(65536));
                        let signer = so_b.signer(d);
                        let mut direct = RoaBuilder::new(asn_b);
                        for x in &l4 { direct.push_v4(*x) } for x in &l6 { direct.push_v6(*x) }
                        let mut t = match c.fields[0] {
                            0 => { let mut t = RoaBuilder::new(asn_a); t.set_as_id(asn_b); for x in &l4 { t.push_v4(*x) } for x in &l6 { t.push_v6(*x) } t }
                            1 => { let mut t = RoaBuilder::new(asn_a); for x in &l4 { t.push_v4(*x) } for x in &l6 { t.push_v6(*x) } t.set_as_id(asn_b); t }
                            2 => { let mut b4 = rpki::repository::roa::RoaIpAddressesBuilder::new(); b4.extend_from_slice(&l4);
                                   let mut b6 = rpki::repository::roa::RoaIpAddressesBuilder::default(); for x in &l6 { b6.push(*x) }
                                   RoaBuilder::with_addresses(asn_b, b4, b6) }
                            3 => { let mut t = RoaBuilder::new(asn_b); for x in &l6 { t.push_v6(*x) } for x in &l4 { t.push_v4(*x) } t }
                            4 => { let mut t = RoaBuilder::new(asn_b); t.set_as_id(asn_a); t.set_as_id(asn_b); t.extend_v4_from_slice(&l4); t.extend_v6_from_slice(&l6); t }
                            _ => { let mut t = RoaBuilder::new(asn_a); let n = l4.len().max(l6.len());
                                   for i in 0..n { if let Some(x) = l6.get(i) { t.v6_mut().push(*x) } if i == n / 2 { t.set_as_id(asn_b) } if let Some(x) = l4.get(i) { t.v4_mut().push(*x) } }
                                   t.set_as_id(asn_b); t }
                        };
                        let _ = &mut t;
                        if t.as_id() != direct.as_id() { r.fail("form_independent", "RoaBuilder::as_id differs") }
                        let att = |b: &RoaBuilder| { let mut o = obs_roa_content(&b.to_attestation()); o.put("v4.to_resources", || r_ipres(&b.v4().to_resources(), true));
                            o.put("v6.to_resources", || r_ipres(&b.v6().to_resources(), false)); o.put("v4.encode_ref", || hx(&cap(b.v4().encode_ref()))); o };
                        if let Some(x) = diff_l(&att(&direct), &att(&t), "direct", "sequence") { r.fail("form_independent", format!("builder state, direct vs sequence: {x}")) }
                        let dir = direct.finalize(so_b.builder(d), &signer, &Kid(0)).map_err(|e| e.to_string())?;
                        let built = t.finalize(so_b.builder(d), &signer, &Kid(0)).map_err(|e| e.to_string())?;
                        let Some((bytes, decoded)) = twin(&mut r, &built, |m| m.to_captured().as_slice().to_vec(), |x| Roa::decode(x, true).map_err(|e| e.to_string()), obs_roa) else { return Ok(()) };
                        form_check(&mut r, dir.to_captured().as_slice(), &bytes, &obs_roa(&dir), &obs_roa(&built));
                        validate_signed(d, &mut r, &bytes, &so_b);
                        if let Err(e) = decoded.process(&d.ta, true, |_| Ok(())) { r.fail("validate", format!("Roa::process: {e}")) }
                    }
                }
                Ok(())
            });
            match res { Ok(Ok(())) => {}, Ok(Err(e)) => r.fail("build", e), Err(p) => r.fail("build", p) }
            r
        });
    sp.done(true, &format!("{} setter sequences", cases.len()));
}


//============ Inputs made by the library's own constructors ==================
//
// `Validity::from_secs / from_duration`, `Time::tomorrow / next_week /
// next_year / years_from_now / years_from_date / five_minutes_*` and
// `Serial::short_random` produce builder inputs; the objects built from them
// go through the same oracles as everything else (validated at the wall
// clock, which these windows contain). The constructors themselves are
// bracketed by their definition in terms of `Time::now()` and chrono.

#[derive(Clone, Debug)]
struct MadeCase { obj: u8, input: usize }

fn between(lo: Time, x: Time, hi: Time) -> bool { lo <= x && x <= hi }

fn space_made_inputs(ctx: &Ctx, d: &Dom) {
    use chrono::{Datelike, TimeDelta};
    let sp = ctx.space("build.library_made_inputs",
        "validity windows from Validity::from_secs / from_duration (positive and negative), Time::{five_minutes_ago, tomorrow, next_week, next_year, years_from_now, now} and Time::years_from_date over 4 dates (one a leap day) x 4 year offsets; serials from Serial::short_random(len 0..=20) and Serial::random; the default signing time of SignedObjectBuilder::new -- each as input to a CA certificate, a CRL, a manifest, a bare signed object and a SignedMessage, judged by the usual oracles and validated at the wall clock (also through the wall-clock variants); the constructors are bracketed by Time::now() before/after and compared with chrono's own calendar arithmetic; a time with a sub-second part (anything derived from Time::now()) is outside the profile -- DER carries whole seconds -- so in this space, and only when the built value's time has a non-zero sub-second part, time-valued accessors are compared at whole seconds; those cases form the outcome class subsecond-input-truncated-by-der and the occurrences (plus from_duration bounds less than 1 s further apart than the duration, from its two clock readings) are counted in counted_not_judged, not judged; non-trivial = distinct (object, input) pairs; outcome = object kind / subsecond-input-truncated-by-der");
    let dates = [Time::utc(1950, 1, 1, 0, 0, 0), Time::utc(2023, 12, 31, 23, 59, 59), Time::utc(2024, 2, 29, 12, 34, 56), Time::utc(2049, 12, 31, 23, 59, 59)];
    let offs = [-5i32, 0, 1, 4];
    // input index -> (name, maker)
    let n_now = 9usize;
    let n_yfd = dates.len();
    let n_ser = 22usize;
    let input_name = |i: usize| -> String {
        if i < n_now { ["now-based Validity::from_secs(86400)", "now-based Validity::from_duration(365 d)", "now-based Validity::from_secs(-86400)", "now-based five_minutes_ago..tomorrow",
            "now-based five_minutes_ago..next_week", "now-based five_minutes_ago..next_year", "now-based five_minutes_ago..years_from_now(10)", "now-based now..five_minutes_from_now",
            "now-based SignedObjectBuilder default signing time"][i].to_string() }
        else if i < n_now + n_yfd { format!("years_from_date(-5 .. +4, {})", dates[i - n_now].to_rfc3339()) }
        else if i < n_now + n_yfd + 21 { format!("serial=short_random(len={})", i - n_now - n_yfd) }
        else { "serial=random".to_string() }
    };
    let mut cases = vec![];
    for obj in 0..5u8 { for i in 0..(n_now + n_yfd + n_ser) {
        let serial_input = i >= n_now + n_yfd;
        if serial_input && obj > 1 { continue }                 // serials: certificate and CRL number
        if i == 8 && !(obj == 2 || obj == 3) { continue }       // default signing time: signed objects only
        cases.push(MadeCase { obj, input: i });
    }}
    let obj_names = ["cert.ca", "crl", "manifest", "sigobj", "sigmsg"];
    let base_uri = d.dirs[1].clone();
    let probes: Vec<Serial> = d.serials.iter().map(|s| s.1).collect();
    run_cases(ctx, &sp, "made", &cases,
        |c| format!("{} input={}", obj_names[c.obj as usize], input_name(c.input)),
        |c| {
            let mut r = CaseResult::default();
            r.der_hash = fnv(format!("{}/{}", c.obj, c.input).as_bytes());
            WHOLE_SECONDS.with(|w| w.set((true, 0)));
            let mut apart = 0u64;
            let res = guard(|| -> Result<(), String> {
                let signer = CaseSigner::with_rand(&d.signer, 7, d.serials[5].1);
                // ---- the input, bracketed by its definition
                let t0 = Time::now();
                let mut validity = d.validity((1, 3));
                let mut serial = d.serials[3].1;
                let day = TimeDelta::try_days(1).unwrap(); let min5 = TimeDelta::try_minutes(5).unwrap();
                let mut bracket: Vec<(&str, Time, TimeDelta)> = vec![];   // (what, value, offset from now)
                match c.input {
                    0 => { validity = Validity::from_secs(86400); bracket.push(("from_secs.not_before", validity.not_before(), TimeDelta::zero())); bracket.push(("from_secs.not_after", validity.not_after(), day)) }
                    1 => { validity = Validity::from_duration(TimeDelta::try_days(365).unwrap()); bracket.push(("from_duration.not_before", validity.not_before(), TimeDelta::zero())); bracket.push(("from_duration.not_after", validity.not_after(), TimeDelta::try_days(365).unwrap())) }
                    2 => { validity = Validity::from_secs(-86400); bracket.push(("from_secs(-).not_before", validity.not_before(), -day)); bracket.push(("from_secs(-).not_after", validity.not_after(), TimeDelta::zero())) }
                    3 => { validity = Validity::new(Time::five_minutes_ago(), Time::tomorrow()); bracket.push(("five_minutes_ago", validity.not_before(), -min5)); bracket.push(("tomorrow", validity.not_after(), day)) }
                    4 => { validity = Validity::new(Time::five_minutes_ago(), Time::next_week()); bracket.push(("next_week", validity.not_after(), TimeDelta::try_weeks(1).unwrap())) }
                    5 => { validity = Validity::new(Time::five_minutes_ago(), Time::next_year()) }
                    6 => { validity = Validity::new(Time::five_minutes_ago(), Time::years_from_now(10)) }
                    7 => { validity = Validity::new(Time::now(), Time::five_minutes_from_now()); bracket.push(("five_minutes_from_now", validity.not_after(), min5)) }
                    8 => {}
                    i if i < n_now + n_yfd => {
                        let date = dates[i - n_now];
                        for &y in &offs {
                            let got = Time::years_from_date(y, *date);
                            // chrono's own arithmetic; a leap day is first moved to Feb 28 as the documentation says
                            let from = if date.month() == 2 && date.day() == 29 { *date - day } else { *date };
                            let want = from.with_year(from.year() + y).ok_or("chrono cannot shift the year")?;
                            if *got != want { r.fail("siblings", format!("years_from_date({y}, {}) = {} but chrono says {}", date.to_rfc3339(), got.to_rfc3339(), want.to_rfc3339())) }
                        }
                        validity = Validity::new(Time::years_from_date(-5, *dates[i - n_now]), Time::years_from_date(4, *dates[i - n_now]));
                    }
                    i if i < n_now + n_yfd + 21 => {
                        let len = i - n_now - n_yfd;
                        serial = Serial::short_random(&signer, len).map_err(|e| e.to_string())?;
                        let arr = serial.into_array();
                        if arr[..len].iter().any(|b| *b != 0) && len > 0 && !(len == 0) { r.fail("siblings", format!("short_random(len={len}) has non-zero octets in its first {len}: {}", hex(&arr))) }
                        if len == 0 && serial != Serial::random(&signer).map_err(|e| e.to_string())? { r.fail("siblings", "short_random(signer, 0) differs from random(signer) on the same octets") }
                    }
                    _ => { serial = Serial::random(&signer).map_err(|e| e.to_string())? }
                }
                let t1 = Time::now();
                // from_duration reads the clock twice: its bounds are |d| apart up to those two readings
                if c.input <= 2 {
                    let d_abs = [86400i64, 365 * 86400, 86400][c.input];
                    let diff = (*validity.not_after() - *validity.not_before()) - TimeDelta::try_seconds(d_abs).unwrap();
                    if diff.num_milliseconds().abs() >= 1000 { r.fail("siblings", format!("from_duration: bounds are {} ms further apart than the duration", diff.num_milliseconds())) }
                    else if !diff.is_zero() { apart += 1 }
                }
                for (what, x, off) in &bracket { if !between(t0 + *off, *x, t1 + *off) { r.fail("siblings", format!("{what} = {} is not now{:+}s", x.to_rfc3339(), off.num_seconds())) } }
                if c.input == 5 && !between(Time::years_from_date(1, *t0), validity.not_after(), Time::years_from_date(1, *t1)) { r.fail("siblings", "next_year() is not years_from_date(1, now)") }
                if c.input == 6 && !between(Time::years_from_date(10, *t0), validity.not_after(), Time::years_from_date(10, *t1)) { r.fail("siblings", "years_from_now(10) is not years_from_date(10, now)") }
                r.label = obj_names[c.obj as usize].to_string();
                // evaluation time: the wall clock for now-based windows, the window start otherwise
                let contains_now = validity.not_before() <= t1 && t1 <= validity.not_after();
                let when = if contains_now { Time::now() } else { validity.not_before() };
                // ---- the objects
                match c.obj {
                    0 => {
                        let mut t = CertSpec::base(CKind::Ca).build(d);
                        t.set_validity(validity); t.set_serial_number(serial);
                        let built = t.into_cert(&d.signer, &Kid(0)).map_err(|e| e.to_string())?;
                        let Some((_, decoded)) = twin(&mut r, &built, |c| c.to_captured().as_slice().to_vec(), |b| Cert::decode(b).map_err(|e| e.to_string()), obs_cert) else { return Ok(()) };
                        if let Err(e) = validate_cert(d, CKind::Ca, &decoded, when) { r.fail("validate", e) }
                        if let Some(x) = wallclock_cert(d, CKind::Ca, &decoded) { r.fail("wallclock", x) }
                        if contains_now { if let Err(e) = decoded.clone().validate_ca(&d.ta, true) { r.fail("validate", format!("validate_ca: {e}")) } }
                    }
                    1 => {
                        let built = TbsCertList::new(RpkiSignatureAlgorithm::default(), d.issuer_name(1, 0), validity.not_before(), validity.not_after(),
                            vec![CrlEntry::new(serial, validity.not_before())], d.signer.public(0).key_identifier(), serial).into_crl(&d.signer, &Kid(0)).map_err(|e| e.to_string())?;
                        let Some((_, decoded)) = twin(&mut r, &built, |m| m.to_captured().as_slice().to_vec(), |b| Crl::decode(b).map_err(|e| e.to_string()), |x| obs_crl(x, &probes)) else { return Ok(()) };
                        if let Err(e) = decoded.verify_signature(&d.signer.public(0)) { r.fail("validate", e.to_string()) }
                    }
                    2 | 3 => {
                        let so = SoSpec::base();
                        let mut b = SignedObjectBuilder::new(serial, validity, d.crls[1].clone(), d.cers[1].clone(), d.objs[1].clone());
                        if c.input != 8 { b.set_signing_time(validity.not_before()) }
                        let bytes = if c.obj == 2 {
                            let built = ManifestContent::new(serial, validity.not_before(), validity.not_after(), DigestAlgorithm::sha256(),
                                vec![FileAndHash::new(b"a.roa".to_vec(), sha256(b"a"))]).into_manifest(b, &so.signer(d), &Kid(0)).map_err(|e| e.to_string())?;
                            let Some((bytes, decoded)) = twin(&mut r, &built, |m| m.to_captured().as_slice().to_vec(), |x| Manifest::decode(x, true).map_err(|e| e.to_string()), |m| obs_manifest(m, &base_uri)) else { return Ok(()) };
                            if let Err(e) = decoded.clone().validate_at(&d.ta, true, when) { r.fail("validate", e.to_string()) }
                            if contains_now { if let Err(e) = decoded.validate(&d.ta, true) { r.fail("validate", format!("Manifest::validate: {e}")) } }
                            bytes
                        } else {
                            b.set_as_resources_inherit();
                            let ct = Oid(Bytes::copy_from_slice(&der::oid(&[1, 2, 840, 113549, 1, 9, 16, 1, 35])[2..]));
                            let built = b.finalize(ct, Bytes::from(der::seq(&[der::int_u(7)])), &so.signer(d), &Kid(0)).map_err(|e| e.to_string())?;
                            let Some((bytes, _)) = twin(&mut r, &built, |s| cap(s.encode_ref()), |x| SignedObject::decode(x, true).map_err(|e| e.to_string()), obs_sigobj) else { return Ok(()) };
                            bytes
                        };
                        let signed = SignedObject::decode(bytes.as_slice(), true).map_err(|e| e.to_string())?;
                        if let Err(e) = signed.clone().validate_at(&d.ta, true, when) { r.fail("validate", e.to_string()) }
                        if contains_now { if let Err(e) = signed.validate(&d.ta, true) { r.fail("validate", format!("SignedObject::validate: {e}")) } }
                    }
                    _ => {
                        let built = SignedMessage::create(Bytes::from_static(b"<msg/>"), validity, &Kid(0), &signer).map_err(|e| e.to_string())?;
                        let Some((_, decoded)) = twin(&mut r, &built, |m| m.to_captured().as_slice().to_vec(), |x| SignedMessage::decode(x, true).map_err(|e| e.to_string()), obs_sigmsg) else { return Ok(()) };
                        if let Err(e) = decoded.validate_at(&d.signer.public(0), when) { r.fail("validate", e.to_string()) }
                        if contains_now { if let Err(e) = decoded.validate(&d.signer.public(0)) { r.fail("validate", format!("SignedMessage::validate: {e}")) } }
                    }
                }
                Ok(())
            });
            match res { Ok(Ok(())) => {}, Ok(Err(e)) => r.fail("build", e), Err(p) => r.fail("build", p) }
            let dropped = WHOLE_SECONDS.with(|w| w.replace((false, 0))).1;
            if dropped > 0 { r.label = "subsecond-input-truncated-by-der".into() }
            r.counted = dropped + apart;
            r
        });
    sp.done(true, &format!("{} (object, input) pairs", cases.len()));
}


//============ Time values by the route that obtained them ====================
//
// A `Time` is a chrono value: besides the whole seconds that DER can carry it
// may hold a sub-second part, and chrono's representation of a leap second
// (second 59 with a nanosecond part of 1_000_000_000 or more). Such values are
// not made by `Time::utc` but by every other way of obtaining a `Time`:
// parsing RFC 3339 text ("23:59:60Z"), serde, `From<DateTime>`,
// `From<SystemTime>`, arithmetic. Every time-carrying builder field is fed
// every such value; the object must decode, re-encode to the same octets,
// agree with its twin at whole seconds (DER drops the fraction; a leap
// second denotes the :59 second it is folded onto, as chrono's `timestamp()`
// says) and validate at a whole-second instant that lies inside the window
// of the built value and of the twin alike.

struct TimeVal { t: Time, route: String, routes: usize, arithmetic_only: bool }

fn whole_second(ts: i64) -> Option<Time> { chrono::DateTime::<chrono::Utc>::from_timestamp(ts, 0).map(Time::new) }

fn time_class(t: Time) -> &'static str {
    match t.timestamp_subsec_nanos() { 0 => "whole second", n if n >= 1_000_000_000 => "leap second folded onto :59", _ => "sub-second part dropped by DER" }
}

fn r_time_val(t: Time) -> String { format!("{} ({}s+{}ns)", t.to_rfc3339_opts(chrono::SecondsFormat::AutoSi, true), t.timestamp(), t.timestamp_subsec_nanos()) }

/// anchors x sub-second forms x routes, reduced to distinct values (a `Time`
/// is nothing but its chrono value: `Eq`, `Copy`, no hidden state), each with
/// the first route that produced it. Returns (values, times obtained,
/// spellings refused / results outside years 1..=9999).
fn time_route_values() -> (Vec<TimeVal>, u64, u64) {
    use chrono::{DateTime, Datelike, FixedOffset, NaiveDate, SecondsFormat, TimeDelta, Utc};
    use std::time::{Duration, UNIX_EPOCH};
    let anchors: [(i32, u32, u32, u32, u32, u32); 14] = [(1, 1, 1, 0, 0, 0), (1949, 12, 31, 23, 59, 59), (1950, 1, 1, 0, 0, 0), (1969, 12, 31, 23, 59, 59), (1970, 1, 1, 0, 0, 0),
        (1972, 6, 30, 23, 59, 59), (2000, 2, 29, 23, 59, 59), (2016, 12, 31, 23, 59, 59), (2017, 1, 1, 0, 0, 0), (2024, 2, 29, 12, 34, 59), (2049, 12, 31, 23, 59, 59), (2050, 1, 1, 0, 0, 0),
        (2051, 6, 30, 23, 59, 59), (9999, 12, 31, 23, 59, 59)];
    let nanos = [0u32, 1, 500_000_000, 999_999_999, 1_000_000_000, 1_500_000_000, 1_999_999_999];
    let mut map: BTreeMap<(i64, u32), TimeVal> = BTreeMap::new();
    let (mut obtained, mut refused) = (0u64, 0u64);
    for &(y, mo, dd, h, mi, s) in &anchors { for &ns in &nanos {
        let leap = ns >= 1_000_000_000;
        if leap && s != 59 { continue }
        let ts = NaiveDate::from_ymd_opt(y, mo, dd).and_then(|x| x.and_hms_opt(h, mi, s)).expect("anchor").and_utc().timestamp();
        let Some(dt) = DateTime::<Utc>::from_timestamp(ts, ns) else { continue };
        let mut got: Vec<(String, Option<Time>, bool)> = vec![];
        got.push(("Time::new(DateTime::from_timestamp)".into(), Some(Time::new(dt)), false));
        got.push(("Time::from(DateTime<Utc>)".into(), Some(Time::from(dt)), false));
        if ns == 0 { got.push((format!("Time::utc({y}, {mo}, {dd}, {h}, {mi}, {s})"), guard(|| Time::utc(y, mo, dd, h, mi, s)).ok(), false)) }
        // RFC 3339 spellings: hand-written with Z (second 60 for the leap form), chrono's own with two offsets
        let frac = match ns % 1_000_000_000 { 0 => String::new(), 500_000_000 => ".5".into(), n => format!(".{n:09}") };
        let mut texts = vec![format!("{y:04}-{mo:02}-{dd:02}T{h:02}:{mi:02}:{:02}{frac}Z", if leap { 60 } else { s })];
        for off in [3600, -19800] { texts.push(dt.with_timezone(&FixedOffset::east_opt(off).unwrap()).to_rfc3339_opts(SecondsFormat::AutoSi, false)) }
        for text in &texts {
            got.push((format!("Time::from_str({text:?})"), guard(|| Time::from_str(text).ok()).ok().flatten(), false));
            got.push((format!("serde_json::from_str::<Time>({text:?})"), guard(|| serde_json::from_str::<Time>(&format!("\"{text}\"")).ok()).ok().flatten(), false));
        }
        let t0 = Time::new(dt);
        got.push(("serde_json to_string -> from_str".into(), guard(|| serde_json::to_string(&t0).ok().and_then(|j| serde_json::from_str::<Time>(&j).ok())).ok().flatten(), false));
        got.push(("Validity through serde_json, not_after()".into(), guard(|| serde_json::to_string(&Validity::new(t0, t0)).ok().and_then(|j| serde_json::from_str::<Validity>(&j).ok()).map(|v| v.not_after())).ok().flatten(), false));
        got.push(("Validity::new(t, t).not_before()".into(), Some(Validity::new(t0, t0).not_before()), false));
        if !leap {
            let st = if ts >= 0 { UNIX_EPOCH.checked_add(Duration::new(ts as u64, ns)) } else { UNIX_EPOCH.checked_sub(Duration::new((-ts) as u64, 0)).and_then(|x| x.checked_add(Duration::new(0, ns))) };
            if let Some(st) = st { got.push(("Time::from(SystemTime)".into(), guard(|| Time::from(st)).ok(), false)) }
        }
        got.push((format!("Time::years_from_date(0, {})", dt.to_rfc3339_opts(SecondsFormat::AutoSi, true)), guard(|| Time::years_from_date(0, dt)).ok(), false));
        for (name, dl) in [("1 ns", TimeDelta::nanoseconds(1)), ("0.5 s", TimeDelta::milliseconds(500)), ("1 s", TimeDelta::seconds(1)), ("1 day", TimeDelta::days(1))] {
            let at = dt.to_rfc3339_opts(SecondsFormat::AutoSi, true);
            got.push((format!("{at} + {name}"), guard(|| t0 + dl).ok(), true));
            got.push((format!("{at} - {name}"), guard(|| t0 - dl).ok(), true));
            got.push((format!("({at} - {name}) + {name}"), guard(|| (t0 - dl) + dl).ok(), true));
        }
        for (route, t, arith) in got {
            obtained += 1;
            let Some(t) = t else { refused += 1; continue };
            if !(1..=9999).contains(&t.year()) { refused += 1; continue }
            let e = map.entry((t.timestamp(), t.timestamp_subsec_nanos())).or_insert(TimeVal { t, route: route.clone(), routes: 0, arithmetic_only: true });
            e.routes += 1;
            if !arith { if e.arithmetic_only { e.route = route } e.arithmetic_only = false }
        }
    }}
    (map.into_values().collect(), obtained, refused)
}

#[derive(Clone, Copy, Debug, PartialEq, Eq)]
enum TObj { Cert(CKind), Crl, Manifest, SigObj, Roa, Aspa, IdTa, IdEe, SigMsg, ProvCms }

/// Where the value goes relative to the window it belongs to.
#[derive(Clone, Copy, Debug, PartialEq, Eq)]
enum Place { Lower, Upper, Both, Free }

struct Placed { lo: Time, hi: Time, when: Time, judge_built: bool }

/// The other bound and the whole-second instant of validation: for a lower
/// bound T the first whole second that is not before T (a leap second: the
/// :00 after it), for an upper bound the whole second T falls into. None:
/// no such instant exists within years 1..=9999 (not a case).
fn place(t: Time, p: Place) -> Option<Placed> {
    let (l0, h0) = (Time::utc(2020, 1, 1, 0, 0, 0), Time::utc(2030, 1, 1, 0, 0, 0));
    let (min, max) = (Time::utc(1, 1, 1, 0, 0, 0), Time::utc(9999, 12, 31, 23, 59, 59));
    let floor = whole_second(t.timestamp())?;
    let ceil = if t.timestamp_subsec_nanos() == 0 { t } else { whole_second(t.timestamp() + 1)? };
    match p {
        Place::Lower => { let hi = if ceil <= h0 { h0 } else if ceil <= max { max } else { return None }; Some(Placed { lo: t, hi, when: ceil, judge_built: true }) }
        Place::Upper => Some(Placed { lo: if l0 <= floor { l0 } else { min }, hi: t, when: floor, judge_built: true }),
        Place::Both => Some(Placed { lo: t, hi: t, when: floor, judge_built: t.timestamp_subsec_nanos() == 0 }),
        Place::Free => Some(Placed { lo: l0, hi: h0, when: Time::utc(2025, 1, 1, 0, 0, 0), judge_built: true }),
    }
}

/// (field name, placement) per object; the index is the field code.
fn time_fields(o: TObj) -> Vec<(&'static str, Place)> {
    use Place::*;
    match o {
        TObj::Cert(_) => vec![("TbsCert::new(validity).not_before", Lower), ("TbsCert::new(validity).not_after", Upper), ("set_validity.not_before", Lower), ("set_validity.not_after", Upper), ("TbsCert::new(validity) both bounds", Both)],
        TObj::Crl => vec![("TbsCertList::new this_update", Lower), ("TbsCertList::new next_update", Upper), ("set_this_update", Lower), ("set_next_update", Upper), ("revocation date of the only entry", Free),
            ("revocation date of the first of 3 entries", Free), ("revocation date of the last of 3 entries", Free), ("this_update = next_update = the revocation date", Both)],
        TObj::Manifest | TObj::SigObj | TObj::Roa | TObj::Aspa => {
            let mut v = vec![("SignedObjectBuilder::new(validity).not_before", Lower), ("SignedObjectBuilder::new(validity).not_after", Upper), ("SignedObjectBuilder::set_validity.not_before", Lower),
                ("SignedObjectBuilder::set_validity.not_after", Upper), ("set_signing_time", Free), ("EE not_before = not_after = signing time", Both)];
            if o == TObj::Manifest { v.extend([("ManifestContent::new this_update", Lower), ("ManifestContent::new next_update", Upper), ("ManifestContent::new this_update = next_update", Both)]) }
            v
        }
        TObj::IdTa | TObj::IdEe | TObj::SigMsg => vec![("validity.not_before", Lower), ("validity.not_after", Upper), ("validity both bounds", Both)],
        TObj::ProvCms => vec![("list response: ResourceClassEntitlements::new not_after", Free)],
    }
}

fn tobj_name(o: TObj) -> &'static str {
    match o { TObj::Cert(CKind::Ta) => "cert.ta", TObj::Cert(CKind::Ca) => "cert.ca", TObj::Cert(CKind::Ee) => "cert.ee", TObj::Cert(CKind::Router) => "cert.router", TObj::Crl => "crl",
        TObj::Manifest => "manifest", TObj::SigObj => "sigobj", TObj::Roa => "roa", TObj::Aspa => "aspa", TObj::IdTa => "idcert.ta", TObj::IdEe => "idcert.ee", TObj::SigMsg => "sigmsg", TObj::ProvCms => "provisioning.cms" }
}

#[derive(Clone, Debug)]
struct TimeCase { obj: TObj, field: usize, val: usize }

fn space_time_routes(ctx: &Ctx, d: &Dom) {
    let sp = ctx.space("build.time_value_routes",
        "every time-carrying builder field x every Time value by the route that obtained it. Values: 14 anchor seconds (first / last encodable year, both UTCTime pivots on both sides, the epoch on both sides, real leap-second dates, a leap day, a mid-day :59) x sub-second parts {0, 1 ns, .5, .999999999} and chrono's leap-second form (second 59 + 1.0 / 1.5 / 1.999999999 s) x routes {Time::new / Time::from(chrono value), Time::utc, Time::from_str and serde_json over RFC 3339 spellings (Z with the second written 60, +01:00, -05:30), serde round trips of Time and Validity, From<SystemTime>, Validity::new accessors, years_from_date(0, ..), t +- d and (t - d) + d for d in {1 ns, 0.5 s, 1 s, 1 day}}, reduced to distinct values within years 1..=9999 (a Time is nothing but its chrono value); quick feeds the values that only arithmetic produces to one field per encoding site and placement (CA certificate, CRL, manifest content, signing time, identity TA certificate, signed message), thorough to every field. Fields: certificate validity (TA / CA / EE / router: each bound through TbsCert::new and through set_validity, both bounds), CRL this_update / next_update (constructor and setters), revocation date (only / first / last entry), all three at once; manifest, bare signed object, ROA, ASPA: EE validity bounds (SignedObjectBuilder::new and set_validity), signing time, all at once, manifest this_update / next_update / both; IdCert::new_ta / new_ee and SignedMessage::create validity bounds (the message's EE certificate and CRL); the not_after of a resource class in a provisioning list response (RFC 3339 text inside the signed XML: compared exactly). The other bound of a window is a fixed instant on the right side of the value. Oracles: decode, re-encode, built-vs-twin accessor agreement with times compared at whole seconds (a leap second denotes the :59 it is folded onto; a verdict asked at a fixed instant inside the very second whose fraction DER dropped is counted, not compared), validation of twin and built value at a whole-second instant inside both windows (lower bound: first whole second not before it; upper bound: the second it falls into). non-trivial = distinct DER; outcome = kind of value");
    let thorough = ctx.tier.is_thorough();
    let (all_vals, obtained, refused) = time_route_values();
    let vals: Vec<&TimeVal> = all_vals.iter().collect();
    let objs = [TObj::Cert(CKind::Ta), TObj::Cert(CKind::Ca), TObj::Cert(CKind::Ee), TObj::Cert(CKind::Router), TObj::Crl, TObj::Manifest, TObj::SigObj, TObj::Roa, TObj::Aspa, TObj::IdTa, TObj::IdEe, TObj::SigMsg, TObj::ProvCms];
    let mut cases = vec![];
    let mut outside = 0u64;
    let mut slots = 0usize;
    for &obj in &objs { for (field, (_, pl)) in time_fields(obj).into_iter().enumerate() {
        // quick: the values only arithmetic produces go into one slot per encoding site and placement
        let core = match obj { TObj::Cert(CKind::Ca) | TObj::IdTa | TObj::SigMsg => field <= 1, TObj::Crl => matches!(field, 0 | 1 | 4), TObj::Manifest => matches!(field, 6 | 7), TObj::SigObj => field == 4, TObj::ProvCms => true, _ => false };
        slots += 1;
        for val in 0..vals.len() {
            if vals[val].arithmetic_only && !thorough && !core { continue }
            if place(vals[val].t, pl).is_some() { cases.push(TimeCase { obj, field, val }) } else { outside += 1 }
        }
    }}
    let probes: Vec<Serial> = d.serials.iter().map(|s| s.1).collect();
    let base_uri = d.dirs[1].clone();
    run_cases(ctx, &sp, "time_routes", &cases,
        |c| { let v = vals[c.val]; let (name, pl) = time_fields(c.obj)[c.field]; let p = place(v.t, pl).expect("placed");
            format!("{} field=[{}] time={} [{}] obtained by {}{}; window {} .. {}; validated at {}", tobj_name(c.obj), name, r_time_val(v.t), time_class(v.t), v.route,
                if v.routes > 1 { format!(" (and {} more routes)", v.routes - 1) } else { String::new() }, r_time_val(p.lo), r_time_val(p.hi), r_time_val(p.when)) },
        |c| {
            let mut r = CaseResult::default();
            let t = vals[c.val].t;
            let (_, pl) = time_fields(c.obj)[c.field];
            let p = place(t, pl).expect("placed");
            r.label = time_class(t).to_string();
            WHOLE_SECONDS.with(|w| w.set((true, 0)));
            TRUNCATED_SECOND.with(|w| w.set((if t.timestamp_subsec_nanos() != 0 { Some(t.timestamp()) } else { None }, 0)));
            let window = Validity::new(p.lo, p.hi);
            let fixed = Validity::new(Time::utc(2020, 1, 1, 0, 0, 0), Time::utc(2030, 1, 1, 0, 0, 0));
            let mid = Time::utc(2025, 1, 1, 0, 0, 0);
            let res = guard(|| -> Result<(), String> {
                // the EE side of the four signed-object kinds
                let so_builder = |field: usize| -> (SignedObjectBuilder, Time) {
                    let via_set = field == 2 || field == 3;
                    let ee = if field <= 3 || field == 5 { window } else { fixed };
                    let mut b = SignedObjectBuilder::new(d.serials[3].1, if via_set { fixed } else { ee }, d.crls[1].clone(), d.cers[1].clone(), d.objs[1].clone());
                    if via_set { b.set_validity(ee) }
                    b.set_issuer(d.name_opt(1)); b.set_subject(d.name_opt(2));
                    b.set_signing_time(if field == 4 || field == 5 { t } else { mid });
                    (b, if field <= 3 || field == 5 { p.when } else { mid })
                };
                let signer = CaseSigner::with_rand(&d.signer, 7, d.serials[3].1);
                let signed_verdict = |r: &mut CaseResult, bytes: &[u8], when: Time| {
                    match guard(|| SignedObject::decode(bytes, true).map_err(|e| e.to_string()).and_then(|s| s.validate_at(&d.ta, true, when).map(|_| ()).map_err(|e| e.to_string()))) {
                        Ok(Ok(())) => {}, Ok(Err(e)) => r.fail("validate", format!("decoded twin at {}: {e}", r_time_val(when))), Err(q) => r.fail("validate", q) }
                };
                match c.obj {
                    TObj::Cert(kind) => {
                        let via_set = c.field == 2 || c.field == 3;
                        let spec = CertSpec { validity_x: if via_set { None } else { Some(window) }, ..CertSpec::base(kind) };
                        let mut tbs = spec.build(d);
                        if via_set { tbs.set_validity(window) }
                        let built = tbs.into_cert(&d.signer, &Kid(0)).map_err(|e| e.to_string())?;
                        let Some((_, decoded)) = twin(&mut r, &built, |c| c.to_captured().as_slice().to_vec(), |b| Cert::decode(b).map_err(|e| e.to_string()), obs_cert) else { return Ok(()) };
                        if let Err(e) = validate_cert(d, kind, &decoded, p.when) { r.fail("validate", format!("decoded twin at {}: {e}", r_time_val(p.when))) }
                        else if p.judge_built { if let Err(e) = validate_cert(d, kind, &built, p.when) { r.fail("accessors", format!("built value rejected at {} where its twin validates: {e}", r_time_val(p.when))) } }
                    }
                    TObj::Crl => {
                        let other = |i: u64| CrlEntry::new(Serial::from(i), mid);
                        let entries = match c.field { 4 | 7 => vec![CrlEntry::new(d.serials[3].1, t)], 5 => vec![CrlEntry::new(d.serials[3].1, t), other(200), other(300)],
                            6 => vec![other(100), other(110), CrlEntry::new(d.serials[3].1, t)], _ => vec![other(100), other(200)] };
                        let w = if matches!(c.field, 4..=6) { fixed } else { window };
                        let via_set = c.field == 2 || c.field == 3;
                        let mut tbs = TbsCertList::new(RpkiSignatureAlgorithm::default(), d.issuer_name(1, 0), if via_set { fixed.not_before() } else { w.not_before() }, if via_set { fixed.not_after() } else { w.not_after() },
                            entries, d.signer.public(0).key_identifier(), d.serials[3].1);
                        if via_set { tbs.set_this_update(w.not_before()); tbs.set_next_update(w.not_after()) }
                        let built = tbs.into_crl(&d.signer, &Kid(0)).map_err(|e| e.to_string())?;
                        let Some((_, decoded)) = twin(&mut r, &built, |m| m.to_captured().as_slice().to_vec(), |b| Crl::decode(b).map_err(|e| e.to_string()), |x| obs_crl(x, &probes)) else { return Ok(()) };
                        if let Err(e) = decoded.verify_signature(&d.signer.public(0)) { r.fail("validate", e.to_string()) }
                    }
                    TObj::Manifest => {
                        let (b, when) = so_builder(c.field);
                        let mw = if c.field >= 6 { window } else { fixed };
                        let built = ManifestContent::new(d.serials[3].1, mw.not_before(), mw.not_after(), DigestAlgorithm::sha256(), vec![FileAndHash::new(b"a.roa".to_vec(), sha256(b"a"))])
                            .into_manifest(b, &signer, &Kid(0)).map_err(|e| e.to_string())?;
                        let Some((bytes, decoded)) = twin(&mut r, &built, |m| m.to_captured().as_slice().to_vec(), |x| Manifest::decode(x, true).map_err(|e| e.to_string()), |m| obs_manifest(m, &base_uri)) else { return Ok(()) };
                        signed_verdict(&mut r, &bytes, when);
                        if let Err(e) = decoded.validate_at(&d.ta, true, when) { r.fail("validate", format!("Manifest::validate_at({}): {e}", r_time_val(when))) }
                        else if p.judge_built { if let Err(e) = built.validate_at(&d.ta, true, when) { r.fail("accessors", format!("built manifest rejected at {} where its twin validates: {e}", r_time_val(when))) } }
                    }
                    TObj::SigObj => {
                        let (mut b, when) = so_builder(c.field);
                        b.set_as_resources_inherit();
                        let ct = Oid(Bytes::copy_from_slice(&der::oid(&[1, 2, 840, 113549, 1, 9, 16, 1, 35])[2..]));
                        let built = b.finalize(ct, Bytes::from(der::seq(&[der::int_u(7)])), &signer, &Kid(0)).map_err(|e| e.to_string())?;
                        let Some((bytes, _)) = twin(&mut r, &built, |s| cap(s.encode_ref()), |x| SignedObject::decode(x, true).map_err(|e| e.to_string()), obs_sigobj) else { return Ok(()) };
                        signed_verdict(&mut r, &bytes, when);
                        if r.fails.is_empty() && p.judge_built { if let Err(e) = built.validate_at(&d.ta, true, when) { r.fail("accessors", format!("built object rejected at {} where its twin validates: {e}", r_time_val(when))) } }
                    }
                    TObj::Roa => {
                        let (b, when) = so_builder(c.field);
                        let mut rb = RoaBuilder::new(Asn::from_u32(65536));
                        rb.push_v4(roa_alphabet(true)[1]); rb.push_v6(roa_alphabet(false)[1]);
                        let built = rb.finalize(b, &signer, &Kid(0)).map_err(|e| e.to_string())?;
                        let Some((bytes, _)) = twin(&mut r, &built, |m| m.to_captured().as_slice().to_vec(), |x| Roa::decode(x, true).map_err(|e| e.to_string()), obs_roa) else { return Ok(()) };
                        signed_verdict(&mut r, &bytes, when);
                    }
                    TObj::Aspa => {
                        let (b, when) = so_builder(c.field);
                        let ab = AspaBuilder::new(Asn::from_u32(65536), vec![Asn::from_u32(1), Asn::from_u32(65535)]).map_err(|e| e.to_string())?;
                        let built = ab.finalize(b, &signer, &Kid(0)).map_err(|e| e.to_string())?;
                        let Some((bytes, _)) = twin(&mut r, &built, |m| m.to_captured().as_slice().to_vec(), |x| Aspa::decode(x, true).map_err(|e| e.to_string()), obs_aspa) else { return Ok(()) };
                        signed_verdict(&mut r, &bytes, when);
                    }
                    TObj::IdTa | TObj::IdEe => {
                        let ta = c.obj == TObj::IdTa;
                        let key = d.signer.public(0);
                        let built = if ta { IdCert::new_ta(window, &Kid(0), &signer) } else { IdCert::new_ee(&d.signer.public(3), window, &Kid(0), &signer) }.map_err(|e| e.to_string())?;
                        let Some((_, decoded)) = twin(&mut r, &built, |m| m.to_captured().as_slice().to_vec(), |b| IdCert::decode(b).map_err(|e| e.to_string()), obs_idcert) else { return Ok(()) };
                        let verdict = |x: &IdCert| if ta { x.validate_ta_at(p.when) } else { x.validate_ee_at(&key, p.when) };
                        if let Err(e) = verdict(&decoded) { r.fail("validate", format!("decoded twin at {}: {e}", r_time_val(p.when))) }
                        else if p.judge_built { if let Err(e) = verdict(&built) { r.fail("accessors", format!("built value rejected at {} where its twin validates: {e}", r_time_val(p.when))) } }
                    }
                    TObj::SigMsg => {
                        let key = d.signer.public(0);
                        let built = SignedMessage::create(Bytes::from_static(b"<msg/>"), window, &Kid(0), &signer).map_err(|e| e.to_string())?;
                        let Some((_, decoded)) = twin(&mut r, &built, |m| m.to_captured().as_slice().to_vec(), |x| SignedMessage::decode(x, true).map_err(|e| e.to_string()), obs_sigmsg) else { return Ok(()) };
                        if let Err(e) = decoded.validate_at(&key, p.when) { r.fail("validate", format!("decoded twin at {}: {e}", r_time_val(p.when))) }
                        else if p.judge_built { if let Err(e) = built.validate_at(&key, p.when) { r.fail("accessors", format!("built message rejected at {} where its twin validates: {e}", r_time_val(p.when))) } }
                    }
                    TObj::ProvCms => {
                        // the time travels as RFC 3339 text inside the signed XML: nothing is dropped, the twin's message must be equal
                        let ent = provisioning::ResourceClassEntitlements::new(provisioning::ResourceClassName::from("rc-0"),
                            rpki::repository::resources::ResourceSet::from_strs("AS64496-AS64511", "10.0.0.0/8", "2001:db8::/32").map_err(|e| e.to_string())?, t, vec![],
                            provisioning::SigningCert::new(d.cers[1].clone(), d.ta.as_cert().clone()));
                        let msg = provisioning::Message::list_response(SenderHandle::from_str("child-1").unwrap(), RecipientHandle::from_str("Parent_A/b").unwrap(), provisioning::ResourceClassListResponse::new(vec![ent]));
                        let built = ProvisioningCms::create(msg, &Kid(0), &signer).map_err(|e| e.to_string())?;
                        let bytes = match guard(|| built.to_bytes()) { Ok(b) => b, Err(q) => { r.fail("encode", q); return Ok(()) } };
                        r.der_hash = fnv(format!("{}+{}", t.timestamp(), t.timestamp_subsec_nanos()).as_bytes());   // signing time and CRL number come from the clock
                        let decoded = match guard(|| ProvisioningCms::decode(&bytes)) { Ok(Ok(x)) => x, Ok(Err(e)) => { r.fail("decode", e.to_string()); return Ok(()) } Err(q) => { r.fail("decode", q); return Ok(()) } };
                        if let Err(e) = decoded.validate_at(&d.signer.public(0), Time::now()) { r.fail("validate", e.to_string()) }
                        let ob = |x: &ProvisioningCms| { let mut o = Obs::new(); o.put("message", || format!("{:?}", x.message())); o.put("message.to_xml", || x.message().to_xml_string()); o };
                        if let Some(x) = diff(&ob(&built), &ob(&decoded)) { r.fail("accessors", x) }
                        if built.message() != decoded.message() { r.fail("accessors", "Message == says the built message and its twin differ") }
                    }
                }
                Ok(())
            });
            match res { Ok(Ok(())) => {}, Ok(Err(e)) => r.fail("build", e), Err(q) => r.fail("build", q) }
            r.counted = WHOLE_SECONDS.with(|w| w.replace((false, 0))).1 + TRUNCATED_SECOND.with(|w| w.replace((None, 0))).1;
            r
        });
    sp.set("time_values", serde_json::json!({ "distinct_used": vals.len(), "distinct_all_routes": all_vals.len(), "obtained_through_routes": obtained, "refused_or_outside_years_1_9999": refused,
        "leap_second_form": vals.iter().filter(|v| v.t.timestamp_subsec_nanos() >= 1_000_000_000).count(), "sub_second": vals.iter().filter(|v| (1..1_000_000_000).contains(&v.t.timestamp_subsec_nanos())).count() }));
    sp.set("field_slots", serde_json::json!(slots));
    sp.set("placements_without_a_whole_second_inside_years_1_9999", serde_json::json!(outside));
    sp.done(true, &format!("{} field slots x {} distinct values ({} times obtained through the routes; {} of the values from arithmetic only{}) = {} cases", slots, vals.len(), obtained,
        vals.iter().filter(|v| v.arithmetic_only).count(), if thorough { "" } else { ", those in 14 slots" }, cases.len()));
}


//============ Re-issue from decoded foreign objects ==========================
//
// Builder inputs that only decoding produces: a foreign object -- the same
// object another implementation would have published, in every benign
// spelling this file knows (AlgorithmIdentifier with / without NULL
// parameters inside and outside, UTCTime / GeneralizedTime for the same
// instant, attribute order inside a name) -- is decoded, and what was decoded
// is fed back into the builders: the decoded TbsCert cloned, modified and
// re-issued with into_cert; TbsCertList::new from a decoded CRL's fields;
// manifests and ROAs re-issued from decoded contents and the decoded EE
// certificate's fields; a decoded CSR turned into a certificate. A spelling
// the library's own decoder or validator refuses is not an input (counted as
// an outcome, not judged); every re-issued object is judged by the usual
// oracles.

/// Re-encodes a TLV tree, replacing nodes for which `f` returns octets.
fn respell(buf: &[u8], node: &der::Node, path: &mut Vec<usize>, f: &dyn Fn(&[usize], &der::Node) -> Option<Vec<u8>>) -> Vec<u8> {
    if let Some(x) = f(path, node) { return x }
    if node.constructed() && !node.children.is_empty() {
        let mut body = vec![];
        for (i, c) in node.children.iter().enumerate() { path.push(i); body.extend(respell(buf, c, path, f)); path.pop(); }
        der::tlv(node.tag, &body)
    } else { node.whole(buf).to_vec() }
}

/// spelling bits: 1 = inner AlgorithmIdentifier without NULL, 2 = outer
/// without NULL, 4 = UTCTime values written as GeneralizedTime, 8 = the
/// attributes of a two-attribute RDN swapped
const SPELLINGS: usize = 16;
fn spelling_name(sp: usize) -> String {
    let mut v = vec![];
    if sp & 1 != 0 { v.push("inner-alg-no-NULL") } if sp & 2 != 0 { v.push("outer-alg-no-NULL") }
    if sp & 4 != 0 { v.push("GeneralizedTime-for-UTCTime") } if sp & 8 != 0 { v.push("RDN-attributes-swapped") }
    if v.is_empty() { "as-built".into() } else { v.join("+") }
}
fn alg_no_null() -> Vec<u8> { der::seq(&[der::oid(der::OID_SHA256_WITH_RSA)]) }

/// Respells a signed X.509 structure SEQUENCE { tbs, alg, signature } (a
/// certificate when `cert`, else a CRL) and signs it again with `key`.
fn respell_x509(d: &Dom, bytes: &[u8], cert: bool, sp: usize, key: usize) -> Option<Vec<u8>> {
    let root = der::parse_one(bytes, false)?;
    let tbs = root.children.first()?;
    let alg_ix = if cert { 2 } else { 1 };
    let f = |path: &[usize], n: &der::Node| -> Option<Vec<u8>> {
        if path == [alg_ix] && sp & 1 != 0 { return Some(alg_no_null()) }
        if n.tag == der::T_UTCTIME && sp & 4 != 0 {
            let t = n.content(bytes); let yy = (t[0] - b'0') * 10 + (t[1] - b'0');
            let mut g = if yy >= 50 { b"19".to_vec() } else { b"20".to_vec() }; g.extend_from_slice(t);
            return Some(der::tlv(der::T_GENTIME, &g))
        }
        if n.tag == der::T_SET && n.children.len() == 2 && sp & 8 != 0 {
            return Some(der::tlv(der::T_SET, &[n.children[1].whole(bytes), n.children[0].whole(bytes)].concat()))
        }
        None
    };
    let new_tbs = respell(bytes, tbs, &mut vec![], &f);
    let sig = d.signer.sign_raw(key, &new_tbs);
    let outer = if sp & 2 != 0 { alg_no_null() } else { der::alg_sha256_with_rsa() };
    Some(der::seq(&[new_tbs, outer, der::bitstring(0, &sig)]))
}

/// Respells the EE certificate inside a signed object (and, with bit 1, the
/// digest AlgorithmIdentifiers' NULL is left alone: CMS spellings are C02's).
fn respell_cms(d: &Dom, bytes: &[u8], sp: usize) -> Option<Vec<u8>> {
    let root = der::parse_one(bytes, false)?;
    // ContentInfo { oid, [0] { SignedData { version, digestAlgs, encap, [0] certs { cert }, signerInfos } } }
    let cert_path = [1usize, 0, 3, 0];
    let mut n = &root; for &i in &cert_path { n = n.children.get(i)? }
    let cert = respell_x509(d, n.whole(bytes), true, sp, 0)?;
    let f = |path: &[usize], _: &der::Node| if path == cert_path { Some(cert.clone()) } else { None };
    Some(respell(bytes, &root, &mut vec![], &f))
}

#[derive(Clone, Debug)]
struct ReissueCase { obj: u8, spelling: usize, modify: u8 }

fn space_reissue(ctx: &Ctx, d: &Dom) {
    let sp = ctx.space("build.reissue_from_decoded",
        "foreign objects = library-built DER respelled with engine::der in 16 spellings (inner / outer AlgorithmIdentifier with or without NULL, UTCTime written as GeneralizedTime, RDN attributes swapped) and signed again; each spelling the library's decoder and validator accept is decoded and fed back into the builders: CA / EE / TA / router TbsCert cloned from the decoded certificate x {unchanged, new serial, new validity, new serial + key + names} -> into_cert; TbsCertList::new from the decoded CRL's signature(), issuer(), times, entries iterator, AKI and number x {unchanged, new number + times, set_signature(decoded value) on a fresh list}; manifest and ROA re-issued from decoded content with a SignedObjectBuilder filled from the decoded EE certificate; a decoded CSR turned into a CA certificate; all judged by decode / re-encode / accessor agreement / validation; refused spellings are an outcome class, not judged; non-trivial = distinct DER; outcome = object kind + accepted/refused spelling");
    let kinds = [CKind::Ca, CKind::Ee, CKind::Ta, CKind::Router];
    let mut cases = vec![];
    for obj in 0..8u8 { for spelling in 0..SPELLINGS { for modify in 0..4u8 {
        if obj >= 4 && modify >= 3 { continue }
        if obj == 7 && spelling & !3 != 0 { continue }            // CSR: only the algorithm identifiers are spelled
        cases.push(ReissueCase { obj, spelling, modify });
    }}}
    let obj_names = ["cert.ca", "cert.ee", "cert.ta", "cert.router", "crl", "manifest", "roa", "csr->cert"];
    let probes: Vec<Serial> = d.serials.iter().map(|s| s.1).collect();
    let base_uri = d.dirs[1].clone();
    let files = mft_files();
    let a4 = roa_alphabet(true);
    let so = SoSpec::base();
    run_cases(ctx, &sp, "reissue", &cases,
        |c| format!("{} foreign spelling={} modification#{}", obj_names[c.obj as usize], spelling_name(c.spelling), c.modify),
        |c| {
            let mut r = CaseResult::default();
            r.label = format!("{} spelling accepted", obj_names[c.obj as usize]);
            let refused = |r: &mut CaseResult, why: String| { r.label = format!("{} foreign spelling refused by the library ({})", obj_names[c.obj as usize], rpki_verif::trunc(&why, 60)); };
            let now = d.instants[1];
            let res = guard(|| -> Result<(), String> {
                let signer = so.signer(d);
                match c.obj {
                    0..=3 => {
                        let kind = kinds[c.obj as usize];
                        let spec = CertSpec::base(kind);
                        let skey = if kind == CKind::Ta { spec.subject_key } else { 0 };
                        let orig = spec.build(d).into_cert(&d.signer, &Kid(skey)).map_err(|e| e.to_string())?;
                        let foreign = respell_x509(d, orig.to_captured().as_slice(), true, c.spelling, skey).ok_or("respell failed")?;
                        let f = match Cert::decode(foreign.as_slice()) { Ok(f) => f, Err(e) => { refused(&mut r, e.to_string()); return Ok(()) } };
                        if let Err(e) = validate_cert(d, kind, &f, now) { refused(&mut r, e); return Ok(()) }
                        let mut t: TbsCert = { let x: &TbsCert = f.as_ref(); x.clone() };
                        let mut k2 = skey;
                        match c.modify {
                            0 => {}
                            1 => t.set_serial_number(d.serials[5].1),
                            2 => t.set_validity(d.validity((0, 4))),
                            _ => { t.set_serial_number(d.serials[0].1);
                                   if kind != CKind::Router { t.set_subject_public_key(d.signer.public(5)); if kind == CKind::Ta { k2 = 5; t.set_issuer(d.xnames[0].1.clone()) } }
                                   t.set_subject(d.xnames[0].1.clone()) }
                        }
                        let built = t.into_cert(&d.signer, &Kid(k2)).map_err(|e| e.to_string())?;
                        let Some((_, decoded)) = twin(&mut r, &built, |c| c.to_captured().as_slice().to_vec(), |b| Cert::decode(b).map_err(|e| e.to_string()), obs_cert) else { return Ok(()) };
                        if let Err(e) = validate_cert(d, kind, &decoded, now) { r.fail("validate", format!("re-issued certificate, decoded twin: {e}")) }
                        if let Err(e) = validate_cert(d, kind, &built, now) { r.fail("validate", format!("re-issued certificate, built value: {e}")) }
                    }
                    4 => {
                        let ents = vec![CrlEntry::new(d.serials[3].1, d.instants[3]), CrlEntry::new(d.serials[0].1, d.instants[1])];
                        let orig = TbsCertList::new(RpkiSignatureAlgorithm::default(), d.issuer_name(2, 0), d.instants[1], d.instants[2], ents, d.signer.public(0).key_identifier(), d.serials[3].1)
                            .into_crl(&d.signer, &Kid(0)).map_err(|e| e.to_string())?;
                        let foreign = respell_x509(d, orig.to_captured().as_slice(), false, c.spelling, 0).ok_or("respell failed")?;
                        let f = match Crl::decode(foreign.as_slice()) { Ok(f) => f, Err(e) => { refused(&mut r, e.to_string()); return Ok(()) } };
                        if let Err(e) = f.verify_signature(&d.signer.public(0)) { refused(&mut r, e.to_string()); return Ok(()) }
                        let mut t = match c.modify {
                            2 => { let mut t = TbsCertList::new(RpkiSignatureAlgorithm::default(), f.issuer().clone(), f.this_update(), f.next_update(), f.revoked_certs().iter(), *f.authority_key_identifier(), f.crl_number());
                                   t.set_signature(f.signature()); t }
                            _ => TbsCertList::new(f.signature(), f.issuer().clone(), f.this_update(), f.next_update(), f.revoked_certs().iter(), *f.authority_key_identifier(), f.crl_number()),
                        };
                        if c.modify == 1 { t.set_crl_number(d.serials[5].1); t.set_this_update(d.instants[2]); t.set_next_update(d.instants[3]) }
                        let built = t.into_crl(&d.signer, &Kid(0)).map_err(|e| e.to_string())?;
                        let Some((_, decoded)) = twin(&mut r, &built, |m| m.to_captured().as_slice().to_vec(), |b| Crl::decode(b).map_err(|e| e.to_string()), |x| obs_crl(x, &probes)) else { return Ok(()) };
                        if let Err(e) = decoded.verify_signature(&d.signer.public(0)) { r.fail("validate", e.to_string()) }
                    }
                    5 | 6 => {
                        // the foreign signed object and its decoded EE certificate
                        let orig_bytes: Vec<u8> = if c.obj == 5 {
                            ManifestContent::new(d.serials[3].1, d.instants[1], d.instants[2], DigestAlgorithm::sha256(),
                                [0usize, 3, 5].iter().map(|&i| FileAndHash::new(files[i].0.clone(), files[i].1.clone())))
                                .into_manifest(so.builder(d), &signer, &Kid(0)).map_err(|e| e.to_string())?.to_captured().as_slice().to_vec()
                        } else {
                            let mut b = RoaBuilder::new(Asn::from_u32(65536)); for i in [1usize, 0, 7] { b.push_v4(a4[i]) }
                            b.finalize(so.builder(d), &signer, &Kid(0)).map_err(|e| e.to_string())?.to_captured().as_slice().to_vec()
                        };
                        let foreign = respell_cms(d, &orig_bytes, c.spelling).ok_or("respell failed")?;
                        let fs = match SignedObject::decode(foreign.as_slice(), true) { Ok(f) => f, Err(e) => { refused(&mut r, e.to_string()); return Ok(()) } };
                        if let Err(e) = fs.clone().validate_at(&d.ta, true, now) { refused(&mut r, e.to_string()); return Ok(()) }
                        let ee = fs.cert();
                        let mut b = SignedObjectBuilder::new(if c.modify == 1 { d.serials[5].1 } else { ee.serial_number() }, if c.modify == 2 { d.validity((0, 4)) } else { ee.validity() },
                            ee.crl_uri().ok_or("no crl uri")?.clone(), ee.ca_issuer().ok_or("no ca issuer")?.clone(), ee.signed_object().ok_or("no signed object")?.clone());
                        b.set_issuer(Some(ee.issuer().clone())); b.set_subject(Some(ee.subject().clone())); b.set_signing_time(fs.signing_time());
                        let bytes = if c.obj == 5 {
                            let f = Manifest::decode(foreign.as_slice(), true).map_err(|e| e.to_string())?;
                            let m = f.content();
                            let built = ManifestContent::new(m.manifest_number(), m.this_update(), m.next_update(), m.file_hash_alg(), m.iter()).into_manifest(b, &signer, &Kid(0)).map_err(|e| e.to_string())?;
                            let Some((bytes, _)) = twin(&mut r, &built, |m| m.to_captured().as_slice().to_vec(), |x| Manifest::decode(x, true).map_err(|e| e.to_string()), |m| obs_manifest(m, &base_uri)) else { return Ok(()) };
                            if c.modify == 0 && c.spelling & 8 == 0 && bytes != orig_bytes { r.fail("form_independent", "the manifest re-issued unchanged from its decoded foreign spelling differs from the object first built") }
                            bytes
                        } else {
                            let f = Roa::decode(foreign.as_slice(), true).map_err(|e| e.to_string())?;
                            let mut rb = RoaBuilder::new(f.content().as_id());
                            rb.v4_mut().extend(f.content().v4_addrs().iter()); rb.v6_mut().extend(f.content().v6_addrs().iter());
                            let built = rb.finalize(b, &signer, &Kid(0)).map_err(|e| e.to_string())?;
                            let Some((bytes, decoded)) = twin(&mut r, &built, |m| m.to_captured().as_slice().to_vec(), |x| Roa::decode(x, true).map_err(|e| e.to_string()), obs_roa) else { return Ok(()) };
                            if let Err(e) = decoded.process(&d.ta, true, |_| Ok(())) { r.fail("validate", format!("Roa::process: {e}")) }
                            if c.modify == 0 && c.spelling & 8 == 0 && bytes != orig_bytes { r.fail("form_independent", "the ROA re-issued unchanged from its decoded foreign spelling differs from the object first built") }
                            bytes
                        };
                        let so2 = SoSpec { win: if c.modify == 2 { (0, 4) } else { so.win }, ..so.clone() };
                        validate_signed(d, &mut r, &bytes, &so2);
                    }
                    _ => {
                        let orig = Csr::construct_rpki_ca(&d.signer, &Kid(3), &d.dirs[1], &d.mfts[1], d.https[2].as_ref()).map_err(|e| e.to_string())?;
                        // a CSR is SEQUENCE { info, alg, signature }: only the outer identifier exists
                        let root = der::parse_one(orig.as_slice(), false).ok_or("csr parse")?;
                        let info = root.children[0].whole(orig.as_slice()).to_vec();
                        let foreign = der::seq(&[info.clone(), if c.spelling & 2 != 0 { alg_no_null() } else { der::alg_sha256_with_rsa() }, der::bitstring(0, &d.signer.sign_raw(3, &info))]);
                        let f = match RpkiCaCsr::decode(foreign.as_slice()) { Ok(f) => f, Err(e) => { refused(&mut r, e.to_string()); return Ok(()) } };
                        if let Err(e) = f.verify_signature() { refused(&mut r, e.to_string()); return Ok(()) }
                        let mut t = TbsCert::new(d.serials[if c.modify == 1 { 5 } else { 3 }].1, d.issuer_name(1, 0), d.validity(if c.modify == 2 { (0, 4) } else { (1, 3) }),
                            if c.spelling & 1 != 0 { Some(f.subject().clone()) } else { None }, f.public_key().clone(), f.key_usage(), Overclaim::Refuse);
                        t.set_basic_ca(Some(f.basic_ca()));
                        t.set_ca_repository(f.ca_repository().cloned()); t.set_rpki_manifest(f.rpki_manifest().cloned()); t.set_rpki_notify(f.rpki_notify().cloned());
                        t.set_crl_uri(Some(d.crls[1].clone())); t.set_ca_issuer(Some(d.cers[1].clone()));
                        t.set_authority_key_identifier(Some(d.ta.subject_key_identifier()));
                        t.set_as_resources_inherit(); t.set_v4_resources_inherit();
                        let built = t.into_cert(&d.signer, &Kid(0)).map_err(|e| e.to_string())?;
                        let Some((_, decoded)) = twin(&mut r, &built, |c| c.to_captured().as_slice().to_vec(), |b| Cert::decode(b).map_err(|e| e.to_string()), obs_cert) else { return Ok(()) };
                        if let Err(e) = validate_cert(d, CKind::Ca, &decoded, d.instants[1]) { r.fail("validate", e) }
                    }
                }
                Ok(())
            });
            match res { Ok(Ok(())) => {}, Ok(Err(e)) => r.fail("build", e), Err(p) => r.fail("build", p) }
            r
        });
    sp.done(true, &format!("{} (object, spelling, modification) triples", cases.len()));
}


//============ Scale: numbers of blocks and of list entries ===================
//
// House rule: every count is swept through 0..=40, the neighbourhoods of
// powers of two, and documented maxima. Part A pushes n ADJACENT unit blocks
// (and the same with every third one missing) into every resource builder
// entry point in ALL orders for n <= 6 and in structured orders beyond;
// each result must equal the one from sorted insertion and its own decoded
// twin. Part B sweeps the number of entries of manifests, CRLs, ASPA provider
// sets and ROA prefix lists.

#[derive(Clone, Copy, Debug, PartialEq, Eq)]
enum Fam { As, V4, V6 }

fn unit_ip(fam: Fam, i: usize) -> IpBlock {
    if fam == Fam::V4 { let a = (0x0a00_0000u128 + i as u128) << 96; IpBlock::from((rpki::repository::resources::Addr::from_bits(a), rpki::repository::resources::Addr::from_bits(a | ((1u128 << 96) - 1)))) }
    else { let a = (0x2001_0db8u128 << 96) + i as u128; IpBlock::from((rpki::repository::resources::Addr::from_bits(a), rpki::repository::resources::Addr::from_bits(a))) }
}
fn unit_as(i: usize) -> AsBlock { AsBlock::from(Asn::from_u32(64500 + i as u32)) }
fn unit_roa(fam: Fam, i: usize) -> RoaIpAddress {
    if fam == Fam::V4 { RoaIpAddress::new_addr(IpAddr::V4(Ipv4Addr::from(0x0a00_0000u32 + i as u32)), 32, None) }
    else { RoaIpAddress::new_addr(IpAddr::V6(Ipv6Addr::from((0x2001_0db8u128 << 96) + i as u128)), 128, None) }
}

const RES_ENTRIES: [&str; 7] = ["FromIterator::collect", "BlocksBuilder::push", "BlocksBuilder::extend", "ResourcesBuilder::blocks(push)",
    "TbsCert::*_resources_from_iter", "SignedObjectBuilder::build_*_resource_blocks", "RoaIpAddressesBuilder::to_resources"];

/// The blocks `ids` (unit block numbers) pushed in this order through one
/// entry point; returns the rendered chain and the rendering of its decoded twin.
fn res_via(d: &Dom, fam: Fam, entry: usize, ids: &[usize]) -> Result<(String, String), String> {
    use rpki::repository::resources::{AsBlocksBuilder, AsResourcesBuilder, IpBlocksBuilder, IpResourcesBuilder, AddressFamily};
    if fam == Fam::As {
        let blocks: Vec<AsBlock> = ids.iter().map(|&i| unit_as(i)).collect();
        let res: AsResources = match entry {
            0 => AsResources::blocks(blocks.into_iter().collect()),
            1 => { let mut b = AsBlocksBuilder::new(); for x in blocks { b.push(x) } AsResources::blocks(b.finalize()) }
            2 => { let mut b = AsBlocksBuilder::new(); b.extend(blocks.into_iter().map(Some).filter_map(|x| x)); AsResources::blocks(b.finalize()) }
            3 => { let mut b = AsResourcesBuilder::new(); b.blocks(|b| for x in blocks { b.push(x) }); b.finalize() }
            4 => { let mut t = CertSpec::base(CKind::Ca).build(d); t.as_resources_from_iter(blocks); t.as_resources().clone() }
            5 => { let mut b = SoSpec::base().builder(d); b.build_as_resource_blocks(|b| for x in blocks { b.push(x) }); b.as_resources().clone() }
            _ => return Err("not an entry point for AS resources".into()),
        };
        // missing resources have no encoding of their own (the extension is left out)
        let twin_ = if res.is_present() { let enc = cap(res.encode_ref());
            Mode::Der.decode(enc.as_slice(), AsResources::take_from).map_err(|e| format!("decoding the built AS resources: {e}"))? } else { res.clone() };
        Ok((r_asres(&res), r_asres(&twin_)))
    } else {
        let v4 = fam == Fam::V4;
        let blocks: Vec<IpBlock> = ids.iter().map(|&i| unit_ip(fam, i)).collect();
        let res: IpResources = match entry {
            0 => IpResources::blocks(blocks.into_iter().collect()),
            1 => { let mut b = IpBlocksBuilder::new(); for x in blocks { b.push(x) } IpResources::blocks(b.finalize()) }
            2 => { let mut b = IpBlocksBuilder::new(); b.extend(blocks.into_iter().map(Some).filter_map(|x| x)); IpResources::blocks(b.finalize()) }
            3 => { let mut b = IpResourcesBuilder::new(); b.blocks(|b| for x in blocks { b.push(x) }); b.finalize() }
            4 => { let mut t = CertSpec::base(CKind::Ca).build(d); if v4 { t.v4_resources_from_iter(blocks); t.v4_resources().clone() } else { t.v6_resources_from_iter(blocks); t.v6_resources().clone() } }
            5 => { let mut b = SoSpec::base().builder(d); if v4 { b.build_v4_resource_blocks(|b| for x in blocks { b.push(x) }); b.v4_resources().clone() } else { b.build_v6_resource_blocks(|b| for x in blocks { b.push(x) }); b.v6_resources().clone() } }
            _ => { let mut b = rpki::repository::roa::RoaIpAddressesBuilder::new(); for &i in ids { b.push(unit_roa(fam, i)) } b.to_resources() }
        };
        let twin_ = match res.to_blocks() {
            Ok(bl) if res.is_present() => { let enc = cap(bl.encode_ref());
                IpResources::blocks(Mode::Der.decode(enc.as_slice(), |c| IpBlocks::take_from_with_family(c, if v4 { AddressFamily::Ipv4 } else { AddressFamily::Ipv6 })).map_err(|e| format!("decoding the built IP blocks: {e}"))?) }
            _ => res.clone(),
        };
        Ok((r_ipres(&res, v4), r_ipres(&twin_, v4)))
    }
}

/// Structured insertion orders of 0..n.
fn structured_orders(n: usize) -> Vec<(String, Vec<usize>)> {
    let id: Vec<usize> = (0..n).collect();
    let mut v: Vec<(String, Vec<usize>)> = vec![];
    v.push(("reverse".into(), id.iter().rev().copied().collect()));
    let ev: Vec<usize> = id.iter().copied().filter(|i| i % 2 == 0).collect(); let od: Vec<usize> = id.iter().copied().filter(|i| i % 2 == 1).collect();
    v.push(("evens then odds".into(), ev.iter().chain(od.iter()).copied().collect()));
    v.push(("odds then evens".into(), od.iter().chain(ev.iter()).copied().collect()));
    v.push(("evens then odds descending".into(), ev.iter().chain(od.iter().rev()).copied().collect()));
    v.push(("rotated by 1".into(), (0..n).map(|i| (i + 1) % n.max(1)).collect()));
    v.push(("rotated by n/2".into(), (0..n).map(|i| (i + n / 2) % n.max(1)).collect()));
    v.push(("neighbours swapped".into(), (0..n).map(|i| if i % 2 == 0 { (i + 1).min(n - 1) } else { i - 1 }).collect::<Vec<_>>()));
    v.push(("outside in".into(), (0..n).map(|i| if i % 2 == 0 { i / 2 } else { n - 1 - i / 2 }).collect()));
    v.push(("inside out".into(), (0..n).map(|i| if i % 2 == 0 { i / 2 } else { n - 1 - i / 2 }).rev().collect()));
    v.push(("every third first".into(), (0..3).flat_map(|r| (0..n).filter(move |i| i % 3 == r)).collect()));
    for k in [3usize, 5, 7] { if n > k && (1..=k).all(|g| g == 1 || !(n % g == 0 && k % g == 0)) { v.push((format!("stride {k}"), (0..n).map(|i| (i * k) % n).collect())) } }
    // "neighbours swapped" can repeat the last index for odd n: make every order a permutation
    for (_, o) in v.iter_mut() { let mut seen = vec![false; n]; o.retain(|&i| { let f = !seen[i]; seen[i] = true; f }); for i in 0..n { if !seen[i] { o.push(i) } } }
    v
}

/// the count sweep: 0..=40, then k-1, k, k+1 around powers of two
fn count_sweep(max_quick: usize, thorough: bool, extra: &[usize]) -> Vec<usize> {
    let mut v: Vec<usize> = (0..=40).collect();
    for k in [64usize, 128, 256, 1024, 4096, 16384, 65536] { if k <= max_quick || thorough { v.extend([k - 1, k, k + 1]) } }
    if thorough { v.extend_from_slice(extra) }
    v.sort(); v.dedup(); v
}

#[derive(Clone, Debug)]
struct ScaleCase { part: u8, fam: Fam, entry: usize, n: usize, gaps: bool, order_name: String, order: Vec<usize> }

fn space_scale(ctx: &Ctx, d: &Dom) {
    let thorough = ctx.tier.is_thorough();
    let sp = ctx.space("build.scale",
        "A: n adjacent unit blocks (AS numbers, IPv4 /32, IPv6 /128; also with every third block missing) through 7 builder entry points (collect, BlocksBuilder push / extend, ResourcesBuilder, TbsCert *_from_iter, SignedObjectBuilder build_*_resource_blocks, ROA prefix list -> to_resources) in ALL n! orders for n <= 6 and 10-13 structured orders (reverse, evens/odds, rotations, swapped neighbours, outside-in, strides) for every n in 7..=40 and n in {63..65, 127..129, 255..257, 1023..1025, 4095..4097} (thorough: 16383..16385; the unsorted path is quadratic, 65536 stays out): the chain must equal the one from sorted insertion and its own DER-decoded twin; certificate level (into_cert / RoaBuilder::finalize, decode, re-encode, accessor agreement, validation, Roa::process): all orders for n <= 5 (quick) / 6 (thorough) and evens-then-odds for 7..=40. B: the number of entries of a manifest, a CRL, an ASPA provider set and a ROA prefix list swept through 0..=40 and the same power-of-two neighbourhoods up to 4097 (thorough: ASPA 16379, 16380 = MAX_COUNT and nothing above it; ROA 16383..16385; CRL and manifest 16383..16385 and 65535..65537), entries with gaps (every other number missing), contains() probed at the first / middle / last entry and before / between / after them; non-trivial = distinct inputs; outcome = part + size class");
    let fams = [Fam::As, Fam::V4, Fam::V6];
    let mut cases: Vec<ScaleCase> = vec![];
    // ---- A1: resource level
    for &fam in &fams { for entry in 0..7 { if fam == Fam::As && entry == 6 { continue }
        for n in 0..=6usize { for p in permutations(n) { for gaps in [false, true] {
            if gaps && (n < 3 || entry > 1) { continue }
            cases.push(ScaleCase { part: 0, fam, entry, n, gaps, order_name: "permutation".into(), order: p.clone() });
        }}}
        let big: Vec<usize> = count_sweep(4096, thorough, &[]).into_iter().filter(|n| *n >= 7 && *n <= 16385).collect();
        for n in big { for (name, o) in structured_orders(n) {
            if n > 40 && (entry > 3 && entry != 6 || !(name == "evens then odds" || name == "reverse" || name == "stride 7" || name == "outside in")) { continue }
            for gaps in [false, true] { if gaps && entry > 1 { continue }
                cases.push(ScaleCase { part: 0, fam, entry, n, gaps, order_name: name.clone(), order: o.clone() });
            }
        }}
    }}
    // ---- A2: certificate level
    for &fam in &fams {
        for n in 1..=(if thorough { 6usize } else { 5 }) { for p in permutations(n) {
            cases.push(ScaleCase { part: 1, fam, entry: 4, n, gaps: false, order_name: "permutation".into(), order: p.clone() });
            if fam != Fam::As { cases.push(ScaleCase { part: 1, fam, entry: 6, n, gaps: false, order_name: "permutation".into(), order: p }) }
        }}
        for n in 7..=40usize { let o = structured_orders(n).into_iter().find(|x| x.0 == "evens then odds").unwrap().1;
            cases.push(ScaleCase { part: 1, fam, entry: 4, n, gaps: false, order_name: "evens then odds".into(), order: o.clone() });
            if fam != Fam::As { cases.push(ScaleCase { part: 1, fam, entry: 6, n, gaps: false, order_name: "evens then odds".into(), order: o }) }
        }
    }
    // ---- B: list sizes (entry = object kind)
    for (kind, extra) in [(0usize, vec![65535usize, 65536, 65537]), (1, vec![65535, 65536, 65537]), (2, vec![16379, 16380]), (3, vec![])] {
        for n in count_sweep(4096, thorough, &extra) { if (kind == 2 || kind == 3) && n == 0 { continue }
            if kind == 2 && n > 16380 { continue }     // more than MAX_COUNT providers is outside the profile (the decoder says so)
            if kind == 3 && n > 16385 { continue }
            cases.push(ScaleCase { part: 2, fam: Fam::V4, entry: kind, n, gaps: true, order_name: "ascending".into(), order: vec![] });
        }
    }
    let list_names = ["manifest files", "CRL entries", "ASPA providers", "ROA prefixes"];
    let so = SoSpec::base();
    let base_uri = d.dirs[1].clone();
    run_cases(ctx, &sp, "scale", &cases,
        |c| match c.part {
            0 | 1 => format!("{} {:?} n={}{} via {} order={}{}", if c.part == 0 { "blocks" } else { "certificate-level blocks" }, c.fam, c.n, if c.gaps { " (every third missing)" } else { "" },
                RES_ENTRIES[c.entry], c.order_name, if c.n <= 12 { format!(" {:?}", c.order) } else { String::new() }),
            _ => format!("{} n={}", list_names[c.entry], c.n),
        },
        |c| {
            let mut r = CaseResult::default();
            let class = if c.n <= 6 { "n<=6" } else if c.n <= 40 { "7..=40" } else { "power-of-two neighbourhood" };
            r.label = format!("{} {class}", ["A blocks", "A certificates", "B lists"][c.part as usize]);
            r.der_hash = fnv(format!("{:?}", (c.part, c.fam as u8, c.entry, c.n, c.gaps, &c.order_name, if c.n <= 6 { c.order.clone() } else { vec![] })).as_bytes());
            let signer = so.signer(d);
            let res = guard(|| -> Result<(), String> {
                let ids = |order: &[usize]| -> Vec<usize> { order.iter().map(|&i| if c.gaps { i + i / 2 } else { i }).collect() };   // gaps: 0,1,3,4,6,7,...
                match c.part {
                    0 => {
                        let sorted: Vec<usize> = (0..c.n).collect();
                        let (got, twin_) = res_via(d, c.fam, c.entry, &ids(&c.order))?;
                        let (want, _) = res_via(d, c.fam, c.entry, &ids(&sorted))?;
                        if got != want { r.fail("order_independent", format!("this order: {} sorted insertion: {}", rpki_verif::trunc(&got, 300), rpki_verif::trunc(&want, 300))) }
                        if got != twin_ { r.fail("accessors", format!("built: {} decoded twin: {}", rpki_verif::trunc(&got, 300), rpki_verif::trunc(&twin_, 300))) }
                    }
                    1 => {
                        if c.entry == 4 {
                            let mk = |order: &[usize]| { let mut t = CertSpec { v4: ResCh::Missing, v6: ResCh::Missing, asn: ResCh::Missing, ..CertSpec::base(CKind::Ca) }.build(d);
                                match c.fam { Fam::As => t.as_resources_from_iter(order.iter().map(|&i| unit_as(i))), Fam::V4 => t.v4_resources_from_iter(order.iter().map(|&i| unit_ip(Fam::V4, i))), Fam::V6 => t.v6_resources_from_iter(order.iter().map(|&i| unit_ip(Fam::V6, i))) } t };
                            let t = mk(&c.order); let sorted: Vec<usize> = (0..c.n).collect(); let reference = mk(&sorted);
                            form_check(&mut r, &cap(reference.encode_ref()), &cap(t.encode_ref()), &obs_tbs(&reference), &obs_tbs(&t));
                            let built = t.into_cert(&d.signer, &Kid(0)).map_err(|e| e.to_string())?;
                            let Some((_, decoded)) = twin(&mut r, &built, |c| c.to_captured().as_slice().to_vec(), |b| Cert::decode(b).map_err(|e| e.to_string()), obs_cert) else { return Ok(()) };
                            match (validate_cert(d, CKind::Ca, &decoded, d.instants[1]), validate_cert(d, CKind::Ca, &built, d.instants[1])) {
                                (Ok(Some(a)), Ok(Some(b))) => if let Some(x) = diff(&obs_rescert(&b), &obs_rescert(&a)) { r.fail("accessors", format!("validated: {x}")) },
                                (Err(e), _) | (_, Err(e)) => r.fail("validate", e), _ => {}
                            }
                        } else {
                            let mk = |order: &[usize]| { let mut b = RoaBuilder::new(Asn::from_u32(65536)); for &i in order { if c.fam == Fam::V4 { b.push_v4(unit_roa(Fam::V4, i)) } else { b.push_v6(unit_roa(Fam::V6, i)) } } b.finalize(so.builder(d), &signer, &Kid(0)).map_err(|e| e.to_string()) };
                            let built = mk(&c.order)?;
                            let Some((bytes, decoded)) = twin(&mut r, &built, |m| m.to_captured().as_slice().to_vec(), |x| Roa::decode(x, true).map_err(|e| e.to_string()), obs_roa) else { return Ok(()) };
                            // the EE certificate must not depend on the order of the prefixes
                            let sorted: Vec<usize> = (0..c.n).collect(); let reference = mk(&sorted)?;
                            if let Some(x) = diff_l(&obs_tbs(reference.cert()), &obs_tbs(built.cert()), "sorted", "this order") { r.fail("order_independent", format!("EE certificate: {x}")) }
                            validate_signed(d, &mut r, &bytes, &so);
                            if let Err(e) = decoded.process(&d.ta, true, |_| Ok(())) { r.fail("validate", format!("Roa::process: {e}")) }
                        }
                    }
                    _ => {
                        let n = c.n;
                        match c.entry {
                            0 => {
                                let built = ManifestContent::new(d.serials[3].1, d.instants[1], d.instants[3], DigestAlgorithm::sha256(),
                                    (0..n).map(|i| { let name = format!("f{:05}.roa", 2 * i + 1); let h = sha256(name.as_bytes()); FileAndHash::new(name.into_bytes(), h) }))
                                    .into_manifest(so.builder(d), &signer, &Kid(0)).map_err(|e| e.to_string())?;
                                let Some((bytes, decoded)) = twin(&mut r, &built, |m| m.to_captured().as_slice().to_vec(), |x| Manifest::decode(x, true).map_err(|e| e.to_string()), |m| obs_manifest(m, &base_uri)) else { return Ok(()) };
                                if decoded.content().len() != n || decoded.content().iter().count() != n { r.fail("accessors", format!("{} / {} entries come back, {n} went in", decoded.content().len(), decoded.content().iter().count())) }
                                validate_signed(d, &mut r, &bytes, &so);
                            }
                            1 => {
                                let ser = |i: usize| Serial::from((2 * i + 1) as u64);
                                let built = TbsCertList::new(RpkiSignatureAlgorithm::default(), d.issuer_name(1, 0), d.instants[1], d.instants[3],
                                    (0..n).map(|i| CrlEntry::new(ser(i), d.instants[i % 5])).collect::<Vec<_>>(), d.signer.public(0).key_identifier(), d.serials[3].1).into_crl(&d.signer, &Kid(0)).map_err(|e| e.to_string())?;
                                // first / middle / last entry, and the gaps before, between and after
                                let mut probes = vec![Serial::from(0u64), Serial::from((2 * n + 1) as u64), Serial::from((2 * n + 2) as u64)];
                                if n > 0 { probes.extend([ser(0), ser(n / 2), ser(n - 1), Serial::from((2 * (n / 2)) as u64), Serial::from((2 * (n - 1)) as u64)]) }
                                let Some((_, decoded)) = twin(&mut r, &built, |m| m.to_captured().as_slice().to_vec(), |x| Crl::decode(x).map_err(|e| e.to_string()), |x| obs_crl(x, &probes)) else { return Ok(()) };
                                if decoded.revoked_certs().iter().count() != n { r.fail("accessors", format!("{} entries come back, {n} went in", decoded.revoked_certs().iter().count())) }
                                for (i, p) in probes.iter().enumerate() { let want = i >= 3 && i < 6; if decoded.contains(*p) != want || built.contains(*p) != want { r.fail("accessors", format!("contains({p}) is {} / {} but the serial was{} put on the list", built.contains(*p), decoded.contains(*p), if want { "" } else { " not" })) } }
                                if let Err(e) = decoded.verify_signature(&d.signer.public(0)) { r.fail("validate", e.to_string()) }
                            }
                            2 => {
                                let provs: Vec<Asn> = (0..n).map(|i| Asn::from_u32((2 * i + 1) as u32)).collect();
                                let built = AspaBuilder::new(Asn::from_u32(0), provs).map_err(|e| e.to_string())?.finalize(so.builder(d), &signer, &Kid(0)).map_err(|e| e.to_string())?;
                                let Some((bytes, decoded)) = twin(&mut r, &built, |m| m.to_captured().as_slice().to_vec(), |x| Aspa::decode(x, true).map_err(|e| e.to_string()), obs_aspa) else { return Ok(()) };
                                if decoded.content().provider_as_set().len() != n || decoded.content().provider_as_set().iter().count() != n { r.fail("accessors", format!("{} providers come back, {n} went in", decoded.content().provider_as_set().len())) }
                                validate_signed(d, &mut r, &bytes, &so);
                                if let Err(e) = decoded.process(&d.ta, true, |_| Ok(())) { r.fail("validate", format!("Aspa::process: {e}")) }
                            }
                            _ => {
                                let mut b = RoaBuilder::new(Asn::from_u32(65536));
                                for i in 0..n { if i % 2 == 0 { b.push_v4(unit_roa(Fam::V4, 2 * i)) } else { b.push_v6(unit_roa(Fam::V6, 2 * i)) } }
                                let built = b.finalize(so.builder(d), &signer, &Kid(0)).map_err(|e| e.to_string())?;
                                let Some((bytes, decoded)) = twin(&mut r, &built, |m| m.to_captured().as_slice().to_vec(), |x| Roa::decode(x, true).map_err(|e| e.to_string()), obs_roa) else { return Ok(()) };
                                if decoded.content().iter().count() != n { r.fail("accessors", format!("{} prefixes come back, {n} went in", decoded.content().iter().count())) }
                                validate_signed(d, &mut r, &bytes, &so);
                                if let Err(e) = decoded.process(&d.ta, true, |_| Ok(())) { r.fail("validate", format!("Roa::process: {e}")) }
                            }
                        }
                    }
                }
                Ok(())
            });
            match res { Ok(Ok(())) => {}, Ok(Err(e)) => r.fail("build", e), Err(p) => r.fail("build", p) }
            r
        });
    sp.done(true, &format!("{} cases", cases.len()));
}


//============ Chains: policy x resource choice x depth =======================
//
// Feature interactions three levels deep: TA -> CA -> (CA ->) object with
// every combination of {refuse, trim} x {explicit, inherit, missing} per
// family per level. Only profile-conforming chains are built (an explicit
// set always lies within what its issuer effectively holds), so every
// builder output must pass the library's own validators under its chain, and
// the resources a validator resolves must be the ones a small model derives
// (missing -> nothing, inherit -> the issuer's, explicit -> the set).

#[derive(Clone, Copy, Debug, PartialEq, Eq)]
enum Ch { Explicit, Inherit, Missing }

#[derive(Clone, Debug)]
struct Level { policy: Overclaim, ch: [Ch; 3] }

impl Level {
    fn all() -> Vec<Level> {
        let c = [Ch::Explicit, Ch::Inherit, Ch::Missing];
        let mut v = vec![];
        for policy in [Overclaim::Refuse, Overclaim::Trim] { for a in c { for b in c { for e in c {
            if a == Ch::Missing && b == Ch::Missing && e == Ch::Missing { continue }
            v.push(Level { policy, ch: [a, b, e] });
        }}}}
        v
    }
    fn wit(&self) -> String { format!("{:?}[v4={:?} v6={:?} as={:?}]", self.policy, self.ch[0], self.ch[1], self.ch[2]) }
}

/// atoms an explicit set holds at this depth (nested: 0,1,2 then 0,1 then 0)
fn explicit_atoms(depth: usize) -> Vec<usize> { match depth { 1 => vec![0, 1, 2], 2 => vec![0, 1], _ => vec![0] } }

/// the model: effective atoms per family below an issuer holding `parent`
fn effective(parent: &[Vec<usize>; 3], lvl: &Level, depth: usize) -> Option<[Vec<usize>; 3]> {
    let mut out: [Vec<usize>; 3] = Default::default();
    for f in 0..3 {
        out[f] = match lvl.ch[f] {
            Ch::Missing => vec![],
            Ch::Inherit => parent[f].clone(),
            Ch::Explicit => { let e = explicit_atoms(depth); if !e.iter().all(|a| parent[f].contains(a)) { return None } e }
        };
    }
    Some(out)
}

fn level_resch(lvl: &Level, depth: usize, f: usize) -> ResCh {
    match lvl.ch[f] { Ch::Missing => ResCh::Missing, Ch::Inherit => ResCh::Inherit, Ch::Explicit => ResCh::Blocks(explicit_atoms(depth)) }
}

/// what a validator resolved, against the model
fn check_resolved(r: &mut CaseResult, what: &str, rc: &ResourceCert, eff: &[Vec<usize>; 3]) {
    for i in 0..4 {
        let b4 = pki::ip_blocks(32, &[v4_atoms()[i]]).iter().next().unwrap(); let b6 = pki::ip_blocks(128, &[v6_atoms()[i]]).iter().next().unwrap();
        let got = [rc.v4_resources().contains_block(b4), rc.v6_resources().contains_block(b6), rc.as_resources().contains_asn(Asn::from_u32(as_atoms()[i].0 as u32))];
        for f in 0..3 { if got[f] != eff[f].contains(&i) {
            r.fail("validate", format!("{what}: the validator resolved {} resources that {} atom {} but the chain says it should{}: v4={} v6={} as={}", ["IPv4", "IPv6", "AS"][f],
                if got[f] { "contain" } else { "lack" }, ATOM_NAMES[i], if got[f] { " not" } else { "" }, r_ipblocks(rc.v4_resources(), true), r_ipblocks(rc.v6_resources(), false), r_asblocks_n(rc.as_resources(), false)));
            return
        }}
    }
}

/// A CA certificate for `lvl` issued by `issuer` (key `issuer_key`).
fn chain_ca(d: &Dom, lvl: &Level, depth: usize, subject_key: usize, issuer_key: usize, issuer: &ResourceCert) -> Result<Cert, String> {
    let spec = CertSpec { v4: level_resch(lvl, depth, 0), v6: level_resch(lvl, depth, 1), asn: level_resch(lvl, depth, 2), overclaim: lvl.policy, subject_key, ..CertSpec::base(CKind::Ca) };
    let mut t = spec.build(d);
    t.set_authority_key_identifier(Some(issuer.subject_key_identifier()));
    t.set_issuer(issuer.subject().clone());
    t.into_cert(&d.signer, &Kid(issuer_key)).map_err(|e| e.to_string())
}

#[derive(Clone, Debug)]
struct ChainCase { l1: usize, l2: Option<usize> }

fn space_chains(ctx: &Ctx, d: &Dom) {
    let thorough = ctx.tier.is_thorough();
    let sp = ctx.space("build.chains",
        "TA -> CA1 -> [CA2 ->] objects with every combination of {refuse, trim} x {explicit, inherit, missing} per family at every CA level (52 level settings; 52 one-CA chains and every conforming one of the 52 x 52 two-CA chains; explicit sets nested 0,1,2 / 0,1 / 0 so that nothing overclaims); under the last CA: EE certificates (TbsCert) with {refuse, trim} x {explicit, inherit} for all families, a ROA (RoaBuilder) with one prefix in every family the CA effectively holds, and -- for one-CA chains always, for two-CA chains in the thorough tier -- a manifest (inheriting EE) and an ASPA; every certificate and object goes through decode / re-encode / accessor agreement and through the library's validators under ITS chain (validate_ca_at, validate_ee_at, SignedObject::validate_at, Roa::process, Manifest::validate_at, Aspa::process), and the resources each validator resolves are compared with a set model (missing -> nothing, inherit -> issuer's, explicit -> the set); non-trivial = distinct chains; outcome = depth + policies");
    let levels = Level::all();
    let ta_eff: [Vec<usize>; 3] = [vec![0, 1, 2, 3], vec![0, 1, 2, 3], vec![0, 1, 2, 3]];
    let mut cases = vec![];
    for l1 in 0..levels.len() {
        if effective(&ta_eff, &levels[l1], 1).is_none() { continue }
        cases.push(ChainCase { l1, l2: None });
        let e1 = effective(&ta_eff, &levels[l1], 1).unwrap();
        for l2 in 0..levels.len() { if effective(&e1, &levels[l2], 2).is_some() { cases.push(ChainCase { l1, l2: Some(l2) }) } }
    }
    let now = d.instants[1];
    let files = mft_files();
    let base_uri = d.dirs[1].clone();
    run_cases(ctx, &sp, "chains", &cases,
        |c| format!("TA -> CA1 {}{} -> objects", levels[c.l1].wit(), c.l2.map(|l| format!(" -> CA2 {}", levels[l].wit())).unwrap_or_default()),
        |c| {
            let mut r = CaseResult::default();
            r.der_hash = fnv(format!("{:?}", (c.l1, c.l2)).as_bytes());
            r.label = format!("depth {} {:?}{}", if c.l2.is_some() { 3 } else { 2 }, levels[c.l1].policy, c.l2.map(|l| format!("/{:?}", levels[l].policy)).unwrap_or_default());
            let res = guard(|| -> Result<(), String> {
                // ---- the CA levels
                let e1 = effective(&ta_eff, &levels[c.l1], 1).ok_or("model")?;
                let ca1 = chain_ca(d, &levels[c.l1], 1, 1, 0, &d.ta)?;
                let rc1 = ca1.clone().validate_ca_at(&d.ta, true, now).map_err(|e| { r.fail("validate", format!("CA1 under the TA: {e}")); "stop".to_string() });
                let Ok(rc1) = rc1 else { return Ok(()) };
                check_resolved(&mut r, "CA1", &rc1, &e1);
                let (ca_rc, ca_key, eff, depth) = match c.l2 {
                    None => (rc1, 1usize, e1, 2usize),
                    Some(l2) => {
                        let e2 = effective(&e1, &levels[l2], 2).ok_or("model")?;
                        let ca2 = chain_ca(d, &levels[l2], 2, 2, 1, &rc1)?;
                        if twin(&mut r, &ca2, |c| c.to_captured().as_slice().to_vec(), |b| Cert::decode(b).map_err(|e| e.to_string()), obs_cert).is_none() { return Ok(()) }
                        let rc2 = match ca2.validate_ca_at(&rc1, true, now) { Ok(x) => x, Err(e) => { r.fail("validate", format!("CA2 under CA1: {e}")); return Ok(()) } };
                        check_resolved(&mut r, "CA2", &rc2, &e2);
                        (rc2, 2usize, e2, 3usize)
                    }
                };
                let signer = CaseSigner::new(&d.signer, 7);
                // ---- EE certificates
                for policy in [Overclaim::Refuse, Overclaim::Trim] { for ch in [Ch::Explicit, Ch::Inherit] {
                    let fam = |f: usize| if eff[f].contains(&0) || (ch == Ch::Inherit) { if ch == Ch::Inherit { ResCh::Inherit } else { ResCh::Blocks(vec![0]) } } else { ResCh::Missing };
                    let spec = CertSpec { v4: fam(0), v6: fam(1), asn: fam(2), overclaim: policy, subject_key: 3, ..CertSpec::base(CKind::Ee) };
                    if !spec.conforming() { continue }
                    let mut t = spec.build(d);
                    t.set_authority_key_identifier(Some(ca_rc.subject_key_identifier())); t.set_issuer(ca_rc.subject().clone());
                    let ee = t.into_cert(&d.signer, &Kid(ca_key)).map_err(|e| e.to_string())?;
                    let Some((_, dec)) = twin(&mut r, &ee, |c| c.to_captured().as_slice().to_vec(), |b| Cert::decode(b).map_err(|e| e.to_string()), obs_cert) else { continue };
                    match dec.validate_ee_at(&ca_rc, true, now) {
                        Ok(rc) => { let want: [Vec<usize>; 3] = std::array::from_fn(|f| match ch { Ch::Inherit => eff[f].clone(), _ => if eff[f].contains(&0) { vec![0] } else { vec![] } });
                                    check_resolved(&mut r, &format!("EE certificate {policy:?}/{ch:?}"), &rc, &want) }
                        Err(e) => r.fail("validate", format!("EE certificate {policy:?}/{ch:?} under its CA: {e}")),
                    }
                }}
                // ---- ROA
                if eff[0].contains(&0) || eff[1].contains(&0) {
                    let mut b = RoaBuilder::new(Asn::from_u32(65536));
                    if eff[0].contains(&0) { b.push_v4_addr(Ipv4Addr::new(10, 0, 0, 0), 24, Some(24)) }
                    if eff[1].contains(&0) { b.push_v6_addr(Ipv6Addr::from(0u128), 128, None) }
                    let mut sob = SoSpec::base().builder(d); sob.set_issuer(Some(ca_rc.subject().clone()));
                    let roa = b.finalize(sob, &signer, &Kid(ca_key)).map_err(|e| e.to_string())?;
                    if let Some((bytes, dec)) = twin(&mut r, &roa, |m| m.to_captured().as_slice().to_vec(), |x| Roa::decode(x, true).map_err(|e| e.to_string()), obs_roa) {
                        match SignedObject::decode(bytes.as_slice(), true).map_err(|e| e.to_string()).and_then(|s| s.validate_at(&ca_rc, true, now).map_err(|e| e.to_string())) { Ok(_) => {}, Err(e) => r.fail("validate", format!("ROA, SignedObject::validate_at under its CA: {e}")) }
                        if let Err(e) = dec.process(&ca_rc, true, |_| Ok(())) { r.fail("validate", format!("ROA, Roa::process under its CA: {e}")) }
                        if let Err(e) = roa.clone().process(&ca_rc, true, |_| Ok(())) { r.fail("validate", format!("built ROA, Roa::process under its CA: {e}")) }
                    }
                }
                if depth == 2 || thorough {
                    // ---- manifest (its EE certificate inherits everything)
                    let mut sob = SoSpec::base().builder(d); sob.set_issuer(Some(ca_rc.subject().clone()));
                    let m = ManifestContent::new(d.serials[3].1, d.instants[1], d.instants[3], DigestAlgorithm::sha256(), [0usize, 3].iter().map(|&i| FileAndHash::new(files[i].0.clone(), files[i].1.clone())))
                        .into_manifest(sob, &signer, &Kid(ca_key)).map_err(|e| e.to_string())?;
                    if let Some((_, dec)) = twin(&mut r, &m, |m| m.to_captured().as_slice().to_vec(), |x| Manifest::decode(x, true).map_err(|e| e.to_string()), |m| obs_manifest(m, &base_uri)) {
                        match dec.validate_at(&ca_rc, true, now) { Ok((rc, _)) => check_resolved(&mut r, "manifest EE certificate", &rc, &eff), Err(e) => r.fail("validate", format!("manifest under its CA: {e}")) }
                    }
                    // ---- ASPA
                    if eff[2].contains(&0) {
                        let mut sob = SoSpec::base().builder(d); sob.set_issuer(Some(ca_rc.subject().clone()));
                        let a = AspaBuilder::new(Asn::from_u32(0), vec![Asn::from_u32(1)]).map_err(|e| e.to_string())?.finalize(sob, &signer, &Kid(ca_key)).map_err(|e| e.to_string())?;
                        if let Some((_, dec)) = twin(&mut r, &a, |m| m.to_captured().as_slice().to_vec(), |x| Aspa::decode(x, true).map_err(|e| e.to_string()), obs_aspa) {
                            if let Err(e) = dec.process(&ca_rc, true, |_| Ok(())) { r.fail("validate", format!("ASPA, Aspa::process under its CA: {e}")) }
                        }
                    }
                }
                Ok(())
            });
            match res { Ok(Ok(())) => {}, Ok(Err(e)) => if e != "stop" { r.fail("build", e) }, Err(p) => r.fail("build", p) }
            r.der_hash = fnv(format!("{:?}", (c.l1, c.l2)).as_bytes());
            r
        });
    sp.done(true, &format!("{} conforming chains", cases.len()));
}


//============ History, environment, handed-out iterators, ownership ==========

/// A signer that, at the n-th call of one of its methods, either fails or
/// sleeps across a second boundary and then carries on.
struct HookSigner<'a> { inner: CaseSigner<'a>, method: usize, at_call: usize, sleep_ms: u64, calls: std::sync::atomic::AtomicUsize }
const HOOK_METHODS: [&str; 4] = ["get_key_info", "sign", "sign_one_off", "rand"];

impl<'a> HookSigner<'a> {
    fn new(d: &'a Dom, method: usize, at_call: usize, sleep_ms: u64) -> Self { HookSigner { inner: CaseSigner::new(&d.signer, 7), method, at_call, sleep_ms, calls: Default::default() } }
    /// true = fail now
    fn hook(&self, m: usize) -> bool {
        if m != self.method { return false }
        let n = self.calls.fetch_add(1, std::sync::atomic::Ordering::SeqCst);
        if n != self.at_call { return false }
        if self.sleep_ms > 0 { std::thread::sleep(std::time::Duration::from_millis(self.sleep_ms)); false } else { true }
    }
}

impl Signer for HookSigner<'_> {
    type KeyId = Kid;
    type Error = io::Error;
    fn create_key(&self, a: PublicKeyFormat) -> Result<Kid, io::Error> { self.inner.create_key(a) }
    fn get_key_info(&self, k: &Kid) -> Result<PublicKey, KeyError<io::Error>> { if self.hook(0) { return Err(KeyError::KeyNotFound) } self.inner.get_key_info(k) }
    fn destroy_key(&self, k: &Kid) -> Result<(), KeyError<io::Error>> { self.inner.destroy_key(k) }
    fn sign<Alg: SignatureAlgorithm, D: AsRef<[u8]> + ?Sized>(&self, k: &Kid, alg: Alg, d: &D) -> Result<Signature<Alg>, SigningError<io::Error>> {
        if self.hook(1) { return Err(SigningError::Signer(io::Error::other("the signer fails"))) } self.inner.sign(k, alg, d) }
    fn sign_one_off<Alg: SignatureAlgorithm, D: AsRef<[u8]> + ?Sized>(&self, alg: Alg, d: &D) -> Result<(Signature<Alg>, PublicKey), io::Error> {
        if self.hook(2) { return Err(io::Error::other("the signer fails")) } self.inner.sign_one_off(alg, d) }
    fn rand(&self, target: &mut [u8]) -> Result<(), io::Error> { if self.hook(3) { return Err(io::Error::other("the signer fails")) } self.inner.rand(target) }
}

fn obs_text(o: &Obs) -> String { o.0.iter().map(|(n, v)| format!("{n}={v}")).collect::<Vec<_>>().join("\n") }

/// The routes that build one signed thing with a given signer (used by the
/// failing- and slow-signer predecessors). Returns everything observable.
const ROUTES: [&str; 9] = ["TbsCert::into_cert", "TbsCertList::into_crl", "ManifestContent::into_manifest", "RoaBuilder::finalize", "AspaBuilder::finalize",
    "Csr::construct_rpki_ca", "IdCert::new_ee", "SignedMessage::create", "SignedObjectBuilder::finalize"];
fn build_route<S: Signer<KeyId = Kid>>(d: &Dom, route: usize, signer: &S, default_signing_time: bool) -> Result<String, String>
where S::Error: std::fmt::Display {
    let sob = || { let mut b = SoSpec::base().builder(d); if default_signing_time { b = SignedObjectBuilder::new(b.serial_number(), b.validity(), b.crl_uri().clone(), b.ca_issuer().clone(), b.signed_object().clone()); } b };
    let files = mft_files();
    let base_uri = d.dirs[1].clone();
    let probes: Vec<Serial> = d.serials.iter().map(|s| s.1).collect();
    let two = |built: &Obs, decoded: &Obs, verdict: String| -> Result<String, String> {
        match diff(built, decoded) { Some(x) => Err(format!("built and decoded twin disagree: {x}")), None => Ok(format!("{}\nverdict={verdict}", obs_text(decoded))) } };
    let now = d.instants[1];
    match route {
        0 => { let c = CertSpec::base(CKind::Ca).build(d).into_cert(signer, &Kid(0)).map_err(|e| e.to_string())?;
               let t = Cert::decode(c.to_captured().as_slice()).map_err(|e| e.to_string())?;
               two(&obs_cert(&c), &obs_cert(&t), r_res(validate_cert(d, CKind::Ca, &t, now))) }
        1 => { let c = TbsCertList::new(RpkiSignatureAlgorithm::default(), d.issuer_name(1, 0), d.instants[1], d.instants[3], vec![CrlEntry::new(d.serials[3].1, d.instants[3]), CrlEntry::new(d.serials[0].1, d.instants[0])],
                   d.signer.public(0).key_identifier(), d.serials[4].1).into_crl(signer, &Kid(0)).map_err(|e| e.to_string())?;
               let t = Crl::decode(c.to_captured().as_slice()).map_err(|e| e.to_string())?;
               two(&obs_crl(&c, &probes), &obs_crl(&t, &probes), r_res(t.verify_signature(&d.signer.public(0)))) }
        2 => { let c = ManifestContent::new(d.serials[3].1, d.instants[1], d.instants[3], DigestAlgorithm::sha256(), [0usize, 3].iter().map(|&i| FileAndHash::new(files[i].0.clone(), files[i].1.clone())))
                   .into_manifest(sob(), signer, &Kid(0)).map_err(|e| e.to_string())?;
               let t = Manifest::decode(c.to_captured().as_slice(), true).map_err(|e| e.to_string())?;
               two(&obs_manifest(&c, &base_uri), &obs_manifest(&t, &base_uri), r_res(t.clone().validate_at(&d.ta, true, now))) }
        3 => { let mut b = RoaBuilder::new(Asn::from_u32(65536)); b.push_v4_addr(Ipv4Addr::new(10, 0, 0, 0), 24, Some(24)); b.push_v6_addr(Ipv6Addr::from(0u128), 128, None);
               let c = b.finalize(sob(), signer, &Kid(0)).map_err(|e| e.to_string())?;
               let t = Roa::decode(c.to_captured().as_slice(), true).map_err(|e| e.to_string())?;
               two(&obs_roa(&c), &obs_roa(&t), r_res(t.clone().process(&d.ta, true, |_| Ok(())))) }
        4 => { let c = AspaBuilder::new(Asn::from_u32(0), vec![Asn::from_u32(65536), Asn::from_u32(1)]).map_err(|e| e.to_string())?.finalize(sob(), signer, &Kid(0)).map_err(|e| e.to_string())?;
               let t = Aspa::decode(c.to_captured().as_slice(), true).map_err(|e| e.to_string())?;
               two(&obs_aspa(&c), &obs_aspa(&t), r_res(t.clone().process(&d.ta, true, |_| Ok(())))) }
        5 => { let c = Csr::construct_rpki_ca(signer, &Kid(3), &d.dirs[1], &d.mfts[1], d.https[2].as_ref()).map_err(|e| e.to_string())?;
               let t = RpkiCaCsr::decode(c.as_slice()).map_err(|e| e.to_string())?;
               Ok(obs_text(&obs_csr(&t))) }
        6 => { let c = IdCert::new_ee(&d.signer.public(4), d.validity((1, 3)), &Kid(0), signer).map_err(|e| e.to_string())?;
               let t = IdCert::decode(c.to_captured().as_slice()).map_err(|e| e.to_string())?;
               two(&obs_idcert(&c), &obs_idcert(&t), r_res(t.validate_ee_at(&d.signer.public(0), now))) }
        8 => { let mut b = sob(); b.set_as_resources_inherit();
               let c = b.finalize(Oid(Bytes::copy_from_slice(&der::oid(&[1, 2, 840, 113549, 1, 9, 16, 1, 35])[2..])), Bytes::from(der::seq(&[der::int_u(7)])), signer, &Kid(0)).map_err(|e| e.to_string())?;
               let t = SignedObject::decode(cap(c.encode_ref()).as_slice(), true).map_err(|e| e.to_string())?;
               two(&obs_sigobj(&c), &obs_sigobj(&t), r_res(t.clone().validate_at(&d.ta, true, now))) }
        _ => { let c = SignedMessage::create(Bytes::from_static(b"<msg/>"), d.validity((1, 3)), &Kid(0), signer).map_err(|e| e.to_string())?;
               let t = SignedMessage::decode(c.to_captured().as_slice(), true).map_err(|e| e.to_string())?;
               // the encoding carries wall-clock values (signing time, CRL number): content and verdict only
               if c.content().to_bytes() != t.content().to_bytes() || c.content_type() != t.content_type() { return Err("built and decoded message disagree".into()) }
               Ok(format!("content={} verdict={}", hex(&t.content().to_bytes()), r_res(t.validate_at(&d.signer.public(0), now)))) }
    }
}

/// Subjects of the history space: representative evaluations, accepted and
/// rejected, short and long, each reduced to one comparable text.
const N_SUBJECTS: usize = 14;
fn subject(d: &Dom, i: usize) -> String {
    let res = guard(|| -> Result<String, String> {
        let signer = CaseSigner::new(&d.signer, 7);
        match i {
            0..=7 => build_route(d, i, &signer, false),
            8 => { let c = CertSpec { win: (0, 0), ..CertSpec::base(CKind::Ee) }.build(d).into_cert(&d.signer, &Kid(0)).map_err(|e| e.to_string())?;
                   Ok(format!("expired EE: {}", r_res(validate_cert(d, CKind::Ee, &c, d.instants[4])))) }
            9 => { let c = CertSpec::base(CKind::Ca).build(d).into_cert(&d.signer, &Kid(0)).map_err(|e| e.to_string())?; let b = c.to_captured();
                   Ok(format!("truncated certificate: {}", r_res(Cert::decode(&b.as_slice()[..b.len() - 7])))) }
            10 => { let mut b = RoaBuilder::new(Asn::from_u32(1)); b.push_v4_addr(Ipv4Addr::new(10, 0, 0, 0), 24, None);
                    let c = b.finalize(SoSpec::base().builder(d), &signer, &Kid(0)).map_err(|e| e.to_string())?;
                    Ok(format!("ROA read as a manifest: {} / as an ASPA: {}", r_res(Manifest::decode(c.to_captured().as_slice(), true)), r_res(Aspa::decode(c.to_captured().as_slice(), true)))) }
            11 => { let probes: Vec<Serial> = vec![Serial::from(1u64), Serial::from(300u64), Serial::from(599u64), Serial::from(600u64)];
                    let c = TbsCertList::new(RpkiSignatureAlgorithm::default(), d.issuer_name(0, 0), d.instants[1], d.instants[3], (0..300u64).map(|i| CrlEntry::new(Serial::from(2 * i + 1), d.instants[(i % 5) as usize])).collect::<Vec<_>>(),
                        d.signer.public(0).key_identifier(), d.serials[5].1).into_crl(&d.signer, &Kid(0)).map_err(|e| e.to_string())?;
                    let t = Crl::decode(c.to_captured().as_slice()).map_err(|e| e.to_string())?;
                    match diff(&obs_crl(&c, &probes), &obs_crl(&t, &probes)) { Some(x) => Err(x), None => Ok(obs_text(&obs_crl(&t, &probes))) } }
            12 => { let mut out = String::new();
                    for fam in [Fam::As, Fam::V4, Fam::V6] { for o in [vec![0usize, 2, 4, 1, 3], vec![4, 3, 2, 1, 0], vec![0, 3, 1]] { let (a, b) = res_via(d, fam, 0, &o)?; out.push_str(&format!("{a} | {b}\n")) } }
                    Ok(out) }
            _ => { let mut b = RoaBuilder::new(Asn::from_u32(1)); b.push_v4_addr(Ipv4Addr::new(10, 0, 0, 0), 24, None);
                   let c = b.finalize(SoSpec::base().builder(d), &signer, &Kid(3)).map_err(|e| e.to_string())?;     // signed by a key that is not the TA's
                   Ok(format!("ROA under the wrong issuer: {}", r_res(c.process(&d.ta, true, |_| Ok(())).map(|_| ())))) }
        }
    });
    match res { Ok(Ok(s)) => format!("Ok {s}"), Ok(Err(e)) => format!("Err {e}"), Err(p) => format!("PANIC {p}") }
}

/// A writer that fails after k octets.
struct FailAfter(usize);
impl io::Write for FailAfter {
    fn write(&mut self, buf: &[u8]) -> io::Result<usize> { if self.0 == 0 { return Err(io::Error::other("sink full")) } let n = buf.len().min(self.0); self.0 -= n; Ok(n) }
    fn flush(&mut self) -> io::Result<()> { Ok(()) }
}

#[derive(Clone, Debug)]
enum Pred { Subject(usize), FailingSigner { route: usize, method: usize, at_call: usize }, PanickingIter { target: usize, after: usize }, FailingWriter { doc: usize, after: usize },
            Truncated { doc: usize, at: usize }, BadSignature(usize), SameIdentity(usize) }

impl Pred {
    fn wit(&self) -> String { match self {
        Pred::Subject(i) => format!("subject#{i}"),
        Pred::FailingSigner { route, method, at_call } => format!("{} with a signer whose {} fails at call {}", ROUTES[*route], HOOK_METHODS[*method], at_call),
        Pred::PanickingIter { target, after } => format!("{} fed an iterator that panics after {after} items", ["ManifestContent::new", "RoaIpAddressesBuilder::extend", "TbsCertList::into_crl", "TbsCert::v4_resources_from_iter", "AsBlocks::from_iter"][*target]),
        Pred::FailingWriter { doc, after } => format!("encoding {} into a writer that fails after {after} octets", ["a TBSCertList", "a ROA content", "a certificate", "IP resources"][*doc]),
        Pred::Truncated { doc, at } => format!("decoding {} cut at {at}", ["a certificate", "a ROA", "a CRL"][*doc]),
        Pred::BadSignature(i) => format!("validating {} with one bit of its signature flipped", ["a certificate", "a ROA", "a CRL"][*i]),
        Pred::SameIdentity(i) => format!("an object with the identity of subject#{i} and other content"),
    } }
    /// one representative per exit-path class (thorough pairs)
    fn class(&self) -> String { match self { Pred::Subject(i) => format!("s{i}"), Pred::FailingSigner { route, method, .. } => format!("fs{route}/{method}"), Pred::PanickingIter { target, .. } => format!("pi{target}"),
        Pred::FailingWriter { doc, .. } => format!("fw{doc}"), Pred::Truncated { doc, .. } => format!("tr{doc}"), Pred::BadSignature(i) => format!("bs{i}"), Pred::SameIdentity(i) => format!("si{i}") } }

    fn run(&self, d: &Dom) {
        let _ = guard(|| {
            let signer = CaseSigner::new(&d.signer, 7);
            let docs = |doc: usize| -> Vec<u8> { match doc {
                0 => CertSpec::base(CKind::Ca).build(d).into_cert(&d.signer, &Kid(0)).unwrap().to_captured().as_slice().to_vec(),
                1 => { let mut b = RoaBuilder::new(Asn::from_u32(7)); b.push_v4_addr(Ipv4Addr::new(10, 0, 0, 0), 24, None); b.finalize(SoSpec::base().builder(d), &signer, &Kid(0)).unwrap().to_captured().as_slice().to_vec() }
                _ => TbsCertList::new(RpkiSignatureAlgorithm::default(), d.issuer_name(1, 0), d.instants[1], d.instants[3], vec![CrlEntry::new(d.serials[3].1, d.instants[3])], d.signer.public(0).key_identifier(), d.serials[4].1)
                        .into_crl(&d.signer, &Kid(0)).unwrap().to_captured().as_slice().to_vec(),
            } };
            match self {
                Pred::Subject(i) => { let _ = subject(d, *i); }
                Pred::FailingSigner { route, method, at_call } => { let s = HookSigner::new(d, *method, *at_call, 0); let _ = build_route(d, *route, &s, false); }
                Pred::PanickingIter { target, after } => {
                    let after = *after;
                    let files = mft_files(); let a4 = roa_alphabet(true);
                    match target {
                        0 => { let _ = ManifestContent::new(d.serials[3].1, d.instants[1], d.instants[3], DigestAlgorithm::sha256(),
                                   (0..).map(|i: usize| { if i >= after { panic!("iterator gives up") } FileAndHash::new(files[i % 4].0.clone(), files[i % 4].1.clone()) })); }
                        1 => { let mut b = rpki::repository::roa::RoaIpAddressesBuilder::new(); b.extend((0..).map(|i: usize| { if i >= after { panic!("iterator gives up") } a4[i % 6] })); }
                        2 => { let _ = TbsCertList::new(RpkiSignatureAlgorithm::default(), d.issuer_name(1, 0), d.instants[1], d.instants[3],
                                   (0..10u64).map(move |i| { if i as usize >= after { panic!("iterator gives up") } CrlEntry::new(Serial::from(i), pki::time(pki::T0)) }),
                                   d.signer.public(0).key_identifier(), d.serials[4].1).into_crl(&d.signer, &Kid(0)); }
                        3 => { let mut t = CertSpec::base(CKind::Ca).build(d); t.v4_resources_from_iter((0..).map(|i: usize| { if i >= after { panic!("iterator gives up") } unit_ip(Fam::V4, 2 * (7 - i % 7)) })); }
                        _ => { let _: AsBlocks = (0..).map(|i: usize| { if i >= after { panic!("iterator gives up") } unit_as(2 * (7 - i % 7)) }).collect(); }
                    }
                }
                Pred::FailingWriter { doc, after } => {
                    let mut w = FailAfter(*after);
                    match doc {
                        0 => { let t: TbsCertList<Vec<CrlEntry>> = TbsCertList::new(RpkiSignatureAlgorithm::default(), d.issuer_name(1, 0), d.instants[1], d.instants[3], vec![CrlEntry::new(d.serials[3].1, d.instants[3])], d.signer.public(0).key_identifier(), d.serials[4].1);
                               let t: TbsCertList<rpki::repository::crl::RevokedCertificates> = t.into(); let _ = t.encode_ref().write_encoded(Mode::Der, &mut w); }
                        1 => { let mut b = RoaBuilder::new(Asn::from_u32(7)); b.push_v4_addr(Ipv4Addr::new(10, 0, 0, 0), 24, Some(25)); b.push_v6_addr(Ipv6Addr::from(0u128), 128, None);
                               let _ = b.to_attestation().encode_ref().write_encoded(Mode::Der, &mut w); }
                        2 => { let c = Cert::decode(docs(0).as_slice()).unwrap(); let _ = c.encode_ref().write_encoded(Mode::Der, &mut w); }
                        _ => { let r = pki::ip_res(32, &ResCh::Blocks(vec![0, 2, 3]).claim(&v4_atoms())); let _ = r.encode_ref().write_encoded(Mode::Der, &mut w); }
                    }
                }
                Pred::Truncated { doc, at } => { let b = docs(*doc); let cut = (*at).min(b.len());
                    match doc { 0 => { let _ = Cert::decode(&b[..cut]); } 1 => { let _ = Roa::decode(&b[..cut], true); let _ = Manifest::decode(&b[..cut], false); } _ => { let _ = Crl::decode(&b[..cut]); } } }
                Pred::BadSignature(i) => { let mut b = docs(*i); let n = b.len(); b[n - 3] ^= 1;
                    match i { 0 => { if let Ok(c) = Cert::decode(b.as_slice()) { let _ = c.validate_ca_at(&d.ta, true, d.instants[1]); } }
                              1 => { if let Ok(c) = Roa::decode(b.as_slice(), true) { let _ = c.process(&d.ta, true, |_| Ok(())); } }
                              _ => { if let Ok(c) = Crl::decode(b.as_slice()) { let _ = c.verify_signature(&d.signer.public(0)); } } } }
                Pred::SameIdentity(i) => {
                    // same serial, key and names as the subject, other validity / entries / prefixes
                    match i { 0 => { let c = CertSpec { win: (0, 4), notify: 1, ..CertSpec::base(CKind::Ca) }.build(d).into_cert(&d.signer, &Kid(0)).unwrap(); let _ = validate_cert(d, CKind::Ca, &Cert::decode(c.to_captured().as_slice()).unwrap(), d.instants[2]); }
                              1 => { let c = TbsCertList::new(RpkiSignatureAlgorithm::default(), d.issuer_name(1, 0), d.instants[1], d.instants[3], vec![CrlEntry::new(d.serials[5].1, d.instants[4])], d.signer.public(0).key_identifier(), d.serials[4].1).into_crl(&d.signer, &Kid(0)).unwrap();
                                     let t = Crl::decode(c.to_captured().as_slice()).unwrap(); let _ = t.contains(d.serials[3].1); let mut t2 = t.clone(); t2.cache_serials(); let _ = t2.contains(d.serials[3].1); }
                              _ => { let mut b = RoaBuilder::new(Asn::from_u32(65536)); b.push_v4_addr(Ipv4Addr::new(10, 0, 0, 0), 8, Some(32)); let c = b.finalize(SoSpec::base().builder(d), &signer, &Kid(0)).unwrap();
                                     let _ = Roa::decode(c.to_captured().as_slice(), true).unwrap().process(&d.ta, true, |_| Ok(())); } }
                }
            }
        });
    }
}

/// Runs jobs on dedicated OS threads, 16 at a time.
fn on_fresh_threads<T: Send, J: Sync>(jobs: &[J], f: impl Fn(&J) -> T + Sync) -> Vec<T> {
    let mut out = Vec::with_capacity(jobs.len());
    for chunk in jobs.chunks(16) {
        std::thread::scope(|sc| {
            let hs: Vec<_> = chunk.iter().map(|j| { let f = &f; sc.spawn(move || f(j)) }).collect();
            for h in hs { out.push(h.join().expect("sequence thread")) }
        });
    }
    out
}

fn space_history(ctx: &Ctx, d: &Dom) {
    let thorough = ctx.tier.is_thorough();
    let sp = ctx.space("history.independent",
        "sequences on dedicated OS threads (std::thread, never a pool worker): one predecessor p, then all 14 subjects (builds of every object kind with full built-vs-decoded observation and verdict; an expired certificate, a truncated one, a ROA read as a manifest / ASPA, a ROA under the wrong issuer, a 300-entry CRL, unsorted resource chains) in order and -- thorough -- in reverse; every observation must equal the subject's observation when it runs first thing on its own fresh thread. Predecessors take every exit path of the same API family: the subjects themselves; every builder route with a signer failing in get_key_info / sign / sign_one_off / rand at its 1st and 2nd call; builders fed an iterator that panics after 0..3 items (catch_unwind); encoders writing into a sink that fails after k octets (every k for a ROA content and IP resources, every 4th for a TBSCertList, every 16th for a certificate); decoders given a certificate / ROA / CRL cut at every 24th octet; validation with a flipped signature bit; objects with the same serial, key and names but other content. Thorough also runs all ordered pairs of one predecessor per exit-path class. non-trivial = distinct predecessors (pairs); outcome = predecessor class");
    let mut preds: Vec<Pred> = vec![];
    for i in 0..N_SUBJECTS { preds.push(Pred::Subject(i)) }
    for route in 0..ROUTES.len() { for method in 0..4 { for at_call in 0..2 { preds.push(Pred::FailingSigner { route, method, at_call }) } } }
    for target in 0..5 { for after in 0..4 { preds.push(Pred::PanickingIter { target, after }) } }
    for (doc, step, max) in [(0usize, 4usize, 160usize), (1, 1, 48), (2, 16, 1200), (3, 1, 40)] { let mut k = 0; while k <= max { preds.push(Pred::FailingWriter { doc, after: k }); k += step } }
    for (doc, len) in [(0usize, 1200usize), (1, 1900), (2, 420)] { let mut at = 0; while at < len { preds.push(Pred::Truncated { doc, at }); at += 24 } }
    for i in 0..3 { preds.push(Pred::BadSignature(i)); preds.push(Pred::SameIdentity(i)) }
    // baseline: each subject first thing on its own fresh thread
    let idx: Vec<usize> = (0..N_SUBJECTS).collect();
    let baseline = on_fresh_threads(&idx, |&i| subject(d, i));
    let again = on_fresh_threads(&idx, |&i| subject(d, i));
    for i in 0..N_SUBJECTS {
        if baseline[i] != again[i] { ctx.machinery_error(format!("history: subject#{i} is not reproducible on a fresh thread")) }
        if baseline[i].starts_with("PANIC") { ctx.fail("C05.history.independent", format!("subject#{i} alone on a fresh thread"), baseline[i].clone()) }
    }
    let mut seqs: Vec<Vec<Pred>> = preds.iter().map(|p| vec![p.clone()]).collect();
    if thorough {
        let mut reps: Vec<Pred> = vec![]; let mut seen = BTreeSet::new();
        for p in &preds { if seen.insert(p.class()) { reps.push(p.clone()) } }
        for a in &reps { for b in &reps { seqs.push(vec![a.clone(), b.clone()]) } }
    }
    let mut slow: Vec<(usize, usize, usize)> = vec![];
    for route in [2usize, 3, 4, 7, 8] { for (m, at) in [(0usize, 0usize), (1, 0), (1, 1), (2, 0), (3, 0)] { slow.push((route, m, at)) } }
    let (results, res) = std::thread::scope(|sc| {
      // the slow-signer runs of the environment space sleep most of the time: start them now
      let hs: Vec<_> = slow.iter().map(|&(route, m, at)| sc.spawn(move || {
          WHOLE_SECONDS.with(|w| w.set((true, 0)));
          let s = HookSigner::new(d, m, at, 1100);
          let r = match guard(|| build_route(d, route, &s, true)) { Ok(r) => r, Err(p) => Err(format!("PANIC {p}")) };
          WHOLE_SECONDS.with(|w| w.set((false, 0)));
          r
      })).collect();
      let results = on_fresh_threads(&seqs, |seq| {
        for p in seq { p.run(d) }
        let mut bad: Vec<String> = vec![];
        let order: Vec<usize> = if thorough { (0..N_SUBJECTS).chain((0..N_SUBJECTS).rev()).collect() } else { (0..N_SUBJECTS).collect() };
        for i in order { let got = subject(d, i); if got != baseline[i] && bad.len() < 3 {
            let pos = got.bytes().zip(baseline[i].bytes()).position(|(a, b)| a != b).unwrap_or(0);
            bad.push(format!("subject#{i} now answers ...{}... where alone it answers ...{}...", rpki_verif::trunc(&got[pos.saturating_sub(40).min(got.len())..], 160), rpki_verif::trunc(&baseline[i][pos.saturating_sub(40).min(baseline[i].len())..], 160))) } }
        bad
      });
      let res: Vec<Result<String, String>> = hs.into_iter().map(|h| h.join().expect("slow signer thread")).collect();
      (results, res)
    });
    let mut classes: BTreeMap<String, u64> = BTreeMap::new();
    for (seq, bad) in seqs.iter().zip(results.iter()) {
        *classes.entry(match &seq[0] { Pred::Subject(_) => "after a successful evaluation", Pred::FailingSigner { .. } => "after a failing signer", Pred::PanickingIter { .. } => "after a panicking iterator",
            Pred::FailingWriter { .. } => "after a failing writer", Pred::Truncated { .. } => "after a decode error", Pred::BadSignature(_) => "after a validation error", Pred::SameIdentity(_) => "after the same identity with other content" }.to_string()).or_insert(0) += 1;
        if !bad.is_empty() { ctx.fail("C05.history.independent", format!("after [{}]", seq.iter().map(|p| p.wit()).collect::<Vec<_>>().join("; then ")), bad.join(" | ")) }
    }
    sp.evals(seqs.len() as u64 * N_SUBJECTS as u64 * if thorough { 2 } else { 1 });
    sp.nontrivial(seqs.len() as u64);
    for (k, v) in classes { sp.outcomes_n(&k, v) }
    sp.sample_str(|| format!("after [{}]: all {} subjects answer as on a fresh thread", preds[20].wit(), N_SUBJECTS));
    sp.set("subjects", serde_json::json!(N_SUBJECTS)); sp.set("predecessors", serde_json::json!(preds.len()));
    sp.done(true, &format!("{} sequences x {} subjects", seqs.len(), N_SUBJECTS));

    // ---- environment (a): TZ west and east of UTC, in a child process each
    let sp = ctx.space("environment",
        "(a) the 14 subjects evaluated in child processes of this binary with TZ=XXX+11 (west of UTC), TZ=YYY-14 (east) and TZ=UTC must give the parent's observations; (b) every builder route with clock-derived defaults (SignedObjectBuilder's default signing time in a bare signed object, a manifest, a ROA and an ASPA; SignedMessage::create) run with a signer that sleeps 1.1 s -- across a second boundary -- inside get_key_info, sign (1st and 2nd call), sign_one_off or rand, all in parallel on dedicated threads: built value and decoded twin must agree at whole seconds (sub-second parts are dropped by DER and not judged) and the object must validate; non-trivial = distinct (route, sleeping method) / time zones; outcome = kind");
    let exe = std::env::current_exe().ok();
    for tz in ["XXX+11", "YYY-14", "UTC"] {
        sp.eval(); sp.nontrivial(1); sp.outcome("time zone");
        let out = exe.as_ref().and_then(|e| std::process::Command::new(e).env("C05_CHILD", "subjects").env("TZ", tz).output().ok());
        match out {
            Some(o) if o.status.success() => {
                let lines: Vec<String> = String::from_utf8_lossy(&o.stdout).lines().filter_map(|l| l.strip_prefix("SUBJECT ").map(|x| x.to_string())).collect();
                if lines.len() != N_SUBJECTS { ctx.machinery_error(format!("environment: child with TZ={tz} printed {} subjects", lines.len())); continue }
                for i in 0..N_SUBJECTS { if lines[i] != format!("{:016x}", fnv(baseline[i].as_bytes())) { ctx.fail("C05.environment.tz", format!("TZ={tz} subject#{i}"), "the observation differs from the one taken in the parent process") } }
            }
            _ => ctx.machinery_error(format!("environment: cannot run the child process with TZ={tz}")),
        }
    }
    // ---- environment (b): slow signers (they ran while the sequences above were running)
    for (&(route, m, at), r) in slow.iter().zip(res.iter()) {
        sp.eval(); sp.nontrivial(1); sp.outcome("slow signer");
        match r {
            Ok(text) => if !text.contains("verdict=Ok") { ctx.fail("C05.environment.slow_signer", format!("{} with a signer sleeping 1.1 s in {} (call {})", ROUTES[route], HOOK_METHODS[m], at), format!("does not validate: {}", rpki_verif::trunc(text.rsplit("verdict=").next().unwrap_or(""), 200))) },
            Err(e) => ctx.fail("C05.environment.slow_signer", format!("{} with a signer sleeping 1.1 s in {} (call {})", ROUTES[route], HOOK_METHODS[m], at), e.clone()),
        }
    }
    sp.sample_str(|| "ManifestContent::into_manifest with a signer sleeping 1.1 s in sign_one_off: built signing_time() == decoded signing time at whole seconds".into());
    sp.done(true, &format!("3 time zones, {} slow-signer runs", slow.len()));
}


//============ Handed-out iterators, ownership of inputs, serde routes ========

/// All call sequences of length <= 3 over next / nth(1) / size_hint /
/// "clone and advance the clone" on an iterator the library hands out: what
/// comes out, and what is left afterwards, must be the reference list.
fn iter_sequences<I: Iterator, T: PartialEq + std::fmt::Debug>(make: &dyn Fn() -> I, render: &dyn Fn(I::Item) -> T, clone: Option<&dyn Fn(&I) -> I>) -> Option<String> {
    let reference: Vec<T> = make().map(render).collect();
    let nops = if clone.is_some() { 4 } else { 3 };
    let mut seqs: Vec<Vec<usize>> = vec![vec![]];
    for len in 1..=3 { for s in sequences(nops, len, len) { seqs.push(s) } }
    for seq in seqs {
        let mut it = make(); let mut pos = 0usize;
        for &op in &seq {
            match op {
                0 => { let got = it.next().map(render); if got.as_ref() != reference.get(pos) { return Some(format!("after {seq:?}: next() gave {got:?}, the list says {:?}", reference.get(pos))) } if pos < reference.len() { pos += 1 } }
                1 => { let got = it.nth(1).map(render); if got.as_ref() != reference.get(pos + 1) { return Some(format!("after {seq:?}: nth(1) gave {got:?}, the list says {:?}", reference.get(pos + 1))) } pos = (pos + 2).min(reference.len()) }
                2 => { let (lo, hi) = it.size_hint(); let left = reference.len() - pos; if lo > left || hi.map(|h| h < left).unwrap_or(false) { return Some(format!("after {seq:?}: size_hint() = ({lo}, {hi:?}) with {left} items left")) } }
                _ => { let mut c = clone.unwrap()(&it); let got = c.next().map(render); if got.as_ref() != reference.get(pos) { return Some(format!("after {seq:?}: a clone's next() gave {got:?}, the list says {:?}", reference.get(pos))) }
                       if c.count() != reference.len().saturating_sub(pos + 1) { return Some(format!("after {seq:?}: a clone counts wrongly")) } }
            }
        }
        let rest: Vec<T> = it.map(render).collect();
        if rest != reference[pos..] { return Some(format!("after {seq:?}: {} items are left, the list says {}", rest.len(), reference.len() - pos)) }
    }
    None
}

fn b64(b: &[u8]) -> String { use base64::Engine; base64::engine::general_purpose::STANDARD.encode(b) }

/// serde as a decode route: the JSON form (directly and through
/// serde_json::Value) must give the object back, and the JSON form of octets
/// the decoder rejects must be rejected.
fn serde_route<T: serde::Serialize + serde::de::DeserializeOwned>(built: &T, bytes: &[u8], enc: &dyn Fn(&T) -> Vec<u8>, decodes: &dyn Fn(&[u8]) -> bool) -> Option<String> {
    let text = match serde_json::to_string(built) { Ok(t) => t, Err(e) => return Some(format!("Serialize: {e}")) };
    match serde_json::from_str::<T>(&text) { Ok(x) => if enc(&x) != bytes { return Some("from_str(to_string(x)) encodes differently".into()) }, Err(e) => return Some(format!("Deserialize of the serialised object: {e}")) }
    match serde_json::to_value(built).and_then(serde_json::from_value::<T>) { Ok(x) => if enc(&x) != bytes { return Some("from_value(to_value(x)) encodes differently".into()) }, Err(e) => return Some(format!("through serde_json::Value: {e}")) }
    let mut cuts: Vec<usize> = (0..bytes.len()).step_by((bytes.len() / 12).max(1)).collect(); cuts.push(bytes.len() - 1);
    for cut in cuts {
        let mut variants = vec![bytes[..cut].to_vec()];
        let mut flipped = bytes.to_vec(); flipped[cut] ^= 0x20; variants.push(flipped);
        for v in variants {
            let want = decodes(&v);
            let got = serde_json::from_str::<T>(&format!("\"{}\"", b64(&v))).is_ok();
            if want != got { return Some(format!("octets the decoder {} are {} by Deserialize (cut/flip at {cut})", if want { "accepts" } else { "rejects" }, if got { "accepted" } else { "rejected" })) }
        }
    }
    None
}

fn space_usage(ctx: &Ctx, d: &Dom) {
    let sp = ctx.space("usage",
        "handed_out: every call sequence of length <= 3 over next / nth(1) / size_hint / clone-and-advance on every iterator the built and decoded objects hand out (manifest iter and iter_uris, CRL revoked_certs().iter(), ROA v4/v6 addrs iter, iter, iter_origins, ASPA provider iter, IpBlocks / AsBlocks iter and iter_asns) against the collected list; ownership: certificates, manifests, signed objects and signed messages built from inputs that are views into a larger shared buffer, from_static, or have live clones that are mutated / dropped afterwards, against the same objects built from private copies (octets and accessors), and resource chains that share storage with a clone that is then intersected; serde: every Serialize/Deserialize type in scope (Cert, Crl, Manifest, Roa, Aspa, IdCert, RpkiCaCsr) through to_string/from_str and serde_json::Value, and Deserialize of rejected octets (cuts and bit flips) must reject exactly when decode does; non-trivial = distinct checks; outcome = family");
    let signer = CaseSigner::new(&d.signer, 7);
    let so = SoSpec::base();
    let files = mft_files();
    let base_uri = d.dirs[1].clone();
    // ---- the objects (a refusal or panic here is the library's, reported as a violation)
    let setup = guard(|| -> Result<_, String> {
    let mft = ManifestContent::new(d.serials[3].1, d.instants[1], d.instants[3], DigestAlgorithm::sha256(), [0usize, 3, 5, 1].iter().map(|&i| FileAndHash::new(files[i].0.clone(), files[i].1.clone())))
        .into_manifest(so.builder(d), &signer, &Kid(0)).map_err(|e| e.to_string())?;
    let crl = TbsCertList::new(RpkiSignatureAlgorithm::default(), d.issuer_name(1, 0), d.instants[1], d.instants[3], (0..4).map(|i| CrlEntry::new(d.serials[i + 1].1, d.instants[i])).collect::<Vec<_>>(),
        d.signer.public(0).key_identifier(), d.serials[4].1).into_crl(&d.signer, &Kid(0)).map_err(|e| e.to_string())?;
    let a4 = roa_alphabet(true); let a6 = roa_alphabet(false);
    let roa = { let mut b = RoaBuilder::new(Asn::from_u32(65536)); for i in [1usize, 0, 7] { b.push_v4(a4[i]) } for i in [9usize, 3] { b.push_v6(a6[i]) } b.finalize(so.builder(d), &signer, &Kid(0)).map_err(|e| e.to_string())? };
    let aspa = AspaBuilder::new(Asn::from_u32(0), vec![Asn::from_u32(65536), Asn::from_u32(1), Asn::from_u32(4294967295)]).map_err(|e| e.to_string())?.finalize(so.builder(d), &signer, &Kid(0)).map_err(|e| e.to_string())?;
    let cert = CertSpec { v4: ResCh::Blocks(vec![3, 0, 2]), v6: ResCh::Blocks(vec![1, 3]), asn: ResCh::Blocks(vec![2, 0, 3]), ..CertSpec::base(CKind::Ca) }.build(d).into_cert(&d.signer, &Kid(0)).map_err(|e| e.to_string())?;
    let idc = IdCert::new_ee(&d.signer.public(4), d.validity((1, 3)), &Kid(0), &signer).map_err(|e| e.to_string())?;
    let csr_bytes = Csr::construct_rpki_ca(&d.signer, &Kid(3), &d.dirs[1], &d.mfts[1], d.https[2].as_ref()).map_err(|e| e.to_string())?;
    let csr = RpkiCaCsr::decode(csr_bytes.as_slice()).map_err(|e| format!("the library's decoder refuses a CSR it built: {e}"))?;
    let mft_t = Manifest::decode(mft.to_captured().as_slice(), true).map_err(|e| format!("the library's decoder refuses an object it built: {e}"))?; let crl_t = Crl::decode(crl.to_captured().as_slice()).map_err(|e| format!("the library's decoder refuses an object it built: {e}"))?;
    let roa_t = Roa::decode(roa.to_captured().as_slice(), true).map_err(|e| format!("the library's decoder refuses an object it built: {e}"))?; let aspa_t = Aspa::decode(aspa.to_captured().as_slice(), true).map_err(|e| format!("the library's decoder refuses an object it built: {e}"))?;
    let cert_t = Cert::decode(cert.to_captured().as_slice()).map_err(|e| format!("the library's decoder refuses an object it built: {e}"))?;
        Ok((mft, crl, roa, aspa, cert, idc, csr_bytes, csr, mft_t, crl_t, roa_t, aspa_t, cert_t))
    });
    let (mft, crl, roa, aspa, cert, idc, csr_bytes, csr, mft_t, crl_t, roa_t, aspa_t, cert_t) = match setup {
        Ok(Ok(x)) => x,
        Ok(Err(e)) | Err(e) => { sp.eval(); ctx.fail("C05.usage.build", "the representative objects of the usage space", e); sp.done(true, "setup failed"); return }
    };
    let mut checks: Vec<(String, Box<dyn Fn() -> Option<String> + Sync + '_>)> = vec![];
    // ---- handed_out
    for (who, m) in [("built", &mft), ("decoded", &mft_t)] {
        let bu = &base_uri;
        checks.push((format!("handed_out {who} manifest iter"), Box::new(move || iter_sequences(&|| m.content().iter(), &|f| format!("{}={}", hex(f.file()), hex(f.hash())), Some(&|i| i.clone())))));
        checks.push((format!("handed_out {who} manifest iter_uris"), Box::new(move || iter_sequences(&|| m.content().iter_uris(bu), &|(u, h)| format!("{u}={}", hex(h.as_slice())), None))));
    }
    for (who, c) in [("built", &crl), ("decoded", &crl_t)] {
        checks.push((format!("handed_out {who} CRL revoked_certs iter"), Box::new(move || iter_sequences(&|| c.revoked_certs().iter(), &|e| format!("{}@{}", e.user_certificate, r_time(e.revocation_date)), Some(&|i| i.clone())))));
    }
    for (who, r) in [("built", &roa), ("decoded", &roa_t)] {
        checks.push((format!("handed_out {who} ROA v4_addrs iter"), Box::new(move || iter_sequences(&|| r.content().v4_addrs().iter(), &|a| format!("{a:?}"), Some(&|i| i.clone())))));
        checks.push((format!("handed_out {who} ROA v6_addrs iter"), Box::new(move || iter_sequences(&|| r.content().v6_addrs().iter(), &|a| format!("{a:?}"), Some(&|i| i.clone())))));
        checks.push((format!("handed_out {who} ROA iter"), Box::new(move || iter_sequences(&|| r.content().iter(), &|a| a.to_string(), None))));
        checks.push((format!("handed_out {who} ROA iter_origins"), Box::new(move || iter_sequences(&|| r.content().iter_origins(), &|a| format!("{a:?}"), None))));
    }
    for (who, a) in [("built", &aspa), ("decoded", &aspa_t)] {
        checks.push((format!("handed_out {who} ASPA provider iter"), Box::new(move || iter_sequences(&|| a.content().provider_as_set().iter(), &|x| x.to_string(), Some(&|i| i.clone())))));
    }
    for (who, c) in [("built", &cert), ("decoded", &cert_t)] {
        checks.push((format!("handed_out {who} certificate resource iterators"), Box::new(move || {
            let v4 = c.v4_resources().to_blocks().ok()?; let v6 = c.v6_resources().to_blocks().ok()?; let asb = c.as_resources().to_blocks().ok()?;
            iter_sequences(&|| v4.iter(), &|b| format!("{}", b.display_v4()), None).or_else(|| iter_sequences(&|| v6.iter(), &|b| format!("{}", b.display_v6()), None))
                .or_else(|| iter_sequences(&|| asb.iter(), &|b| b.to_string(), None)).or_else(|| iter_sequences(&|| asb.iter_asns(), &|b| b.to_string(), None))
        })));
    }
    // ---- serde routes
    checks.push(("serde Cert".into(), Box::new(|| serde_route(&cert, cert.to_captured().as_slice(), &|x: &Cert| x.to_captured().as_slice().to_vec(), &|b| Cert::decode(b).is_ok()))));
    checks.push(("serde Crl".into(), Box::new(|| serde_route(&crl, crl.to_captured().as_slice(), &|x: &Crl| x.to_captured().as_slice().to_vec(), &|b| Crl::decode(b).is_ok()))));
    checks.push(("serde Manifest".into(), Box::new(|| serde_route(&mft, mft.to_captured().as_slice(), &|x: &Manifest| x.to_captured().as_slice().to_vec(), &|b| Manifest::decode(b, true).is_ok()))));
    checks.push(("serde Roa".into(), Box::new(|| serde_route(&roa, roa.to_captured().as_slice(), &|x: &Roa| x.to_captured().as_slice().to_vec(), &|b| Roa::decode(b, true).is_ok()))));
    checks.push(("serde Aspa".into(), Box::new(|| serde_route(&aspa, aspa.to_captured().as_slice(), &|x: &Aspa| x.to_captured().as_slice().to_vec(), &|b| Aspa::decode(b, true).is_ok()))));
    checks.push(("serde IdCert".into(), Box::new(|| serde_route(&idc, idc.to_captured().as_slice(), &|x: &IdCert| x.to_captured().as_slice().to_vec(), &|b| IdCert::decode(b).is_ok()))));
    checks.push(("serde RpkiCaCsr".into(), Box::new(|| serde_route(&csr, csr_bytes.as_slice(), &|x: &RpkiCaCsr| x.to_captured().as_slice().to_vec(), &|b| RpkiCaCsr::decode(b).is_ok()))));
    // ---- ownership of inputs
    for mode in 0..4usize {
        let mode_name = ["views into one larger shared buffer", "from_static", "live clones unshared / dropped after the build", "clones made before, originals dropped before the build"][mode];
        let signer = &signer; let files = &files; let so = &so;
        checks.push((format!("ownership certificate URIs: {mode_name}"), Box::new(move || {
            let spec = CertSpec::base(CKind::Ca);
            let reference = spec.build(d);
            let texts = [d.crls[1].as_str().to_string(), d.cers[1].as_str().to_string(), d.dirs[1].as_str().to_string(), d.mfts[1].as_str().to_string()];
            let big = Bytes::from(format!("<<{}|{}|{}|{}>>", texts[0], texts[1], texts[2], texts[3]));
            let mut at = 2usize; let mut uris: Vec<uri::Rsync> = vec![];
            for t in &texts { let u = match mode { 0 => uri::Rsync::from_bytes(big.slice(at..at + t.len())), 1 => uri::Rsync::from_bytes(Bytes::from_static(Box::leak(t.clone().into_boxed_str()).as_bytes())), _ => uri::Rsync::from_string(t.clone()) }.ok()?; at += t.len() + 1; uris.push(u) }
            let keep: Vec<uri::Rsync> = uris.clone();
            if mode == 3 { let originals = std::mem::replace(&mut uris, keep.clone()); drop(originals) }
            let mut t = spec.build(d);
            t.set_crl_uri(Some(uris[0].clone())); t.set_ca_issuer(Some(uris[1].clone())); t.set_ca_repository(Some(uris[2].clone())); t.set_rpki_manifest(Some(uris[3].clone()));
            if mode == 2 { for mut u in uris { u.unshare(); u.path_into_dir() } for mut u in keep { u.path_into_dir(); drop(u) } }
            drop(big);
            let mut r = CaseResult::default();
            form_check(&mut r, &cap(reference.encode_ref()), &cap(t.encode_ref()), &obs_tbs(&reference), &obs_tbs(&t));
            let built = t.into_cert(&d.signer, &Kid(0)).ok()?;
            twin(&mut r, &built, |c| c.to_captured().as_slice().to_vec(), |b| Cert::decode(b).map_err(|e| e.to_string()), obs_cert);
            r.fails.first().map(|(o, x)| format!("{o}: {x}"))
        })));
        checks.push((format!("ownership manifest entries, eContent and message payload: {mode_name}"), Box::new(move || {
            let names: Vec<&(Vec<u8>, Vec<u8>)> = [0usize, 3, 5].iter().map(|&i| &files[i]).collect();
            let mut all = vec![]; for (n, h) in &names { all.extend_from_slice(n); all.extend_from_slice(h) }
            let big = Bytes::from(all);
            let mut at = 0usize; let mut items: Vec<FileAndHash<Bytes, Bytes>> = vec![];
            for (n, h) in &names { let (a, b) = match mode { 0 => (big.slice(at..at + n.len()), big.slice(at + n.len()..at + n.len() + h.len())),
                    1 => (Bytes::from_static(Box::leak(n.clone().into_boxed_slice())), Bytes::from_static(Box::leak(h.clone().into_boxed_slice()))), _ => (Bytes::from(n.to_vec()), Bytes::from(h.to_vec())) };
                at += n.len() + h.len(); items.push(FileAndHash::new(a, b)) }
            let keep = items.clone();
            if mode == 3 { let o = std::mem::replace(&mut items, keep.clone()); drop(o) }
            let reference = ManifestContent::new(d.serials[3].1, d.instants[1], d.instants[3], DigestAlgorithm::sha256(), names.iter().map(|(n, h)| FileAndHash::new(n.clone(), h.clone()))).into_manifest(so.builder(d), signer, &Kid(0)).ok()?;
            let built = ManifestContent::new(d.serials[3].1, d.instants[1], d.instants[3], DigestAlgorithm::sha256(), items.iter()).into_manifest(so.builder(d), signer, &Kid(0)).ok()?;
            drop(items); drop(keep); drop(big);
            let mut r = CaseResult::default();
            form_check(&mut r, reference.to_captured().as_slice(), built.to_captured().as_slice(), &obs_manifest(&reference, &d.dirs[1]), &obs_manifest(&built, &d.dirs[1]));
            twin(&mut r, &built, |m| m.to_captured().as_slice().to_vec(), |b| Manifest::decode(b, true).map_err(|e| e.to_string()), |m| obs_manifest(m, &d.dirs[1]));
            // eContent of a bare signed object and the payload of a signed message
            let payload = der::seq(&[der::octets(&[0x5a; 40])]);
            let bigp = Bytes::from([b"<<<".to_vec(), payload.clone(), b">>>".to_vec()].concat());
            let view = match mode { 0 => bigp.slice(3..3 + payload.len()), 1 => Bytes::from_static(Box::leak(payload.clone().into_boxed_slice())), _ => Bytes::from(payload.clone()) };
            let ct = || Oid(Bytes::copy_from_slice(&der::oid(&[1, 2, 840, 113549, 1, 9, 16, 1, 35])[2..]));
            let mut b1 = so.builder(d); b1.set_as_resources_inherit(); let mut b2 = so.builder(d); b2.set_as_resources_inherit();
            let o1 = b1.finalize(ct(), Bytes::from(payload.clone()), signer, &Kid(0)).ok()?; let o2 = b2.finalize(ct(), view.clone(), signer, &Kid(0)).ok()?;
            drop(bigp);
            form_check(&mut r, &cap(o1.encode_ref()), &cap(o2.encode_ref()), &obs_sigobj(&o1), &obs_sigobj(&o2));
            let m = SignedMessage::create(view.clone(), d.validity((1, 3)), &Kid(0), signer).ok()?; drop(view);
            let mt = SignedMessage::decode(m.to_captured().as_slice(), true).ok()?;
            if mt.content().to_bytes().as_ref() != payload.as_slice() || m.content().to_bytes().as_ref() != payload.as_slice() { r.fail("form_independent", "the message payload is not the one handed in") }
            r.fails.first().map(|(o, x)| format!("{o}: {x}"))
        })));
    }
    checks.push(("ownership resource chains sharing storage with a clone that is intersected".into(), Box::new(|| {
        let v4: IpBlocks = pki::ip_blocks(32, &[v4_atoms()[0], v4_atoms()[2], v4_atoms()[3]]); let asb: AsBlocks = pki::as_blocks(&[as_atoms()[0], as_atoms()[2], as_atoms()[3]]);
        let before = (r_ipblocks(&v4, true), r_asblocks(&asb));
        let mut t = CertSpec::base(CKind::Ca).build(d); t.set_v4_resources(IpResources::blocks(v4.clone())); t.set_as_resources(AsResources::blocks(asb.clone()));
        let reference = cap(t.encode_ref());
        let (mut c4, mut ca) = (v4.clone(), asb.clone());
        c4.intersection_assign(&pki::ip_blocks(32, &[v4_atoms()[2]])); ca.intersection_assign(&pki::as_blocks(&[as_atoms()[3]]));
        if (r_ipblocks(&v4, true), r_asblocks(&asb)) != before { return Some("intersecting a clone changed the original chain".into()) }
        if cap(t.encode_ref()) != reference { return Some("intersecting a clone changed the certificate the chain was put into".into()) }
        if r_ipblocks(&c4, true) != r_ipblocks(&v4.intersection(&pki::ip_blocks(32, &[v4_atoms()[2]])), true) || r_asblocks(&ca) != r_asblocks(&asb.intersection(&pki::as_blocks(&[as_atoms()[3]]))) { return Some("intersection_assign on a shared chain differs from intersection".into()) }
        None
    })));
    let results: Vec<Option<String>> = checks.par_iter().map(|(_, f)| match guard(|| f()) { Ok(x) => x, Err(p) => Some(format!("PANIC {p}")) }).collect();
    for ((name, _), res) in checks.iter().zip(results.iter()) {
        sp.eval(); sp.nontrivial(1); sp.outcome(name.split(' ').next().unwrap_or("check"));
        if let Some(x) = res { ctx.fail(&format!("C05.usage.{}", name.split(' ').next().unwrap_or("check")), name.clone(), x.clone()) }
    }
    sp.sample_str(|| checks[0].0.clone());
    sp.done(true, &format!("{} checks", checks.len()));
}

//============ Operation sequences on every builder (`builder.sequences.*`) ===
//
// Explicit-state exploration, one space per builder: every sequence of at
// most 3 (thorough: 4) operations after EVERY construction form (empty /
// sorted / reverse-sorted / unsorted / with duplicates where the constructor
// admits them), out of {each mutator with each element of a small menu chosen
// around RELATIONS to what is already inside (already present, smaller than
// all, larger than all, between two, equal to the first / last), remove /
// clear where offered, clone (continue on the clone with the original kept,
// and on the original with the clone kept -- both are finalized), the read
// accessors in between}, then finalize. Judged as everywhere in C05 (the
// built object decodes, validates, re-encodes byte-identically, built value
// and decoded twin agree on every accessor) plus
//   * `history_independent`: octet-identical to a twin built freshly and
//     directly from the final content (which only ever saw the final state);
//   * `model`: a tiny reference model of the content (a set / list of what
//     was put in and not taken out again): what the decoded twin lists is,
//     as a SET, what the model holds -- so a builder may sort or merge, but
//     may neither lose, invent nor repeat an element -- and answers of the
//     mutators that have one (add_provider) are the model's.
// States = distinct model states passed through; transitions = operations
// applied; traces = operation sequences finalized against the library.

/// Twins built directly from a final content, shared between the sequences
/// that end in the same content (building is deterministic).
struct Fresh(std::sync::Mutex<BTreeMap<String, std::sync::Arc<Vec<u8>>>>);
impl Fresh {
    fn new() -> Fresh { Fresh(std::sync::Mutex::new(BTreeMap::new())) }
    fn get(&self, key: &str, make: impl FnOnce() -> Result<Vec<u8>, String>) -> Result<std::sync::Arc<Vec<u8>>, String> {
        if let Some(x) = self.0.lock().unwrap().get(key) { return Ok(x.clone()) }
        let v = std::sync::Arc::new(make()?);
        Ok(self.0.lock().unwrap().entry(key.to_string()).or_insert(v).clone())
    }
}

fn has_dup<T: PartialEq>(l: &[T]) -> bool { (1..l.len()).any(|i| l[..i].contains(&l[i])) }
fn as_set(mut v: Vec<String>) -> Vec<String> { v.sort(); v.dedup(); v }

fn history_check(r: &mut CaseResult, fresh: &[u8], bytes: &[u8]) {
    if fresh != bytes {
        let pos = bytes.iter().zip(fresh.iter()).position(|(a, b)| a != b).unwrap_or(bytes.len().min(fresh.len()));
        r.fail("history_independent", format!("the object reached through this sequence differs from the one built directly from the final content: {} vs {} octets, first difference at {pos}", bytes.len(), fresh.len()));
    }
}

/// One model state passed through (the initial one included).
fn seq_state(r: &mut CaseResult, key: &str, transition: bool) { r.states.push(fnv(key.as_bytes())); if transition { r.transitions += 1 } }

#[derive(Clone, Debug)]
struct SeqCase { ctor: usize, path: Vec<usize> }

fn seq_cases(n_ctors: usize, n_ops: usize, depth: usize, ctor_only: impl Fn(usize) -> bool) -> Vec<SeqCase> {
    let paths = sequences(n_ops, 0, depth);
    let mut v = vec![];
    for c in 0..n_ctors { for p in &paths { if ctor_only(c) && !p.is_empty() { continue } v.push(SeqCase { ctor: c, path: p.clone() }) } }
    v
}

/// The builders alive in one sequence: `clone` adds one; operations go to
/// the active one; every one of them is finalized against its own model.
struct Lives<B, M> { v: Vec<(B, M)>, active: usize }
impl<B, M: Clone> Lives<B, M> {
    fn new(b: B, m: M) -> Self { Lives { v: vec![(b, m)], active: 0 } }
    fn b(&mut self) -> &mut B { &mut self.v[self.active].0 }
    fn m(&mut self) -> &mut M { &mut self.v[self.active].1 }
    fn fork(&mut self, copy: B, continue_on_copy: bool) {
        let m = self.v[self.active].1.clone();
        self.v.push((copy, m));
        if continue_on_copy { self.active = self.v.len() - 1 }
    }
}

const SEQ_RULE_TAIL: &str = "; oracles: decode / re-encode / accessor agreement / validation as in every C05 space + history_independent (octet-identical to a twin built directly from the final content) + model (decoded content, as a set, is what was put in and not taken out; mutator answers are the model's); states = distinct model states, transitions = operations applied; non-trivial = distinct DER produced";

//------------ AspaBuilder ----------------------------------------------------

fn space_seq_aspa(ctx: &Ctx, d: &Dom) {
    let depth = ctx.tier.pick(3usize, 4usize);
    let sp = ctx.space("builder.sequences.aspa", &format!("AspaBuilder: construct {{empty(), new([]), new([50]), new of every order of [30,50,70] (sorted, reverse, 4 unsorted), new([70,30]), new with a repeated provider (must be refused)}} then every sequence of <= {depth} add_provider(x), x in {{20 smaller than all, 30 = first, 40 between, 50 middle, 60 between, 70 = last, 80 larger than all}}, then finalize (customer 45 lies between the providers); an empty set is not finalized (outside the profile); outcome = providers in the final set / refusal{SEQ_RULE_TAIL}"));
    const CUST: u32 = 45;
    let lists: Vec<Option<Vec<u32>>> = vec![None, Some(vec![]), Some(vec![50]), Some(vec![30, 50, 70]), Some(vec![70, 50, 30]), Some(vec![50, 70, 30]),
        Some(vec![70, 30, 50]), Some(vec![30, 70, 50]), Some(vec![50, 30, 70]), Some(vec![70, 30]), Some(vec![30, 50, 30]), Some(vec![50, 50])];
    let menu = [20u32, 30, 40, 50, 60, 70, 80];
    let cases = seq_cases(lists.len(), menu.len(), depth, |c| lists[c].as_ref().map(|l| has_dup(l)).unwrap_or(false));
    let so = SoSpec::base();
    let fresh = Fresh::new();
    let asn = Asn::from_u32;
    run_cases(ctx, &sp, "sequences.aspa", &cases,
        |c| format!("AspaBuilder::{}{} -> finalize", match &lists[c.ctor] { None => "empty()".to_string(), Some(l) => format!("new({l:?})") },
            c.path.iter().map(|&i| format!(" -> add_provider({})", menu[i])).collect::<String>()),
        |c| {
            let mut r = CaseResult::default();
            let signer = so.signer(d);
            let res = guard(|| -> Result<(), String> {
                let mut model: BTreeSet<u32> = BTreeSet::new();
                let mut b = match &lists[c.ctor] {
                    None => AspaBuilder::empty(asn(CUST)),
                    Some(l) => match AspaBuilder::new(asn(CUST), l.iter().map(|&x| asn(x)).collect::<Vec<_>>()) {
                        Ok(b) => { if has_dup(l) { r.fail("model", "the constructor accepted a list that names a provider twice") } model.extend(l.iter().copied()); b }
                        Err(e) => { if has_dup(l) { r.label = "constructor refused a repeated provider".into(); return Ok(()) }
                                    return Err(format!("AspaBuilder::new refused a list without repetition: {e}")) }
                    },
                };
                seq_state(&mut r, &format!("{model:?}"), false);
                for &i in &c.path {
                    let x = menu[i];
                    let is_new = !model.contains(&x);
                    match (b.add_provider(asn(x)), is_new) {
                        (Ok(()), true) => { model.insert(x); }
                        (Err(_), false) => {}
                        (Ok(()), false) => r.fail("model", format!("add_provider({x}) answered Ok although {x} is already among {model:?}")),
                        (Err(e), true) => r.fail("model", format!("add_provider({x}) answered Err({e}) although {x} is not among {model:?}")),
                    }
                    seq_state(&mut r, &format!("{model:?}"), true);
                }
                if model.is_empty() { r.label = "empty provider set (outside the profile): not finalized".into(); return Ok(()) }
                r.label = format!("{} providers", model.len());
                let built = b.finalize(so.builder(d), &signer, &Kid(0)).map_err(|e| e.to_string())?;
                let Some((bytes, decoded)) = twin(&mut r, &built, |m| m.to_captured().as_slice().to_vec(), |x| Aspa::decode(x, true).map_err(|e| e.to_string()), obs_aspa) else { return Ok(()) };
                validate_signed(d, &mut r, &bytes, &so);
                if let Err(e) = decoded.clone().process(&d.ta, true, |_| Ok(())) { r.fail("validate", format!("Aspa::process: {e}")) }
                let want: Vec<u32> = model.iter().copied().collect();
                for (who, a) in [("built", &built), ("decoded", &decoded)] {
                    let got: Vec<u32> = a.content().provider_as_set().iter().map(|x| x.into_u32()).collect();
                    if got != want || a.content().provider_as_set().len() != want.len() || a.content().customer_as() != asn(CUST) {
                        r.fail("model", format!("the {who} ASPA lists customer {} providers {got:?} (len() = {}), put in: customer {CUST} providers {want:?}", a.content().customer_as(), a.content().provider_as_set().len()));
                    }
                }
                let f = fresh.get(&format!("{want:?}"), || { let mut fb = AspaBuilder::empty(asn(CUST)); for &x in &want { fb.add_provider(asn(x)).map_err(|e| e.to_string())? }
                    Ok(fb.finalize(so.builder(d), &signer, &Kid(0)).map_err(|e| e.to_string())?.to_captured().as_slice().to_vec()) })?;
                history_check(&mut r, &f, &bytes);
                Ok(())
            });
            match res { Ok(Ok(())) => {}, Ok(Err(e)) => r.fail("build", e), Err(p) => r.fail("build", p) }
            r
        });
    sp.done(true, &format!("{} operation sequences: {} constructions x every add_provider sequence of length <= {depth} over {} elements", cases.len(), lists.len(), menu.len()));
}

//------------ RoaBuilder / RoaIpAddressesBuilder ------------------------------

#[derive(Clone, Copy, Debug)]
enum RoaOp { Push4(usize), PushAddr4(usize), Slice4(&'static [usize]), Extend4(&'static [usize]), Push6(usize), Slice6(&'static [usize]), SetAs(u32), Observe, CloneOn, CloneOff }

#[derive(Clone, Debug)]
struct RoaModel { asn: u32, v4: Vec<usize>, v6: Vec<usize> }

fn r_roa_one(x: RoaIpAddress) -> String { format!("{:032x}/{}-{:?}", x.prefix().addr().to_bits(), x.prefix().addr_len(), x.max_length()) }

fn space_seq_roa(ctx: &Ctx, d: &Dom) {
    use rpki::repository::roa::RoaIpAddressesBuilder;
    let depth = ctx.tier.pick(3usize, 4usize);
    let sp = ctx.space("builder.sequences.roa", &format!("RoaBuilder / RoaIpAddressesBuilder: construct {{new(as), with_addresses(as, v4, v6) with the address builders filled (push / extend_from_slice / Extend / Default) with lists that are empty, sorted, reverse-sorted, unsorted, with an exact duplicate}} then every sequence of <= {depth} operations out of {{push_v4 of the covering /8, the /16 with the same network address, the /16 again with a maxLength; push_v4_addr of the adjacent /16; extend_v4_from_slice([last address, /16]); v4_mut().extend([/16, /8]); push_v6; extend_v6_from_slice; set_as_id; the read accessors (as_id, v4 / v6 to_addresses / to_resources / encode_ref, to_attestation); clone (with_addresses(as_id(), v4().clone(), v6().clone())) continuing on the copy / on the original}}, then finalize every live builder; a builder without prefixes is not finalized (documented panic); outcome = prefixes per family in the final state{SEQ_RULE_TAIL}"));
    let a4 = roa_alphabet(true); let a6 = roa_alphabet(false);
    // (as, v4 list, how v4 is filled, v6 list)
    let ctors: Vec<(&str, Vec<usize>, u8, Vec<usize>)> = vec![
        ("new(as)", vec![], 0, vec![]),
        ("with_addresses(v4=[/8,/16,adjacent/16] pushed, v6=[])", vec![0, 1, 3], 0, vec![]),
        ("with_addresses(v4=[adjacent/16,/16,/8] extend_from_slice, v6=[/32])", vec![3, 1, 0], 1, vec![0]),
        ("with_addresses(v4=[/16,adjacent/16,/8] Extend, v6=[])", vec![1, 3, 0], 2, vec![]),
        ("with_addresses(v4=[/16,/16], v6=[/34,/34])", vec![1, 1], 0, vec![4, 4]),
        ("with_addresses(v4=[] Default, v6=[adjacent/48,/32])", vec![], 3, vec![3, 0]),
    ];
    let ops = [RoaOp::Push4(0), RoaOp::Push4(1), RoaOp::Push4(8), RoaOp::PushAddr4(3), RoaOp::Slice4(&[9, 1]), RoaOp::Extend4(&[1, 0]), RoaOp::Push6(1), RoaOp::Slice6(&[1, 0]),
        RoaOp::SetAs(4294967295), RoaOp::Observe, RoaOp::CloneOn, RoaOp::CloneOff];
    let cases = seq_cases(ctors.len(), ops.len(), depth, |_| false);
    let so = SoSpec::base();
    let fresh = Fresh::new();
    let key = |m: &RoaModel| format!("{} {:?} {:?}", m.asn, m.v4, m.v6);
    run_cases(ctx, &sp, "sequences.roa", &cases,
        |c| format!("RoaBuilder::{}{} -> finalize", ctors[c.ctor].0, c.path.iter().map(|&i| format!(" -> {:?}", ops[i])).collect::<String>()),
        |c| {
            let mut r = CaseResult::default();
            let signer = so.signer(d);
            let res = guard(|| -> Result<(), String> {
                let (_, l4, how, l6) = &ctors[c.ctor];
                let e4: Vec<RoaIpAddress> = l4.iter().map(|&i| a4[i]).collect(); let e6: Vec<RoaIpAddress> = l6.iter().map(|&i| a6[i]).collect();
                let b = if c.ctor == 0 { RoaBuilder::new(asn_of(65536)) } else {
                    let mut b4 = if *how == 3 { RoaIpAddressesBuilder::default() } else { RoaIpAddressesBuilder::new() };
                    match how { 1 => b4.extend_from_slice(&e4), 2 => b4.extend(e4.iter().copied()), _ => for x in &e4 { b4.push(*x) } }
                    let mut b6 = RoaIpAddressesBuilder::new(); for x in &e6 { b6.push_addr(x.prefix().to_v6().into(), x.prefix().addr_len(), x.max_length()) }
                    RoaBuilder::with_addresses(asn_of(65536), b4, b6)
                };
                let mut lives = Lives::new(b, RoaModel { asn: 65536, v4: l4.clone(), v6: l6.clone() });
                seq_state(&mut r, &key(lives.m()), false);
                for &i in &c.path {
                    match ops[i] {
                        RoaOp::Push4(e) => { lives.b().push_v4(a4[e]); lives.m().v4.push(e) }
                        RoaOp::PushAddr4(e) => { lives.b().push_v4_addr(a4[e].prefix().to_v4(), a4[e].prefix().addr_len(), a4[e].max_length()); lives.m().v4.push(e) }
                        RoaOp::Slice4(l) => { let v: Vec<RoaIpAddress> = l.iter().map(|&i| a4[i]).collect(); lives.b().extend_v4_from_slice(&v); lives.m().v4.extend_from_slice(l) }
                        RoaOp::Extend4(l) => { lives.b().v4_mut().extend(l.iter().map(|&i| a4[i])); lives.m().v4.extend_from_slice(l) }
                        RoaOp::Push6(e) => { lives.b().push_v6(a6[e]); lives.m().v6.push(e) }
                        RoaOp::Slice6(l) => { let v: Vec<RoaIpAddress> = l.iter().map(|&i| a6[i]).collect(); lives.b().extend_v6_from_slice(&v); lives.m().v6.extend_from_slice(l) }
                        RoaOp::SetAs(a) => { lives.b().set_as_id(asn_of(a)); lives.m().asn = a }
                        RoaOp::Observe => {
                            let m = lives.m().clone(); let b = lives.b();
                            let att = b.to_attestation();
                            let got = (b.as_id().into_u32(), as_set(att.v4_addrs().iter().map(r_roa_one).collect()), as_set(att.v6_addrs().iter().map(r_roa_one).collect()));
                            let want = (m.asn, as_set(m.v4.iter().map(|&i| r_roa_one(a4[i])).collect()), as_set(m.v6.iter().map(|&i| r_roa_one(a6[i])).collect()));
                            if got != want { r.fail("model", format!("the builder's accessors say {got:?}, put in: {want:?}")) }
                            let (x4, x6) = (as_set(b.v4().to_addresses().iter().map(r_roa_one).collect()), as_set(b.v6().to_addresses().iter().map(r_roa_one).collect()));
                            if (x4, x6) != (want.1, want.2) { r.fail("model", "v4() / v6() to_addresses() list other prefixes than were put in") }
                            let w4: IpBlocks = m.v4.iter().map(|&i| IpBlock::from(a4[i].prefix())).collect(); let w6: IpBlocks = m.v6.iter().map(|&i| IpBlock::from(a6[i].prefix())).collect();
                            if r_ipres(&b.v4().to_resources(), true) != r_ipres(&IpResources::blocks(w4), true) || r_ipres(&b.v6().to_resources(), false) != r_ipres(&IpResources::blocks(w6), false) { r.fail("model", "to_resources() covers other addresses than the prefixes put in") }
                            for (fam, eb, n) in [("v4", cap(b.v4().encode_ref()), att.v4_addrs().iter().count()), ("v6", cap(b.v6().encode_ref()), att.v6_addrs().iter().count())] {
                                match der::parse_one(&eb, true) { Some(node) if node.tag == der::T_SEQ && node.children.len() == n => {}
                                    _ => r.fail("accessors", format!("{fam}().encode_ref() = {} is not a SEQUENCE of the {n} entries to_attestation() lists", hx(&eb))) }
                            }
                        }
                        RoaOp::CloneOn | RoaOp::CloneOff => { let b = lives.b(); let copy = RoaBuilder::with_addresses(b.as_id(), b.v4().clone(), b.v6().clone()); lives.fork(copy, matches!(ops[i], RoaOp::CloneOn)) }
                    }
                    seq_state(&mut r, &key(lives.m()), true);
                }
                let n = lives.v.len();
                for (k, (b, m)) in lives.v.into_iter().enumerate() {
                    if m.v4.is_empty() && m.v6.is_empty() { r.label = "no prefixes (documented panic): not finalized".into(); continue }
                    r.label = format!("v4:{} v6:{} prefixes", ["0", "1", "2+"][m.v4.len().min(2)], ["0", "1", "2+"][m.v6.len().min(2)]);
                    let who = if n == 1 { String::new() } else { format!("live builder #{k} of {n}: ") };
                    let built = b.finalize(so.builder(d), &signer, &Kid(0)).map_err(|e| format!("{who}{e}"))?;
                    let before = r.fails.len();
                    let Some((bytes, decoded)) = twin(&mut r, &built, |m| m.to_captured().as_slice().to_vec(), |x| Roa::decode(x, true).map_err(|e| e.to_string()), obs_roa) else { continue };
                    validate_signed(d, &mut r, &bytes, &so);
                    if let Err(e) = decoded.clone().process(&d.ta, true, |_| Ok(())) { r.fail("validate", format!("Roa::process: {e}")) }
                    let got = (decoded.content().as_id().into_u32(), as_set(decoded.content().v4_addrs().iter().map(r_roa_one).collect()), as_set(decoded.content().v6_addrs().iter().map(r_roa_one).collect()));
                    let want = (m.asn, as_set(m.v4.iter().map(|&i| r_roa_one(a4[i])).collect()), as_set(m.v6.iter().map(|&i| r_roa_one(a6[i])).collect()));
                    if got != want { r.fail("model", format!("the decoded ROA holds {got:?}, put in: {want:?}")) }
                    let f = fresh.get(&key(&m), || { let mut fb = RoaBuilder::new(asn_of(m.asn)); for &i in &m.v4 { fb.push_v4(a4[i]) } for &i in &m.v6 { fb.push_v6(a6[i]) }
                        Ok(fb.finalize(so.builder(d), &signer, &Kid(0)).map_err(|e| e.to_string())?.to_captured().as_slice().to_vec()) })?;
                    history_check(&mut r, &f, &bytes);
                    for x in r.fails[before..].iter_mut() { x.1 = format!("{who}{}", x.1) }
                }
                Ok(())
            });
            match res { Ok(Ok(())) => {}, Ok(Err(e)) => r.fail("build", e), Err(p) => r.fail("build", p) }
            r
        });
    sp.done(true, &format!("{} operation sequences: {} constructions x every sequence of length <= {depth} over {} operations", cases.len(), ctors.len(), ops.len()));
}

fn asn_of(x: u32) -> Asn { Asn::from_u32(x) }

//------------ ManifestContent (file-list construction) -----------------------

#[derive(Clone, Copy, Debug)]
enum MftOp { Append(usize), DropFirst, DropLast, Renumber, Observe, CloneOn, CloneOff }

#[derive(Clone, Debug)]
struct MftModel { number: usize, files: Vec<usize> }

fn space_seq_manifest(ctx: &Ctx, d: &Dom) {
    let depth = ctx.tier.pick(3usize, 4usize);
    let sp = ctx.space("builder.sequences.manifest", &format!("ManifestContent: construct from a file list that is {{empty, one entry, sorted by name, reverse-sorted, unsorted, an exact duplicate, the same name with two hashes}} then every sequence of <= {depth} operations out of {{re-issue from the content's own iterator with one more entry (a.roa = already present, A.roa = differs in case only, b.roa = larger than all, a.roa with another hash), without the first / without the last entry (take(len() - 1)), with another manifest number; the read accessors (len, is_empty, iter, iter_uris, encode_ref, numbers and times); clone continuing on the copy / on the original}}, then into_manifest for every live value; outcome = files in the final list{SEQ_RULE_TAIL}"));
    let files = mft_files();
    let lists: Vec<Vec<usize>> = vec![vec![], vec![0], vec![1, 2, 0, 3], vec![3, 0, 2, 1], vec![0, 3, 1], vec![0, 0], vec![0, 4]];
    let ops = [MftOp::Append(0), MftOp::Append(1), MftOp::Append(3), MftOp::Append(4), MftOp::DropFirst, MftOp::DropLast, MftOp::Renumber, MftOp::Observe, MftOp::CloneOn, MftOp::CloneOff];
    let cases = seq_cases(lists.len(), ops.len(), depth, |_| false);
    let so = SoSpec::base();
    let fresh = Fresh::new();
    let base_uri = d.dirs[1].clone();
    let key = |m: &MftModel| format!("{} {:?}", m.number, m.files);
    let r_file = |i: usize| format!("{}={}", hex(&files[i].0), hex(&files[i].1));
    let fname = |i: usize| format!("{}{}", String::from_utf8_lossy(&files[i].0), if i == 4 { "(other hash)" } else { "" });
    run_cases(ctx, &sp, "sequences.manifest", &cases,
        |c| format!("ManifestContent::new({:?}){} -> into_manifest", lists[c.ctor].iter().map(|&i| fname(i)).collect::<Vec<_>>(),
            c.path.iter().map(|&i| match ops[i] { MftOp::Append(x) => format!(" -> re-issue + {}", fname(x)), o => format!(" -> {o:?}") }).collect::<String>()),
        |c| {
            let mut r = CaseResult::default();
            let signer = so.signer(d);
            let res = guard(|| -> Result<(), String> {
                let head = |n: usize| (d.serials[n].1, d.instants[1], d.instants[3], DigestAlgorithm::sha256());
                let h = head(3);
                let first = ManifestContent::new(h.0, h.1, h.2, h.3, lists[c.ctor].iter().map(|&i| FileAndHash::new(files[i].0.clone(), files[i].1.clone())));
                let mut lives = Lives::new(first, MftModel { number: 3, files: lists[c.ctor].clone() });
                seq_state(&mut r, &key(lives.m()), false);
                for &i in &c.path {
                    let cur = lives.b().clone();
                    let h = head(lives.m().number);
                    match ops[i] {
                        MftOp::Append(x) => { *lives.b() = ManifestContent::new(h.0, h.1, h.2, h.3, cur.iter().chain(std::iter::once(FileAndHash::new(Bytes::from(files[x].0.clone()), Bytes::from(files[x].1.clone())))));
                            lives.m().files.push(x) }
                        MftOp::DropFirst => { *lives.b() = ManifestContent::new(h.0, h.1, h.2, h.3, cur.iter().skip(1)); if !lives.m().files.is_empty() { lives.m().files.remove(0); } }
                        MftOp::DropLast => { *lives.b() = ManifestContent::new(h.0, h.1, h.2, h.3, cur.iter().take(cur.len().saturating_sub(1))); lives.m().files.pop(); }
                        MftOp::Renumber => { let n = if lives.m().number == 3 { 5 } else { 3 }; let h = head(n); *lives.b() = ManifestContent::new(h.0, h.1, h.2, h.3, cur.iter()); lives.m().number = n }
                        MftOp::Observe => {
                            let m = lives.m().clone(); let b = lives.b();
                            let listed: Vec<String> = b.iter().map(|f| format!("{}={}", hex(f.file()), hex(f.hash()))).collect();
                            if b.len() != listed.len() || b.is_empty() != listed.is_empty() || b.iter_uris(&base_uri).count() != listed.len() { r.fail("accessors", format!("len() = {}, is_empty() = {}, iter_uris() yields {}, iter() yields {}", b.len(), b.is_empty(), b.iter_uris(&base_uri).count(), listed.len())) }
                            if as_set(listed.clone()) != as_set(m.files.iter().map(|&i| r_file(i)).collect()) || b.manifest_number() != d.serials[m.number].1 || b.this_update() != d.instants[1] || b.next_update() != d.instants[3] {
                                r.fail("model", format!("the content's accessors say number {} files {listed:?}, put in: number {} files {:?}", b.manifest_number(), d.serials[m.number].1, m.files.iter().map(|&i| fname(i)).collect::<Vec<_>>())) }
                            let _ = (cap(b.encode_ref()), b.is_stale(), r_digest_alg(b.file_hash_alg()));
                        }
                        MftOp::CloneOn | MftOp::CloneOff => lives.fork(cur, matches!(ops[i], MftOp::CloneOn)),
                    }
                    seq_state(&mut r, &key(lives.m()), true);
                }
                let n = lives.v.len();
                for (k, (b, m)) in lives.v.into_iter().enumerate() {
                    r.label = format!("{} files", m.files.len().min(5));
                    let who = if n == 1 { String::new() } else { format!("live value #{k} of {n}: ") };
                    let before = r.fails.len();
                    let built = b.into_manifest(so.builder(d), &signer, &Kid(0)).map_err(|e| format!("{who}{e}"))?;
                    let Some((bytes, decoded)) = twin(&mut r, &built, |m| m.to_captured().as_slice().to_vec(), |x| Manifest::decode(x, true).map_err(|e| e.to_string()), |m| obs_manifest(m, &base_uri)) else { continue };
                    validate_signed(d, &mut r, &bytes, &so);
                    if let Err(e) = decoded.clone().validate_at(&d.ta, true, d.instants[1]) { r.fail("validate", format!("Manifest::validate_at: {e}")) }
                    let listed: Vec<String> = decoded.content().iter().map(|f| format!("{}={}", hex(f.file()), hex(f.hash()))).collect();
                    if as_set(listed.clone()) != as_set(m.files.iter().map(|&i| r_file(i)).collect()) || decoded.content().manifest_number() != d.serials[m.number].1 || decoded.content().len() != listed.len() {
                        r.fail("model", format!("the decoded manifest has number {} and lists {listed:?} (len() = {}), put in: number {} files {:?}", decoded.content().manifest_number(), decoded.content().len(), d.serials[m.number].1, m.files.iter().map(|&i| fname(i)).collect::<Vec<_>>())) }
                    let f = fresh.get(&key(&m), || { let h = head(m.number);
                        Ok(ManifestContent::new(h.0, h.1, h.2, h.3, m.files.iter().map(|&i| FileAndHash::new(files[i].0.clone(), files[i].1.clone())).collect::<Vec<_>>())
                            .into_manifest(so.builder(d), &signer, &Kid(0)).map_err(|e| e.to_string())?.to_captured().as_slice().to_vec()) })?;
                    history_check(&mut r, &f, &bytes);
                    for x in r.fails[before..].iter_mut() { x.1 = format!("{who}{}", x.1) }
                }
                Ok(())
            });
            match res { Ok(Ok(())) => {}, Ok(Err(e)) => r.fail("build", e), Err(p) => r.fail("build", p) }
            r
        });
    sp.done(true, &format!("{} operation sequences: {} constructions x every sequence of length <= {depth} over {} operations", cases.len(), lists.len(), ops.len()));
}

//------------ TbsCertList / revocation lists ---------------------------------

#[derive(Clone, Copy, Debug)]
enum CrlOp { Push(usize), Insert0(usize), Remove0, Pop, Clear, Sort, SetList(&'static [usize]), Observe, CloneOn, CloneOff }

#[derive(Clone, Debug)]
struct CrlModel { ents: Vec<usize> }

/// (serial, instant index; 5 = T0): 10, 20, 35, 50, 90, 99 and the serial 50
/// once more with another date
const SEQ_CRL_ENT: [(u64, usize); 7] = [(10, 1), (20, 1), (35, 2), (50, 0), (90, 3), (99, 5), (50, 3)];
const SEQ_CRL_PROBES: [u64; 8] = [5, 10, 20, 35, 50, 60, 90, 99];

fn seq_crl_entry(d: &Dom, i: usize) -> CrlEntry { let (s, t) = SEQ_CRL_ENT[i]; CrlEntry::new(Serial::from(s), if t < 5 { d.instants[t] } else { pki::time(pki::T0) }) }
fn r_crl_entry(e: CrlEntry) -> String { format!("{}@{}", e.user_certificate, r_time(e.revocation_date)) }

/// `contains` in every way it can be asked -- on the value, on the list, on a
/// copy that cached its serials first (as validators do) -- against the model.
fn crl_contains_model(r: &mut CaseResult, who: &str, c: &Crl, serials: &BTreeSet<u64>) {
    let mut cached = c.clone(); cached.cache_serials();
    for p in SEQ_CRL_PROBES {
        let want = serials.contains(&p); let s = Serial::from(p);
        let got = [c.contains(s), c.revoked_certs().contains(s), cached.contains(s), cached.revoked_certs().contains(s)];
        if got.iter().any(|g| *g != want) {
            r.fail("model", format!("{who}: serial {p} was{} put on the list, but contains / revoked_certs().contains / contains after cache_serials / revoked_certs().contains after cache_serials answer {got:?}", if want { "" } else { " not" }));
        }
    }
}

fn space_seq_crl(ctx: &Ctx, d: &Dom) {
    let depth = ctx.tier.pick(3usize, 4usize);
    let sp = ctx.space("builder.sequences.crl", &format!("TbsCertList<Vec<CrlEntry>>: construct with a revocation list that is {{empty, one entry, sorted [20,50,90], reverse-sorted, unsorted (2 orders), an exact duplicate, one serial with two dates}} then every sequence of <= {depth} operations out of {{revoked_certs_mut(): push of 10 (smaller than all) / 50 (present) / 35 (between) / 99 (larger than all), insert(0, 90) (equal to the last), remove(0), pop, clear, sort; set_revoked_certs([90,20]); the read accessors; clone continuing on the copy / on the original}}, then into_crl for every live value; contains() of the built CRL and of its decoded twin is asked for 8 serials (present first / middle / last, absent below / between / above) directly, through revoked_certs(), and on copies that called cache_serials() first, and must be the model's answer each time; outcome = entries in the final list{SEQ_RULE_TAIL}"));
    let lists: Vec<Vec<usize>> = vec![vec![], vec![3], vec![1, 3, 4], vec![4, 3, 1], vec![3, 4, 1], vec![4, 1, 3], vec![1, 1], vec![3, 6]];
    let ops = [CrlOp::Push(0), CrlOp::Push(3), CrlOp::Push(2), CrlOp::Push(5), CrlOp::Insert0(4), CrlOp::Remove0, CrlOp::Pop, CrlOp::Clear, CrlOp::Sort, CrlOp::SetList(&[4, 1]),
        CrlOp::Observe, CrlOp::CloneOn, CrlOp::CloneOff];
    let cases = seq_cases(lists.len(), ops.len(), depth, |_| false);
    let fresh = Fresh::new();
    let probes: Vec<Serial> = SEQ_CRL_PROBES.iter().map(|&p| Serial::from(p)).collect();
    let mk = |l: &[usize]| TbsCertList::new(RpkiSignatureAlgorithm::default(), d.issuer_name(1, 0), d.instants[1], d.instants[3],
        l.iter().map(|&i| seq_crl_entry(d, i)).collect::<Vec<CrlEntry>>(), d.signer.public(0).key_identifier(), d.serials[3].1);
    let ser = |i: usize| SEQ_CRL_ENT[i].0;
    run_cases(ctx, &sp, "sequences.crl", &cases,
        |c| format!("TbsCertList::new(revoked={:?}){} -> into_crl", lists[c.ctor].iter().map(|&i| ser(i)).collect::<Vec<_>>(),
            c.path.iter().map(|&i| match ops[i] { CrlOp::Push(x) => format!(" -> push({})", ser(x)), CrlOp::Insert0(x) => format!(" -> insert(0, {})", ser(x)),
                CrlOp::SetList(l) => format!(" -> set_revoked_certs({:?})", l.iter().map(|&i| ser(i)).collect::<Vec<_>>()), o => format!(" -> {o:?}") }).collect::<String>()),
        |c| {
            let mut r = CaseResult::default();
            let res = guard(|| -> Result<(), String> {
                let mut lives = Lives::new(mk(&lists[c.ctor]), CrlModel { ents: lists[c.ctor].clone() });
                seq_state(&mut r, &format!("{:?}", lives.m().ents), false);
                for &i in &c.path {
                    match ops[i] {
                        CrlOp::Push(x) => { lives.b().revoked_certs_mut().push(seq_crl_entry(d, x)); lives.m().ents.push(x) }
                        CrlOp::Insert0(x) => { lives.b().revoked_certs_mut().insert(0, seq_crl_entry(d, x)); lives.m().ents.insert(0, x) }
                        CrlOp::Remove0 => if !lives.m().ents.is_empty() { lives.b().revoked_certs_mut().remove(0); lives.m().ents.remove(0); },
                        CrlOp::Pop => { lives.b().revoked_certs_mut().pop(); lives.m().ents.pop(); }
                        CrlOp::Clear => { lives.b().revoked_certs_mut().clear(); lives.m().ents.clear() }
                        CrlOp::Sort => { lives.b().revoked_certs_mut().sort_by_key(|e| e.user_certificate); lives.m().ents.sort_by_key(|&i| ser(i)) }
                        CrlOp::SetList(l) => { lives.b().set_revoked_certs(l.iter().map(|&i| seq_crl_entry(d, i)).collect()); lives.m().ents = l.to_vec() }
                        CrlOp::Observe => {
                            let m = lives.m().clone(); let b = lives.b();
                            let got = as_set(b.revoked_certs().iter().map(|e| r_crl_entry(*e)).collect());
                            if got != as_set(m.ents.iter().map(|&i| r_crl_entry(seq_crl_entry(d, i))).collect()) || b.crl_number() != d.serials[3].1 || b.this_update() != d.instants[1] || b.next_update() != d.instants[3] {
                                r.fail("model", format!("the builder's accessors say {got:?}, put in: {:?}", m.ents.iter().map(|&i| ser(i)).collect::<Vec<_>>())) }
                            let _ = (b.is_stale(), r_name(b.issuer()), r_ski(b.authority_key_identifier()), b.signature());
                        }
                        CrlOp::CloneOn | CrlOp::CloneOff => { let copy = lives.b().clone(); lives.fork(copy, matches!(ops[i], CrlOp::CloneOn)) }
                    }
                    seq_state(&mut r, &format!("{:?}", lives.m().ents), true);
                }
                let n = lives.v.len();
                for (k, (b, m)) in lives.v.into_iter().enumerate() {
                    r.label = format!("{} entries", m.ents.len().min(5));
                    let who = if n == 1 { String::new() } else { format!("live value #{k} of {n}: ") };
                    let before = r.fails.len();
                    let built = b.into_crl(&d.signer, &Kid(0)).map_err(|e| format!("{who}{e}"))?;
                    let Some((bytes, decoded)) = twin(&mut r, &built, |m| m.to_captured().as_slice().to_vec(), |x| Crl::decode(x).map_err(|e| e.to_string()), |x| obs_crl(x, &probes)) else { continue };
                    if let Err(e) = decoded.verify_signature(&d.signer.public(0)) { r.fail("validate", e.to_string()) }
                    let serials: BTreeSet<u64> = m.ents.iter().map(|&i| ser(i)).collect();
                    crl_contains_model(&mut r, "built CRL", &built, &serials);
                    crl_contains_model(&mut r, "decoded twin", &decoded, &serials);
                    let listed = as_set(decoded.revoked_certs().iter().map(r_crl_entry).collect());
                    if listed != as_set(m.ents.iter().map(|&i| r_crl_entry(seq_crl_entry(d, i))).collect()) { r.fail("model", format!("the decoded CRL lists {listed:?}, put in: {:?}", m.ents.iter().map(|&i| ser(i)).collect::<Vec<_>>())) }
                    let f = fresh.get(&format!("{:?}", m.ents), || Ok(mk(&m.ents).into_crl(&d.signer, &Kid(0)).map_err(|e| e.to_string())?.to_captured().as_slice().to_vec()))?;
                    history_check(&mut r, &f, &bytes);
                    for x in r.fails[before..].iter_mut() { x.1 = format!("{who}{}", x.1) }
                }
                Ok(())
            });
            match res { Ok(Ok(())) => {}, Ok(Err(e)) => r.fail("build", e), Err(p) => r.fail("build", p) }
            r
        });
    sp.done(true, &format!("{} operation sequences: {} constructions x every sequence of length <= {depth} over {} operations", cases.len(), lists.len(), ops.len()));
}

//------------ AsResourcesBuilder / IpResourcesBuilder -> TbsCert -------------

#[derive(Clone, Copy, Debug)]
enum ResOp { Inherit, Push(usize), Empty, Extend(&'static [usize]), CloneOn, CloneOff }

/// unit ranges: 2 and 3 are adjacent (merge), 1-4 covers both, 3-6 overlaps,
/// 8 lies apart above, 0 below
const SEQ_RES_BLOCKS: [(u32, u32); 6] = [(2, 2), (3, 3), (1, 4), (3, 6), (8, 8), (0, 0)];

#[derive(Clone)]
enum ResB { As(rpki::repository::resources::AsResourcesBuilder), Ip(rpki::repository::resources::IpResourcesBuilder) }

fn seq_as_block(i: usize) -> AsBlock { let (a, b) = SEQ_RES_BLOCKS[i]; if a == b { AsBlock::from(asn_of(64500 + a)) } else { AsBlock::from((asn_of(64500 + a), asn_of(64500 + b))) } }
fn seq_ip_block(fam: Fam, i: usize) -> IpBlock {
    use rpki::repository::resources::Addr;
    let (a, b) = (SEQ_RES_BLOCKS[i].0 as u128, SEQ_RES_BLOCKS[i].1 as u128);
    if fam == Fam::V4 { IpBlock::from((Addr::from_bits((0x0a00_0000 + a) << 96), Addr::from_bits(((0x0a00_0000 + b) << 96) | ((1u128 << 96) - 1)))) }
    else { let base = 0x2001_0db8u128 << 96; IpBlock::from((Addr::from_bits(base + a), Addr::from_bits(base + b))) }
}

impl ResB {
    fn new(fam: Fam) -> ResB { match fam { Fam::As => ResB::As(rpki::repository::resources::AsResourcesBuilder::new()), Fam::V4 => ResB::Ip(rpki::repository::resources::IpResourcesBuilder::new()), Fam::V6 => ResB::Ip(Default::default()) } }
    fn inherit(&mut self) { match self { ResB::As(b) => b.inherit(), ResB::Ip(b) => b.inherit() } }
    fn blocks(&mut self, fam: Fam, l: &[usize], extend: bool) {
        match self {
            ResB::As(b) => b.blocks(|x| if extend { x.extend(l.iter().map(|&i| seq_as_block(i))) } else { for &i in l { x.push(seq_as_block(i)) } }),
            ResB::Ip(b) => b.blocks(|x| if extend { x.extend(l.iter().map(|&i| seq_ip_block(fam, i))) } else { for &i in l { x.push(seq_ip_block(fam, i)) } }),
        }
    }
    /// finalize into a CA certificate's TBS
    fn into_tbs(self, d: &Dom, fam: Fam) -> TbsCert {
        let mut t = CertSpec { v4: if fam == Fam::V4 { ResCh::Missing } else { ResCh::Blocks(vec![0]) }, v6: ResCh::Missing, asn: if fam == Fam::As { ResCh::Missing } else { ResCh::Blocks(vec![2]) }, ..CertSpec::base(CKind::Ca) }.build(d);
        match (self, fam) { (ResB::As(b), _) => t.set_as_resources(b.finalize()), (ResB::Ip(b), Fam::V4) => t.set_v4_resources(b.finalize()), (ResB::Ip(b), _) => t.set_v6_resources(b.finalize()) }
        t
    }
}

/// (inherited?, the units covered) of the family in a certificate
fn seq_res_units(t: &TbsCert, fam: Fam) -> (bool, BTreeSet<u32>) {
    match fam {
        Fam::As => (t.as_resources().is_inherited(), t.as_resources().to_blocks().map(|b| b.iter().flat_map(|x| (x.min().into_u32() - 64500)..=(x.max().into_u32() - 64500)).collect()).unwrap_or_default()),
        Fam::V4 => (t.v4_resources().is_inherited(), t.v4_resources().to_blocks().map(|b| b.iter().flat_map(|x| (((x.min().to_bits() >> 96) - 0x0a00_0000) as u32)..=(((x.max().to_bits() >> 96) - 0x0a00_0000) as u32)).collect()).unwrap_or_default()),
        Fam::V6 => { let base = 0x2001_0db8u128 << 96;
            (t.v6_resources().is_inherited(), t.v6_resources().to_blocks().map(|b| b.iter().flat_map(|x| ((x.min().to_bits() - base) as u32)..=((x.max().to_bits() - base) as u32)).collect()).unwrap_or_default()) }
    }
}

fn space_seq_resources(ctx: &Ctx, d: &Dom) {
    let depth = ctx.tier.pick(3usize, 4usize);
    let sp = ctx.space("builder.sequences.resources", &format!("AsResourcesBuilder / IpResourcesBuilder (IPv4, IPv6; new() and Default) feeding TbsCert::set_*_resources: every sequence of <= {depth} operations out of {{inherit(); blocks(push x) for x in unit ranges chosen for their relations: 2, 3 (adjacent, merge), 1-4 (covers both), 3-6 (overlaps), 8 (apart, larger than all), 0 (smaller than all); blocks(|_| ()) ; blocks(extend [8, 2, 3-6]); clone continuing on the copy / on the original}}, then finalize -> set_*_resources -> into_cert -> Cert::decode -> validate_ca_at for every live builder; model: inherit() forgets the blocks, blocks() after inherit() starts afresh, blocks() after blocks() adds, nothing pushed = missing; the decoded certificate covers exactly the union of the units pushed since; outcome = inherit / missing / units covered{SEQ_RULE_TAIL}"));
    let fams = [Fam::As, Fam::V4, Fam::V6];
    let ops = [ResOp::Inherit, ResOp::Push(0), ResOp::Push(1), ResOp::Push(2), ResOp::Push(3), ResOp::Push(4), ResOp::Push(5), ResOp::Empty, ResOp::Extend(&[4, 0, 3]), ResOp::CloneOn, ResOp::CloneOff];
    let cases = seq_cases(fams.len(), ops.len(), depth, |_| false);
    let fresh = Fresh::new();
    let units = |m: &Option<Vec<usize>>| -> (bool, BTreeSet<u32>) { match m { None => (true, BTreeSet::new()), Some(l) => (false, l.iter().flat_map(|&i| SEQ_RES_BLOCKS[i].0..=SEQ_RES_BLOCKS[i].1).collect()) } };
    run_cases(ctx, &sp, "sequences.resources", &cases,
        |c| format!("{:?} resources builder new(){} -> finalize -> set_*_resources -> into_cert", fams[c.ctor],
            c.path.iter().map(|&i| match ops[i] { ResOp::Push(x) => format!(" -> blocks(push {:?})", SEQ_RES_BLOCKS[x]), ResOp::Extend(l) => format!(" -> blocks(extend {:?})", l.iter().map(|&i| SEQ_RES_BLOCKS[i]).collect::<Vec<_>>()),
                ResOp::Empty => " -> blocks(nothing)".to_string(), o => format!(" -> {o:?}") }).collect::<String>()),
        |c| {
            let mut r = CaseResult::default();
            let fam = fams[c.ctor];
            let res = guard(|| -> Result<(), String> {
                let mut lives: Lives<ResB, Option<Vec<usize>>> = Lives::new(ResB::new(fam), Some(vec![]));
                seq_state(&mut r, &format!("{fam:?}{:?}", units(lives.m())), false);
                for &i in &c.path {
                    match ops[i] {
                        ResOp::Inherit => { lives.b().inherit(); *lives.m() = None }
                        ResOp::Push(x) => { lives.b().blocks(fam, &[x], false); lives.m().get_or_insert_with(Vec::new).push(x) }
                        ResOp::Empty => { lives.b().blocks(fam, &[], false); lives.m().get_or_insert_with(Vec::new); }
                        ResOp::Extend(l) => { lives.b().blocks(fam, l, true); lives.m().get_or_insert_with(Vec::new).extend_from_slice(l) }
                        ResOp::CloneOn | ResOp::CloneOff => { let copy = lives.b().clone(); lives.fork(copy, matches!(ops[i], ResOp::CloneOn)) }
                    }
                    seq_state(&mut r, &format!("{fam:?}{:?}", units(lives.m())), true);
                }
                let n = lives.v.len();
                for (k, (b, m)) in lives.v.into_iter().enumerate() {
                    let want = units(&m);
                    r.label = if want.0 { "inherit".into() } else if want.1.is_empty() { "missing".into() } else { format!("{} units", want.1.len()) };
                    let who = if n == 1 { String::new() } else { format!("live builder #{k} of {n}: ") };
                    let before = r.fails.len();
                    let built = b.into_tbs(d, fam).into_cert(&d.signer, &Kid(0)).map_err(|e| format!("{who}{e}"))?;
                    let Some((bytes, decoded)) = twin(&mut r, &built, |c| c.to_captured().as_slice().to_vec(), |x| Cert::decode(x).map_err(|e| e.to_string()), obs_cert) else { continue };
                    if let Err(e) = validate_cert(d, CKind::Ca, &decoded, d.instants[1]) { r.fail("validate", format!("decoded twin: {e}")) }
                    if let Err(e) = validate_cert(d, CKind::Ca, &built, d.instants[1]) { r.fail("validate", format!("built value: {e}")) }
                    for (what, t) in [("built", &built), ("decoded", &decoded)] {
                        let got = seq_res_units(t, fam);
                        if got != want { r.fail("model", format!("the {what} certificate says inherit={} units={:?}; the operations amount to inherit={} units={:?}", got.0, got.1, want.0, want.1)) }
                    }
                    let mut sorted = m.clone(); if let Some(l) = sorted.as_mut() { l.sort_by_key(|&i| SEQ_RES_BLOCKS[i]); }
                    let f = fresh.get(&format!("{fam:?}{sorted:?}"), || { let mut fb = ResB::new(fam);
                        match &sorted { None => fb.inherit(), Some(l) => if !l.is_empty() { fb.blocks(fam, l, false) } }
                        Ok(fb.into_tbs(d, fam).into_cert(&d.signer, &Kid(0)).map_err(|e| e.to_string())?.to_captured().as_slice().to_vec()) })?;
                    history_check(&mut r, &f, &bytes);
                    for x in r.fails[before..].iter_mut() { x.1 = format!("{who}{}", x.1) }
                }
                Ok(())
            });
            match res { Ok(Ok(())) => {}, Ok(Err(e)) => r.fail("build", e), Err(p) => r.fail("build", p) }
            r
        });
    sp.done(true, &format!("{} operation sequences: 3 families x every sequence of length <= {depth} over {} operations", cases.len(), ops.len()));
}

//------------ TbsCert: resource setters, sub-builders, clones ----------------

#[derive(Clone, Copy, Debug)]
enum CertOp { Missing(Fam), Inherit(Fam), FromIter(Fam), Build(Fam), BuildEmpty(Fam), Serial, Observe, CloneOn, CloneOff }

#[derive(Clone, Debug)]
struct CertModel { res: [ResCh; 3], serial: usize }

/// atoms handed to `*_resources_from_iter`: unsorted, one twice, a and b adjacent
const SEQ_FROM_ITER: [usize; 4] = [2, 0, 0, 1];
/// atoms pushed inside `build_*_resource_blocks`: in descending order
const SEQ_BUILD: [usize; 2] = [3, 1];

fn fam_ix(f: Fam) -> usize { match f { Fam::V4 => 0, Fam::V6 => 1, Fam::As => 2 } }
fn raw_ip(f: Fam, i: usize) -> IpBlock { if f == Fam::V4 { pki::ip_blocks(32, &[v4_atoms()[i]]).iter().next().unwrap() } else { pki::ip_blocks(128, &[v6_atoms()[i]]).iter().next().unwrap() } }
fn raw_as(i: usize) -> AsBlock { pki::as_blocks(&[as_atoms()[i]]).iter().next().unwrap() }

fn space_seq_cert(ctx: &Ctx, d: &Dom) {
    let depth = ctx.tier.pick(3usize, 4usize);
    let sp = ctx.space("builder.sequences.cert", &format!("TbsCert (CA): start from {{TbsCert::new + setters, the TbsCert cloned out of a decoded certificate}} then every sequence of <= {depth} operations out of {{per family (IPv4, AS: all five; IPv6: three): set_*_resources(missing), set_*_resources_inherit(), *_resources_from_iter([c, a, a, b]: unsorted, one atom twice, a and b adjacent), build_*_resource_blocks(push d, b: descending), build_*_resource_blocks(|_| ()); set_serial_number; every read accessor; clone continuing on the copy / on the original}}, then into_cert -> Cert::decode -> validate_ca_at for every live value; a certificate left without any resources is not finalized (outside the profile); the twin is built by CertSpec (TbsCert::new + set_*_resources(collected blocks)) from the final content; outcome = resource choice per family{SEQ_RULE_TAIL}"));
    use Fam::*;
    let ops = [CertOp::Missing(V4), CertOp::Inherit(V4), CertOp::FromIter(V4), CertOp::Build(V4), CertOp::BuildEmpty(V4), CertOp::Inherit(V6), CertOp::FromIter(V6), CertOp::Missing(V6),
        CertOp::Missing(As), CertOp::Inherit(As), CertOp::FromIter(As), CertOp::Build(As), CertOp::BuildEmpty(As), CertOp::Serial, CertOp::Observe, CertOp::CloneOn, CertOp::CloneOff];
    let cases = seq_cases(2, ops.len(), depth, |_| false);
    let fresh = Fresh::new();
    let base = CertSpec::base(CKind::Ca);
    let spec_of = |m: &CertModel| CertSpec { v4: m.res[0].clone(), v6: m.res[1].clone(), asn: m.res[2].clone(), serial: m.serial, ..base.clone() };
    let key = |m: &CertModel| format!("{} {} {} {}", m.res[0].wit(), m.res[1].wit(), m.res[2].wit(), m.serial);
    let decoded_start: TbsCert = { let c = base.build(d).into_cert(&d.signer, &Kid(0)).expect("base certificate"); let t = Cert::decode(c.to_captured().as_slice()).expect("base certificate decodes"); let x: &TbsCert = t.as_ref(); x.clone() };
    run_cases(ctx, &sp, "sequences.cert", &cases,
        |c| format!("TbsCert {}{} -> into_cert", if c.ctor == 0 { "new + setters" } else { "cloned from a decoded certificate" }, c.path.iter().map(|&i| format!(" -> {:?}", ops[i])).collect::<String>()),
        |c| {
            let mut r = CaseResult::default();
            let res = guard(|| -> Result<(), String> {
                let start = if c.ctor == 0 { base.build(d) } else { decoded_start.clone() };
                let mut lives = Lives::new(start, CertModel { res: [base.v4.clone(), base.v6.clone(), base.asn.clone()], serial: base.serial });
                seq_state(&mut r, &key(lives.m()), false);
                for &i in &c.path {
                    let set = |m: &mut CertModel, f: Fam, ch: ResCh| m.res[fam_ix(f)] = ch;
                    match ops[i] {
                        CertOp::Missing(f) => { match f { V4 => lives.b().set_v4_resources(IpResources::missing()), V6 => lives.b().set_v6_resources(IpResources::missing()), As => lives.b().set_as_resources(AsResources::missing()) }
                            set(lives.m(), f, ResCh::Missing) }
                        CertOp::Inherit(f) => { match f { V4 => lives.b().set_v4_resources_inherit(), V6 => lives.b().set_v6_resources_inherit(), As => lives.b().set_as_resources_inherit() }
                            set(lives.m(), f, ResCh::Inherit) }
                        CertOp::FromIter(f) => { match f { V4 => lives.b().v4_resources_from_iter(SEQ_FROM_ITER.iter().map(|&i| raw_ip(V4, i))), V6 => lives.b().v6_resources_from_iter(SEQ_FROM_ITER.iter().map(|&i| raw_ip(V6, i))),
                                As => lives.b().as_resources_from_iter(SEQ_FROM_ITER.iter().map(|&i| raw_as(i))) }
                            set(lives.m(), f, ResCh::Blocks(vec![0, 1, 2])) }
                        CertOp::Build(f) => { match f { V4 => lives.b().build_v4_resource_blocks(|b| for &i in &SEQ_BUILD { b.push(raw_ip(V4, i)) }), V6 => lives.b().build_v6_resource_blocks(|b| for &i in &SEQ_BUILD { b.push(raw_ip(V6, i)) }),
                                As => lives.b().build_as_resource_blocks(|b| for &i in &SEQ_BUILD { b.push(raw_as(i)) }) }
                            set(lives.m(), f, ResCh::Blocks(vec![1, 3])) }
                        CertOp::BuildEmpty(f) => { match f { V4 => lives.b().build_v4_resource_blocks(|_| ()), V6 => lives.b().build_v6_resource_blocks(|_| ()), As => lives.b().build_as_resource_blocks(|_| ()) }
                            set(lives.m(), f, ResCh::Missing) }
                        CertOp::Serial => { let s = if lives.m().serial == 3 { 5 } else { 3 }; lives.b().set_serial_number(d.serials[s].1); lives.m().serial = s }
                        CertOp::Observe => { let want = spec_of(lives.m()).build(d);
                            if let Some(x) = diff_l(&obs_tbs(&want), &obs_tbs(lives.b()), "built directly", "after this sequence") { r.fail("history_independent", format!("TbsCert accessors: {x}")) } }
                        CertOp::CloneOn | CertOp::CloneOff => { let copy = lives.b().clone(); lives.fork(copy, matches!(ops[i], CertOp::CloneOn)) }
                    }
                    seq_state(&mut r, &key(lives.m()), true);
                }
                let n = lives.v.len();
                for (k, (b, m)) in lives.v.into_iter().enumerate() {
                    let spec = spec_of(&m);
                    r.label = format!("v4{} v6{} as{}", spec.v4.class(), spec.v6.class(), spec.asn.class());
                    if !spec.conforming() { r.label = "no resources at all (outside the profile): not finalized".into(); continue }
                    let who = if n == 1 { String::new() } else { format!("live value #{k} of {n}: ") };
                    let before = r.fails.len();
                    let built = b.into_cert(&d.signer, &Kid(0)).map_err(|e| format!("{who}{e}"))?;
                    let Some((bytes, decoded)) = twin(&mut r, &built, |c| c.to_captured().as_slice().to_vec(), |x| Cert::decode(x).map_err(|e| e.to_string()), obs_cert) else { continue };
                    if let Err(e) = validate_cert(d, CKind::Ca, &decoded, d.instants[1]) { r.fail("validate", format!("decoded twin: {e}")) }
                    if let Err(e) = validate_cert(d, CKind::Ca, &built, d.instants[1]) { r.fail("validate", format!("built value: {e}")) }
                    let want = (r_ipres(&pki::ip_res(32, &spec.v4.claim(&v4_atoms())), true), r_ipres(&pki::ip_res(128, &spec.v6.claim(&v6_atoms())), false), r_asres(&pki::as_res(&spec.asn.claim(&as_atoms()))), d.serials[m.serial].1);
                    let got = (r_ipres(decoded.v4_resources(), true), r_ipres(decoded.v6_resources(), false), r_asres(decoded.as_resources()), decoded.serial_number());
                    if got != want { r.fail("model", format!("the decoded certificate holds {got:?}; the operations amount to {want:?}")) }
                    let f = fresh.get(&key(&m), || Ok(spec.build(d).into_cert(&d.signer, &Kid(0)).map_err(|e| e.to_string())?.to_captured().as_slice().to_vec()))?;
                    history_check(&mut r, &f, &bytes);
                    for x in r.fails[before..].iter_mut() { x.1 = format!("{who}{}", x.1) }
                }
                Ok(())
            });
            match res { Ok(Ok(())) => {}, Ok(Err(e)) => r.fail("build", e), Err(p) => r.fail("build", p) }
            r
        });
    sp.done(true, &format!("{} operation sequences: 2 starting points x every sequence of length <= {depth} over {} operations", cases.len(), ops.len()));
}

//------------ SignedObjectBuilder ---------------------------------------------

#[derive(Clone, Copy, Debug)]
enum SoOp { Inherit(Fam), Build(Fam), BuildEmpty(Fam), SigningTime, Issuer, SubjectNone, Observe, CloneOn, CloneOff }

#[derive(Clone, Debug)]
struct SoModel { res: [ResCh; 3], signing: usize, issuer: usize, subject: usize }

fn space_seq_sigobj(ctx: &Ctx, d: &Dom) {
    let depth = ctx.tier.pick(3usize, 4usize);
    let sp = ctx.space("builder.sequences.sigobj", &format!("SignedObjectBuilder: start from {{new + setters, a clone of that}} then every sequence of <= {depth} operations out of {{IPv4: set_v4_resources_inherit, build_v4_resource_blocks(push d, b), build_v4_resource_blocks(|_| ()); AS: set_as_resources_inherit, build_as_resource_blocks(push d, b); IPv6: set_v6_resources_inherit; set_signing_time, set_issuer(Some), set_subject(None); every read accessor; clone continuing on the copy / on the original}}, then finalize (foreign content type) -> SignedObject::decode(strict) -> validate_at(both window ends) for every live builder; the twin is a builder set directly to the final content; outcome = resource choice per family{SEQ_RULE_TAIL}"));
    use Fam::*;
    let ops = [SoOp::Inherit(V4), SoOp::Build(V4), SoOp::BuildEmpty(V4), SoOp::Inherit(As), SoOp::Build(As), SoOp::Inherit(V6), SoOp::SigningTime, SoOp::Issuer, SoOp::SubjectNone, SoOp::Observe, SoOp::CloneOn, SoOp::CloneOff];
    let cases = seq_cases(2, ops.len(), depth, |_| false);
    let fresh = Fresh::new();
    let so = SoSpec::base();
    let start_model = SoModel { res: [ResCh::Blocks(vec![0, 2]), ResCh::Missing, ResCh::Blocks(vec![1])], signing: so.signing, issuer: so.issuer_name, subject: so.subject_name };
    let direct = |m: &SoModel| { let mut b = SoSpec { signing: m.signing, issuer_name: m.issuer, subject_name: m.subject, ..so.clone() }.builder(d);
        b.set_v4_resources(pki::ip_res(32, &m.res[0].claim(&v4_atoms()))); b.set_v6_resources(pki::ip_res(128, &m.res[1].claim(&v6_atoms()))); b.set_as_resources(pki::as_res(&m.res[2].claim(&as_atoms()))); b };
    let key = |m: &SoModel| format!("{} {} {} {} {} {}", m.res[0].wit(), m.res[1].wit(), m.res[2].wit(), m.signing, m.issuer, m.subject);
    let obs_sob = |b: &SignedObjectBuilder| { let mut o = Obs::new();
        o.put("digest_algorithm", || format!("{:?}", b.digest_algorithm())); o.put("serial_number", || b.serial_number().to_string());
        o.put("validity", || r_validity(b.validity())); o.put("issuer", || format!("{:?}", b.issuer().map(r_name))); o.put("subject", || format!("{:?}", b.subject().map(r_name)));
        o.put("crl_uri", || r_rsync(Some(b.crl_uri()))); o.put("ca_issuer", || r_rsync(Some(b.ca_issuer()))); o.put("signed_object", || r_rsync(Some(b.signed_object())));
        o.put("v4_resources", || r_ipres(b.v4_resources(), true)); o.put("v6_resources", || r_ipres(b.v6_resources(), false)); o.put("has_ip_resources", || b.has_ip_resources().to_string());
        o.put("as_resources", || r_asres(b.as_resources())); o.put("signing_time", || r_time(b.signing_time())); o };
    let ct = || Oid(Bytes::copy_from_slice(&der::oid(&[1, 2, 840, 113549, 1, 9, 16, 1, 35])[2..]));
    let content = Bytes::from(der::seq(&[der::int_u(7)]));
    run_cases(ctx, &sp, "sequences.sigobj", &cases,
        |c| format!("SignedObjectBuilder {}{} -> finalize", if c.ctor == 0 { "new + setters" } else { "clone of new + setters" }, c.path.iter().map(|&i| format!(" -> {:?}", ops[i])).collect::<String>()),
        |c| {
            let mut r = CaseResult::default();
            let signer = so.signer(d);
            let res = guard(|| -> Result<(), String> {
                let start = if c.ctor == 0 { direct(&start_model) } else { let b = direct(&start_model); let c2 = b.clone(); drop(b); c2 };
                let mut lives = Lives::new(start, start_model.clone());
                seq_state(&mut r, &key(lives.m()), false);
                for &i in &c.path {
                    match ops[i] {
                        SoOp::Inherit(f) => { match f { V4 => lives.b().set_v4_resources_inherit(), V6 => lives.b().set_v6_resources_inherit(), As => lives.b().set_as_resources_inherit() } lives.m().res[fam_ix(f)] = ResCh::Inherit }
                        SoOp::Build(f) => { match f { V4 => lives.b().build_v4_resource_blocks(|b| for &i in &SEQ_BUILD { b.push(raw_ip(V4, i)) }), V6 => lives.b().build_v6_resource_blocks(|b| for &i in &SEQ_BUILD { b.push(raw_ip(V6, i)) }),
                                As => lives.b().build_as_resource_blocks(|b| for &i in &SEQ_BUILD { b.push(raw_as(i)) }) } lives.m().res[fam_ix(f)] = ResCh::Blocks(vec![1, 3]) }
                        SoOp::BuildEmpty(f) => { match f { V4 => lives.b().build_v4_resource_blocks(|_| ()), V6 => lives.b().build_v6_resource_blocks(|_| ()), As => lives.b().build_as_resource_blocks(|_| ()) } lives.m().res[fam_ix(f)] = ResCh::Missing }
                        SoOp::SigningTime => { let s = if lives.m().signing == 2 { 0 } else { 2 }; lives.b().set_signing_time(d.instants[s]); lives.m().signing = s }
                        SoOp::Issuer => { let n = if lives.m().issuer == 1 { 2 } else { 1 }; lives.b().set_issuer(d.name_opt(n)); lives.m().issuer = n }
                        SoOp::SubjectNone => { lives.b().set_subject(None); lives.m().subject = 0 }
                        SoOp::Observe => { let want = direct(lives.m());
                            if let Some(x) = diff_l(&obs_sob(&want), &obs_sob(lives.b()), "set directly", "after this sequence") { r.fail("history_independent", format!("builder accessors: {x}")) } }
                        SoOp::CloneOn | SoOp::CloneOff => { let copy = lives.b().clone(); lives.fork(copy, matches!(ops[i], SoOp::CloneOn)) }
                    }
                    seq_state(&mut r, &key(lives.m()), true);
                }
                let n = lives.v.len();
                for (k, (b, m)) in lives.v.into_iter().enumerate() {
                    r.label = format!("v4{} v6{} as{}", m.res[0].class(), m.res[1].class(), m.res[2].class());
                    let who = if n == 1 { String::new() } else { format!("live builder #{k} of {n}: ") };
                    let before = r.fails.len();
                    let built = b.finalize(ct(), content.clone(), &signer, &Kid(0)).map_err(|e| format!("{who}{e}"))?;
                    let Some((bytes, decoded)) = twin(&mut r, &built, |s| cap(s.encode_ref()), |x| SignedObject::decode(x, true).map_err(|e| e.to_string()), obs_sigobj) else { continue };
                    validate_signed(d, &mut r, &bytes, &so);
                    let ee = decoded.cert();
                    let want = (r_ipres(&pki::ip_res(32, &m.res[0].claim(&v4_atoms())), true), r_ipres(&pki::ip_res(128, &m.res[1].claim(&v6_atoms())), false), r_asres(&pki::as_res(&m.res[2].claim(&as_atoms()))), r_time(d.instants[m.signing]),
                        r_name(&d.issuer_name(m.issuer, 0)), if m.subject == 0 { r_name(&d.signer.public(so.one_off).to_subject_name()) } else { r_name(&d.names[m.subject - 1]) });
                    let got = (r_ipres(ee.v4_resources(), true), r_ipres(ee.v6_resources(), false), r_asres(ee.as_resources()), r_time(decoded.signing_time()), r_name(ee.issuer()), r_name(ee.subject()));
                    if got != want { r.fail("model", format!("the decoded object holds {got:?}; the operations amount to {want:?}")) }
                    let f = fresh.get(&key(&m), || Ok(cap(direct(&m).finalize(ct(), content.clone(), &signer, &Kid(0)).map_err(|e| e.to_string())?.encode_ref())))?;
                    history_check(&mut r, &f, &bytes);
                    for x in r.fails[before..].iter_mut() { x.1 = format!("{who}{}", x.1) }
                }
                Ok(())
            });
            match res { Ok(Ok(())) => {}, Ok(Err(e)) => r.fail("build", e), Err(p) => r.fail("build", p) }
            r
        });
    sp.done(true, &format!("{} operation sequences: 2 starting points x every sequence of length <= {depth} over {} operations", cases.len(), ops.len()));
}

//------------ CA side: IdCert / Csr / SignedMessage creation calls ------------

#[derive(Clone, Copy, Debug)]
enum CaOp { NewTa(usize), NewEe(usize, usize), Csr(usize, bool), Msg(usize, usize) }

/// One creation call, judged by the usual oracles; returns everything that is
/// comparable between two evaluations (the octets, or for signed messages --
/// whose signing time and CRL number are read from the wall clock inside the
/// library -- content and verdict).
fn ca_side_eval<S: Signer<KeyId = Kid>>(d: &Dom, r: &mut CaseResult, op: CaOp, signer: &S) -> Result<String, String> where S::Error: std::fmt::Display {
    let now = d.instants[1];
    match op {
        CaOp::NewTa(k) => {
            let built = IdCert::new_ta(d.validity((1, 3)), &Kid(k), signer).map_err(|e| e.to_string())?;
            let Some((bytes, decoded)) = twin(r, &built, |m| m.to_captured().as_slice().to_vec(), |b| IdCert::decode(b).map_err(|e| e.to_string()), obs_idcert) else { return Ok("no twin".into()) };
            if let Err(e) = decoded.validate_ta_at(now) { r.fail("validate", format!("IdCert::validate_ta_at: {e}")) }
            Ok(hx(&bytes))
        }
        CaOp::NewEe(k, e) => {
            let built = IdCert::new_ee(&d.signer.public(e), d.validity((1, 3)), &Kid(k), signer).map_err(|e| e.to_string())?;
            let Some((bytes, decoded)) = twin(r, &built, |m| m.to_captured().as_slice().to_vec(), |b| IdCert::decode(b).map_err(|e| e.to_string()), obs_idcert) else { return Ok("no twin".into()) };
            if let Err(e) = decoded.validate_ee_at(&d.signer.public(k), now) { r.fail("validate", format!("IdCert::validate_ee_at: {e}")) }
            Ok(hx(&bytes))
        }
        CaOp::Csr(k, notify) => {
            let bytes = Csr::construct_rpki_ca(signer, &Kid(k), &d.dirs[1], &d.mfts[1], if notify { d.https[2].as_ref() } else { None }).map_err(|e| e.to_string())?;
            match RpkiCaCsr::decode(bytes.as_slice()) {
                Ok(t) => { if t.to_captured().as_slice() != bytes.as_slice() { r.fail("reencode", "the decoded request re-encodes to other octets") }
                           if let Err(e) = t.verify_signature() { r.fail("validate", format!("Csr::verify_signature: {e}")) }
                           if t.rpki_notify().is_some() != notify || t.ca_repository() != Some(&d.dirs[1]) || t.rpki_manifest() != Some(&d.mfts[1]) { r.fail("model", "the decoded request carries other URIs than were handed in") } }
                Err(e) => r.fail("decode", e.to_string()),
            }
            Ok(hx(bytes.as_slice()))
        }
        CaOp::Msg(k, p) => {
            let payload: Bytes = if p == 0 { Bytes::from_static(b"<msg/>") } else { Bytes::from(vec![b'c'; 300]) };
            let built = SignedMessage::create(payload.clone(), d.validity((1, 3)), &Kid(k), signer).map_err(|e| e.to_string())?;
            let Some((_, decoded)) = twin(r, &built, |m| m.to_captured().as_slice().to_vec(), |b| SignedMessage::decode(b, true).map_err(|e| e.to_string()), obs_sigmsg) else { return Ok("no twin".into()) };
            if decoded.content().to_bytes() != payload { r.fail("model", "the decoded message carries another payload than was handed in") }
            let verdict = r_res(decoded.validate_at(&d.signer.public(k), now));
            if verdict != "Ok" { r.fail("validate", format!("SignedMessage::validate_at: {verdict}")) }
            Ok(format!("content={} verdict={verdict}", hx(&decoded.content().to_bytes())))
        }
    }
}

fn space_seq_ca_side(ctx: &Ctx, d: &Dom) {
    let depth = ctx.tier.pick(3usize, 4usize);
    let sp = ctx.space("builder.sequences.ca_side", &format!("IdCert::new_ta / IdCert::new_ee / Csr::construct_rpki_ca / SignedMessage::create (none of which has a multi-step builder): every sequence of <= {depth} creation calls on ONE signer and one thread out of {{new_ta under 2 keys, new_ee under 2 issuer / subject key pairs, a CA request with and without rpkiNotify, a signed message of 6 / 300 octets under 2 keys}}; every call is judged by decode / re-encode / accessor agreement / validation, and what it returns must be what the same call returns when it is the only one ever made (octets; for signed messages, whose signing time comes from the wall clock, content and verdict); non-trivial = sequences in which the judged call has at least one predecessor; outcome = kind of the last call"));
    let ops = [CaOp::NewTa(0), CaOp::NewTa(6), CaOp::NewEe(0, 4), CaOp::NewEe(6, 0), CaOp::Csr(3, true), CaOp::Csr(1, false), CaOp::Msg(0, 0), CaOp::Msg(0, 1), CaOp::Msg(6, 0)];
    let cases: Vec<SeqCase> = sequences(ops.len(), 1, depth).into_iter().map(|p| SeqCase { ctor: 0, path: p }).collect();
    let alone: Vec<Result<String, String>> = on_fresh_threads(&ops, |op| { let mut r = CaseResult::default(); let signer = CaseSigner::with_rand(&d.signer, 7, d.serials[3].1);
        match guard(|| ca_side_eval(d, &mut r, *op, &signer)) { Ok(x) => x, Err(p) => Err(format!("PANIC {p}")) } });
    run_cases(ctx, &sp, "sequences.ca_side", &cases,
        |c| c.path.iter().map(|&i| format!("{:?}", ops[i])).collect::<Vec<_>>().join(" -> "),
        |c| {
            let mut r = CaseResult::default();
            let signer = CaseSigner::with_rand(&d.signer, 7, d.serials[3].1);
            for (k, &i) in c.path.iter().enumerate() {
                let got = match guard(|| ca_side_eval(d, &mut r, ops[i], &signer)) { Ok(x) => x, Err(p) => Err(format!("PANIC {p}")) };
                seq_state(&mut r, &format!("{:?}", &c.path[..=k]), true);
                if let Err(e) = &got { r.fail("build", format!("call #{} ({:?}): {e}", k + 1, ops[i])) }
                if got != alone[i] { r.fail("history_independent", format!("call #{} ({:?}) returned {} after the calls before it, but {} when made alone", k + 1, ops[i],
                    rpki_verif::trunc(&format!("{got:?}"), 160), rpki_verif::trunc(&format!("{:?}", alone[i]), 160))) }
            }
            // signed messages carry the wall clock: count sequences, not encodings
            r.der_hash = if c.path.len() >= 2 { fnv(format!("{:?}", c.path).as_bytes()) } else { 0 };
            r.label = match ops[*c.path.last().unwrap()] { CaOp::NewTa(_) => "IdCert TA", CaOp::NewEe(..) => "IdCert EE", CaOp::Csr(..) => "CA request", CaOp::Msg(..) => "signed message" }.to_string();
            r
        });
    sp.done(true, &format!("{} sequences of length 1..={depth} over {} creation calls", cases.len(), ops.len()));
}

//============ Object-level history of the finished objects ===================
//
// State that lives inside one object (a cache filled by `cache_serials`, a
// lazily built table, a verdict remembered by a validation) must never show:
// for every object the builders return -- and for its decoded twin -- every
// sequence of <= 3 (thorough 4) operations out of {each query, each caching
// call, each validation on a copy, clone (continue on the copy with the
// original kept / on the original with the copy kept)}; every answer must be
// the answer the same operation gives first thing on a fresh copy, built
// value and decoded twin must give the same answers, and the full observer
// sweep afterwards must read as on a fresh copy, for every live object.

struct HOp<'a, T> { name: String, caching: bool, f: Box<dyn Fn(&mut T) -> String + Sync + 'a> }
fn hop<'a, T>(name: &str, f: impl Fn(&mut T) -> String + Sync + 'a) -> HOp<'a, T> { HOp { name: name.to_string(), caching: false, f: Box::new(f) } }

struct HistTotals { seqs: u64, nontrivial: u64, ops: u64, states: BTreeSet<u64> }

fn object_history<T: Clone + Sync + Send>(ctx: &Ctx, sp: &Space, kind: &str, subjects: &[(String, Option<T>, T)], ops: &[HOp<T>], sweep: &(dyn Fn(&T) -> String + Sync), depth: usize, tot: &mut HistTotals) {
    let n = ops.len();
    let oracle = format!("C05.object_history.{kind}");
    let seqs = sequences(n + 2, 1, depth);
    let name = |o: usize| if o < n { ops[o].name.clone() } else if o == n { "clone (continue on the copy)".to_string() } else { "clone (continue on the original)".to_string() };
    let ask = |o: usize, x: &mut T| match guard(|| (ops[o].f)(x)) { Ok(a) => a, Err(p) => format!("PANIC {p}") };
    for (sname, built, decoded) in subjects {
        let mut both: Vec<(&str, &T)> = vec![]; if let Some(b) = built { both.push(("built", b)) } both.push(("decoded", decoded));
        // the answers on fresh copies; built value and twin must agree
        let pristine: Vec<Vec<String>> = both.iter().map(|(_, x)| (0..n).map(|o| ask(o, &mut (*x).clone())).collect()).collect();
        let sweeps: Vec<String> = both.iter().map(|(_, x)| match guard(|| sweep(*x)) { Ok(s) => s, Err(p) => format!("PANIC {p}") }).collect();
        for o in 0..n {
            if pristine.iter().any(|p| p[o].starts_with("PANIC")) || pristine.iter().any(|p| p[o] != pristine[0][o]) {
                ctx.fail(&format!("{oracle}.twin"), format!("{kind} {sname}: {}", ops[o].name), format!("answers on fresh copies: {}", both.iter().zip(pristine.iter()).map(|((w, _), p)| format!("{w}={}", rpki_verif::trunc(&p[o], 160))).collect::<Vec<_>>().join(" ")));
            }
        }
        if sweeps.iter().any(|s| s.starts_with("PANIC") || *s != sweeps[0]) { ctx.fail(&format!("{oracle}.twin"), format!("{kind} {sname}: observer sweep"), "the built value and its decoded twin read differently".to_string()) }
        for (wi, (who, x)) in both.iter().enumerate() {
            tot.states.insert(fnv(format!("{kind} {sname} {who} {}", sweeps[wi]).as_bytes()));
            let fails: Vec<Option<(String, String)>> = seqs.par_iter().map(|seq| {
                let wit = || format!("{kind} {sname} ({who}): {}", seq.iter().map(|&o| name(o)).collect::<Vec<_>>().join(" -> "));
                let mut lives: Vec<T> = vec![(*x).clone()]; let mut active = 0usize;
                for (k, &o) in seq.iter().enumerate() {
                    if o == n { let c = lives[active].clone(); lives.push(c); active = lives.len() - 1 }
                    else if o == n + 1 { let c = lives[active].clone(); lives.push(c) }
                    else {
                        let a = ask(o, &mut lives[active]);
                        if a != pristine[wi][o] { return Some((wit(), format!("operation #{} ({}) answered {} after this history, but {} when asked first thing on a fresh copy", k + 1, ops[o].name, rpki_verif::trunc(&a, 200), rpki_verif::trunc(&pristine[wi][o], 200)))) }
                    }
                }
                for (k, l) in lives.iter().enumerate() {
                    let s = match guard(|| sweep(l)) { Ok(s) => s, Err(p) => format!("PANIC {p}") };
                    if s != sweeps[wi] {
                        let (a, b): (Vec<&str>, Vec<&str>) = (s.lines().collect(), sweeps[wi].lines().collect());
                        let first = a.iter().zip(b.iter()).find(|(x, y)| x != y).map(|(x, y)| format!("{} <> {}", rpki_verif::trunc(x, 200), rpki_verif::trunc(y, 200))).unwrap_or_else(|| format!("{} lines <> {} lines", a.len(), b.len()));
                        return Some((wit(), format!("after this history the observer sweep of live object #{k} reads differently from a fresh copy's: {first}")))
                    }
                }
                None
            }).collect();
            for f in fails.into_iter().flatten() { ctx.fail(&oracle, f.0, f.1) }
            tot.seqs += seqs.len() as u64;
            tot.ops += seqs.iter().map(|s| s.len() as u64).sum::<u64>();
            // non-trivial: a caching call or a clone comes before at least one query
            tot.nontrivial += seqs.iter().filter(|s| s.iter().enumerate().any(|(k, &o)| (o >= n || ops[o].caching) && k + 1 < s.len())).count() as u64;
            sp.outcomes_n(&format!("{kind} {who}"), seqs.len() as u64);
        }
    }
    if let Some(s) = seqs.last() { sp.sample_str(|| format!("{kind}: {}", s.iter().map(|&o| name(o)).collect::<Vec<_>>().join(" -> "))) }
}

fn space_object_history(ctx: &Ctx, d: &Dom) {
    let depth = ctx.tier.pick(3usize, 4usize);
    let sp = ctx.space("object.history", &format!("every finished object the builders return and its decoded twin -- CRLs over 6 revocation-list forms (empty, one entry, sorted, reverse-sorted, unsorted, one serial twice), a CA certificate, a manifest, a ROA, an ASPA, a bare signed object, an identity certificate, a signed message, a decoded CA request: every sequence of <= {depth} operations out of {{each query (contains for serials present first / last in list order, absent between / above; iterators; encoders), each caching call (Crl::cache_serials), each validation (on a copy, at a fixed instant), clone continuing on the copy / on the original}}; every answer must be the one given first thing on a fresh copy, for CRLs also the model's (serial on the list or not), built value and twin must answer alike, and the full observer sweep of every live object afterwards must read as on a fresh copy; non-trivial = sequences in which a caching call or a clone precedes a query; outcome = object kind x built / decoded"));
    let signer = CaseSigner::new(&d.signer, 7);
    let so = SoSpec::base();
    let base_uri = d.dirs[1].clone();
    let now = d.instants[1];
    let mut tot = HistTotals { seqs: 0, nontrivial: 0, ops: 0, states: BTreeSet::new() };
    let setup = guard(|| -> Result<(), String> {
        // ---- CRLs
        let forms: Vec<(&str, Vec<usize>)> = vec![("empty", vec![]), ("one entry", vec![3]), ("sorted", vec![1, 3, 4]), ("reverse-sorted", vec![4, 3, 1]), ("unsorted", vec![3, 4, 0, 1]), ("one serial twice", vec![4, 3, 6])];
        let probes: Vec<Serial> = SEQ_CRL_PROBES.iter().map(|&p| Serial::from(p)).collect();
        let mut subj: Vec<(String, Option<Crl>, Crl)> = vec![];
        for (nm, l) in &forms {
            let c = TbsCertList::new(RpkiSignatureAlgorithm::default(), d.issuer_name(1, 0), d.instants[1], d.instants[3], l.iter().map(|&i| seq_crl_entry(d, i)).collect::<Vec<CrlEntry>>(),
                d.signer.public(0).key_identifier(), d.serials[3].1).into_crl(&d.signer, &Kid(0)).map_err(|e| e.to_string())?;
            let t = Crl::decode(c.to_captured().as_slice()).map_err(|e| format!("the library's decoder refuses a CRL it built: {e}"))?;
            // the model, independent of any history
            let serials: BTreeSet<u64> = l.iter().map(|&i| SEQ_CRL_ENT[i].0).collect();
            let mut r = CaseResult::default();
            crl_contains_model(&mut r, "built CRL", &c, &serials); crl_contains_model(&mut r, "decoded twin", &t, &serials);
            for (_, x) in r.fails { ctx.fail("C05.object_history.crl.model", format!("crl revoked={:?} ({nm})", l.iter().map(|&i| SEQ_CRL_ENT[i].0).collect::<Vec<_>>()), x) }
            subj.push((format!("revoked={:?} ({nm})", l.iter().map(|&i| SEQ_CRL_ENT[i].0).collect::<Vec<_>>()), Some(c), t));
        }
        let mut ops: Vec<HOp<Crl>> = vec![];
        for p in [50u64, 90, 10, 60, 99] { ops.push(hop(&format!("contains({p})"), move |c: &mut Crl| c.contains(Serial::from(p)).to_string())) }
        for p in [90u64, 35] { ops.push(hop(&format!("revoked_certs().contains({p})"), move |c: &mut Crl| c.revoked_certs().contains(Serial::from(p)).to_string())) }
        ops.push(HOp { name: "cache_serials()".into(), caching: true, f: Box::new(|c: &mut Crl| { c.cache_serials(); String::new() }) });
        ops.push(hop("revoked_certs().iter()", |c: &mut Crl| c.revoked_certs().iter().map(r_crl_entry).collect::<Vec<_>>().join(",")));
        ops.push(hop("to_captured()", |c: &mut Crl| hx(c.to_captured().as_slice())));
        ops.push(hop("verify_signature(key)", |c: &mut Crl| r_res(c.verify_signature(&d.signer.public(0)))));
        ops.push(hop("crl_number() / is_stale()", |c: &mut Crl| format!("{} {}", c.crl_number(), c.is_stale())));
        object_history(ctx, &sp, "crl", &subj, &ops, &|c: &Crl| obs_text(&obs_crl(c, &probes)), depth, &mut tot);

        // ---- a CA certificate
        let cert = CertSpec { v4: ResCh::Blocks(vec![3, 0, 2]), v6: ResCh::Blocks(vec![1, 3]), asn: ResCh::Blocks(vec![2, 0, 3]), ..CertSpec::base(CKind::Ca) }.build(d).into_cert(&d.signer, &Kid(0)).map_err(|e| e.to_string())?;
        let cert_t = Cert::decode(cert.to_captured().as_slice()).map_err(|e| format!("the library's decoder refuses a certificate it built: {e}"))?;
        let rc = |x: Result<ResourceCert, String>| match x { Ok(rc) => obs_text(&obs_rescert(&rc)), Err(e) => format!("Err({e})") };
        let ops: Vec<HOp<Cert>> = vec![
            hop("to_captured()", |c: &mut Cert| hx(c.to_captured().as_slice())),
            hop("inspect_ca(strict)", |c: &mut Cert| r_res(c.inspect_ca(true))),
            hop("inspect_ee(strict)", |c: &mut Cert| r_res(c.inspect_ee(true))),
            hop("verify_validity(t)", move |c: &mut Cert| r_res(c.verify_validity(now))),
            hop("clone().validate_ca_at(ta, t)", move |c: &mut Cert| rc(c.clone().validate_ca_at(&d.ta, true, now).map_err(|e| e.to_string()))),
            hop("clone().validate_ee_at(ta, t)", move |c: &mut Cert| rc(c.clone().validate_ee_at(&d.ta, true, now).map_err(|e| e.to_string()))),
            hop("v4_resources().to_blocks()", |c: &mut Cert| r_ipres(c.v4_resources(), true)),
            hop("as_resources()", |c: &mut Cert| r_asres(c.as_resources())),
            hop("subject_key_identifier() / is_self_signed()", |c: &mut Cert| format!("{} {}", c.subject_key_identifier(), c.is_self_signed())),
        ];
        object_history(ctx, &sp, "cert", &[("CA certificate".to_string(), Some(cert), cert_t)], &ops, &|c: &Cert| obs_text(&obs_cert(c)), depth, &mut tot);

        // ---- a manifest
        let files = mft_files();
        let mft = ManifestContent::new(d.serials[3].1, d.instants[1], d.instants[3], DigestAlgorithm::sha256(), [0usize, 3, 1].iter().map(|&i| FileAndHash::new(files[i].0.clone(), files[i].1.clone())))
            .into_manifest(so.builder(d), &signer, &Kid(0)).map_err(|e| e.to_string())?;
        let mft_t = Manifest::decode(mft.to_captured().as_slice(), true).map_err(|e| format!("the library's decoder refuses a manifest it built: {e}"))?;
        let bu = &base_uri;
        let ops: Vec<HOp<Manifest>> = vec![
            hop("content().len() / is_empty()", |m: &mut Manifest| format!("{} {}", m.content().len(), m.content().is_empty())),
            hop("content().iter()", |m: &mut Manifest| m.content().iter().map(|f| format!("{}={}", hex(f.file()), hex(f.hash()))).collect::<Vec<_>>().join(",")),
            hop("content().iter_uris(base)", move |m: &mut Manifest| m.content().iter_uris(bu).map(|(u, h)| format!("{u}={}", hex(h.as_slice()))).collect::<Vec<_>>().join(",")),
            hop("content().encode_ref()", |m: &mut Manifest| hx(&cap(m.content().encode_ref()))),
            hop("to_captured()", |m: &mut Manifest| hx(m.to_captured().as_slice())),
            hop("clone().validate_at(ta, t)", move |m: &mut Manifest| match m.clone().validate_at(&d.ta, true, now) { Ok((rc, c)) => format!("Ok {} {}", hx(rc.as_cert().to_captured().as_slice()), hx(&cap(c.encode_ref()))), Err(e) => format!("Err({e})") }),
            hop("cert().to_captured()", |m: &mut Manifest| hx(m.cert().to_captured().as_slice())),
        ];
        object_history(ctx, &sp, "manifest", &[("3 files".to_string(), Some(mft), mft_t)], &ops, &|m: &Manifest| obs_text(&obs_manifest(m, bu)), depth, &mut tot);

        // ---- a ROA
        let a4 = roa_alphabet(true); let a6 = roa_alphabet(false);
        let roa = { let mut b = RoaBuilder::new(asn_of(65536)); for i in [1usize, 0, 7] { b.push_v4(a4[i]) } for i in [9usize, 3] { b.push_v6(a6[i]) } b.finalize(so.builder(d), &signer, &Kid(0)).map_err(|e| e.to_string())? };
        let roa_t = Roa::decode(roa.to_captured().as_slice(), true).map_err(|e| format!("the library's decoder refuses a ROA it built: {e}"))?;
        let ops: Vec<HOp<Roa>> = vec![
            hop("content().iter()", |x: &mut Roa| x.content().iter().map(|f| f.to_string()).collect::<Vec<_>>().join(",")),
            hop("content().iter_origins()", |x: &mut Roa| x.content().iter_origins().map(|f| format!("{f:?}")).collect::<Vec<_>>().join(",")),
            hop("content().v4_addrs().iter()", |x: &mut Roa| r_roa_addrs(x.content().v4_addrs())),
            hop("content().v6_addrs().is_empty()", |x: &mut Roa| x.content().v6_addrs().is_empty().to_string()),
            hop("content().encode_ref()", |x: &mut Roa| hx(&cap(x.content().encode_ref()))),
            hop("to_captured()", |x: &mut Roa| hx(x.to_captured().as_slice())),
            hop("clone().process(ta)", |x: &mut Roa| match x.clone().process(&d.ta, true, |_| Ok(())) { Ok((rc, c)) => format!("Ok {} {}", hx(rc.as_cert().to_captured().as_slice()), hx(&cap(c.encode_ref()))), Err(e) => format!("Err({e})") }),
        ];
        object_history(ctx, &sp, "roa", &[("3 + 2 prefixes".to_string(), Some(roa), roa_t)], &ops, &|x: &Roa| obs_text(&obs_roa(x)), depth, &mut tot);

        // ---- an ASPA
        let aspa = AspaBuilder::new(asn_of(0), vec![asn_of(65536), asn_of(1), asn_of(4294967295)]).map_err(|e| e.to_string())?.finalize(so.builder(d), &signer, &Kid(0)).map_err(|e| e.to_string())?;
        let aspa_t = Aspa::decode(aspa.to_captured().as_slice(), true).map_err(|e| format!("the library's decoder refuses an ASPA it built: {e}"))?;
        let ops: Vec<HOp<Aspa>> = vec![
            hop("provider_as_set().iter()", |x: &mut Aspa| x.content().provider_as_set().iter().map(|a| a.to_string()).collect::<Vec<_>>().join(",")),
            hop("provider_as_set().len()", |x: &mut Aspa| x.content().provider_as_set().len().to_string()),
            hop("provider_as_set().to_set()", |x: &mut Aspa| { let s = x.content().provider_as_set().to_set(); format!("{} [{}]", s.len(), s.iter().map(|a| a.to_string()).collect::<Vec<_>>().join(",")) }),
            hop("customer_as() / as_resources()", |x: &mut Aspa| format!("{} {}", x.content().customer_as(), r_asres(&x.content().as_resources()))),
            hop("content().encode_ref()", |x: &mut Aspa| hx(&cap(x.content().encode_ref()))),
            hop("to_captured()", |x: &mut Aspa| hx(x.to_captured().as_slice())),
            hop("clone().process(ta)", |x: &mut Aspa| match x.clone().process(&d.ta, true, |_| Ok(())) { Ok((rc, c)) => format!("Ok {} {}", hx(rc.as_cert().to_captured().as_slice()), hx(&cap(c.encode_ref()))), Err(e) => format!("Err({e})") }),
        ];
        object_history(ctx, &sp, "aspa", &[("3 providers".to_string(), Some(aspa), aspa_t)], &ops, &|x: &Aspa| obs_text(&obs_aspa(x)), depth, &mut tot);

        // ---- a bare signed object
        let sobj = { let mut b = so.builder(d); b.set_as_resources_inherit();
            b.finalize(Oid(Bytes::copy_from_slice(&der::oid(&[1, 2, 840, 113549, 1, 9, 16, 1, 35])[2..])), Bytes::from(der::seq(&[der::int_u(7)])), &signer, &Kid(0)).map_err(|e| e.to_string())? };
        let sobj_t = SignedObject::decode(cap(sobj.encode_ref()).as_slice(), true).map_err(|e| format!("the library's decoder refuses a signed object it built: {e}"))?;
        let ops: Vec<HOp<SignedObject>> = vec![
            hop("content()", |x: &mut SignedObject| hx(&x.content().to_bytes())),
            hop("content_type() / signing_time()", |x: &mut SignedObject| format!("{} {}", x.content_type(), r_time(x.signing_time()))),
            hop("decode_content(capture_all)", |x: &mut SignedObject| r_res(x.decode_content(|cons| cons.capture_all()).map(|c| c.len()))),
            hop("encode_ref()", |x: &mut SignedObject| hx(&cap(x.encode_ref()))),
            hop("clone().validate_at(ta, t)", move |x: &mut SignedObject| match x.clone().validate_at(&d.ta, true, now) { Ok(rc) => obs_text(&obs_rescert(&rc)), Err(e) => format!("Err({e})") }),
            hop("cert().to_captured()", |x: &mut SignedObject| hx(x.cert().to_captured().as_slice())),
        ];
        object_history(ctx, &sp, "sigobj", &[("foreign content type".to_string(), Some(sobj), sobj_t)], &ops, &|x: &SignedObject| obs_text(&obs_sigobj(x)), depth, &mut tot);

        // ---- CA side: identity certificate, signed message, CA request
        let idc = IdCert::new_ee(&d.signer.public(4), d.validity((1, 3)), &Kid(0), &signer).map_err(|e| e.to_string())?;
        let idc_t = IdCert::decode(idc.to_captured().as_slice()).map_err(|e| format!("the library's decoder refuses an identity certificate it built: {e}"))?;
        let ops: Vec<HOp<IdCert>> = vec![
            hop("to_captured()", |x: &mut IdCert| hx(x.to_captured().as_slice())),
            hop("to_bytes()", |x: &mut IdCert| hx(&x.to_bytes())),
            hop("validate_ee_at(key, t)", move |x: &mut IdCert| r_res(x.validate_ee_at(&d.signer.public(0), now))),
            hop("validate_ta_at(t)", move |x: &mut IdCert| r_res(x.validate_ta_at(now))),
            hop("verify_validity(t)", move |x: &mut IdCert| r_res(x.verify_validity(now))),
            hop("subject_key_id() / authority_key_id()", |x: &mut IdCert| format!("{} {:?}", x.subject_key_id(), x.authority_key_id())),
            hop("public_key()", |x: &mut IdCert| r_key(x.public_key())),
        ];
        object_history(ctx, &sp, "idcert", &[("EE".to_string(), Some(idc), idc_t)], &ops, &|x: &IdCert| obs_text(&obs_idcert(x)), depth, &mut tot);

        let msg = SignedMessage::create(Bytes::from_static(b"<msg/>"), d.validity((1, 3)), &Kid(0), &signer).map_err(|e| e.to_string())?;
        let msg_t = SignedMessage::decode(msg.to_captured().as_slice(), true).map_err(|e| format!("the library's decoder refuses a signed message it built: {e}"))?;
        let ops: Vec<HOp<SignedMessage>> = vec![
            hop("content()", |x: &mut SignedMessage| hx(&x.content().to_bytes())),
            hop("content_type()", |x: &mut SignedMessage| x.content_type().to_string()),
            hop("to_captured()", |x: &mut SignedMessage| hx(x.to_captured().as_slice())),
            hop("validate_at(key, t)", move |x: &mut SignedMessage| r_res(x.validate_at(&d.signer.public(0), now))),
            hop("validate_at(another key, t)", move |x: &mut SignedMessage| r_res(x.validate_at(&d.signer.public(3), now))),
            hop("validate_at(key, outside the window)", |x: &mut SignedMessage| r_res(x.validate_at(&d.signer.public(0), d.instants[4]))),
        ];
        object_history(ctx, &sp, "sigmsg", &[("6 octets".to_string(), Some(msg), msg_t)], &ops, &|x: &SignedMessage| obs_text(&obs_sigmsg(x)), depth, &mut tot);

        let csr_bytes = Csr::construct_rpki_ca(&d.signer, &Kid(3), &d.dirs[1], &d.mfts[1], d.https[2].as_ref()).map_err(|e| e.to_string())?;
        let csr = RpkiCaCsr::decode(csr_bytes.as_slice()).map_err(|e| format!("the library's decoder refuses a CA request it built: {e}"))?;
        let ops: Vec<HOp<RpkiCaCsr>> = vec![
            hop("verify_signature()", |x: &mut RpkiCaCsr| r_res(x.verify_signature())),
            hop("to_captured()", |x: &mut RpkiCaCsr| hx(x.to_captured().as_slice())),
            hop("ca_repository() / rpki_manifest() / rpki_notify()", |x: &mut RpkiCaCsr| format!("{} {} {}", r_rsync(x.ca_repository()), r_rsync(x.rpki_manifest()), r_https(x.rpki_notify()))),
            hop("public_key() / subject()", |x: &mut RpkiCaCsr| format!("{} {}", r_key(x.public_key()), r_name(x.subject()))),
            hop("basic_ca() / key_usage()", |x: &mut RpkiCaCsr| format!("{} {:?}", x.basic_ca(), x.key_usage())),
        ];
        object_history(ctx, &sp, "csr", &[("CA request".to_string(), None, csr)], &ops, &|x: &RpkiCaCsr| obs_text(&obs_csr(x)), depth, &mut tot);
        Ok(())
    });
    match setup { Ok(Ok(())) => {}, Ok(Err(e)) | Err(e) => ctx.fail("C05.object_history.build", "the representative objects of the object-history space", e) }
    sp.evals(tot.seqs.max(1)); sp.nontrivial(tot.nontrivial); sp.traces(tot.seqs); sp.transitions(tot.ops); sp.states(tot.states.len() as u64);
    sp.done(true, &format!("{} operation sequences of length <= {depth} ({} operations applied) on {} objects (built values and decoded twins), each of which stayed in its one observable state", tot.seqs, tot.ops, tot.states.len()));
}

fn main() {
    if std::env::var("C05_CHILD").as_deref() == Ok("subjects") {
        // child of the environment space: print the subjects' observations (hashed) and leave
        rpki_verif::engine::report::install_quiet_panic_hook();
        let d = Dom::new();
        for i in 0..N_SUBJECTS { println!("SUBJECT {:016x}", fnv(subject(&d, i).as_bytes())) }
        return
    }
    let ctx = Ctx::new("C05", "exploration");
    ctx.assume("aws-lc RSA/ECDSA and SHA-256 are correct; keys come from the fixed pool in /verif/keys");
    ctx.assume("Roa::process / Aspa::process have no _at variant: they are called only for validity windows that contain the wall clock (1950-01-01 .. 2049-12-31); every object is additionally validated at both window ends through SignedObject::validate_at");
    ctx.assume("long encodings are compared through length + 64-bit FNV-1a in the accessor lists (oracle (ii) compares the octets themselves)");
    let d = Dom::new();
    let only = std::env::var("C05_ONLY").ok();
    let want = |n: &str| only.as_deref().map(|o| o.split(',').any(|x| x == n)).unwrap_or(true);
    if want("cert") { space_certs(&ctx, &d) }
    if want("crl") { space_crl(&ctx, &d) }
    if want("sigobj") { space_sigobj(&ctx, &d) }
    if want("manifest") { space_manifest(&ctx, &d) }
    if want("roa") { space_roa(&ctx, &d) }
    if want("aspa") { space_aspa(&ctx, &d) }
    if want("csr") { space_csr(&ctx, &d) }
    if want("idcert") { space_idcert(&ctx, &d) }
    if want("sigmsg") { space_sigmsg(&ctx, &d) }
    if want("cms") { space_cms(&ctx, &d) }
    if want("forms") { space_forms(&ctx, &d) }
    if want("setters") { space_setters(&ctx, &d) }
    if want("made") { space_made_inputs(&ctx, &d) }
    if want("timeroutes") { space_time_routes(&ctx, &d) }
    if want("reissue") { space_reissue(&ctx, &d) }
    if want("scale") { space_scale(&ctx, &d) }
    if want("chains") { space_chains(&ctx, &d) }
    if want("history") { space_history(&ctx, &d) }
    if want("usage") { space_usage(&ctx, &d) }
    if want("sequences") || want("seq.aspa") { space_seq_aspa(&ctx, &d) }
    if want("sequences") || want("seq.roa") { space_seq_roa(&ctx, &d) }
    if want("sequences") || want("seq.manifest") { space_seq_manifest(&ctx, &d) }
    if want("sequences") || want("seq.crl") { space_seq_crl(&ctx, &d) }
    if want("sequences") || want("seq.resources") { space_seq_resources(&ctx, &d) }
    if want("sequences") || want("seq.cert") { space_seq_cert(&ctx, &d) }
    if want("sequences") || want("seq.sigobj") { space_seq_sigobj(&ctx, &d) }
    if want("sequences") || want("seq.ca_side") { space_seq_ca_side(&ctx, &d) }
    if want("objhist") { space_object_history(&ctx, &d) }
    ctx.finish();
}
