fn main() { rpki_verif::engine::signer::generate_pool(); }
