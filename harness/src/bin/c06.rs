//! C06 — after any completed exchange the RTR client holds exactly the
//! server's data.
//!
//! Explicit-state breadth-first exploration over HISTORIES. A state is the
//! event history that reaches it; every transition builds fresh real objects
//! (the real `rpki::rtr::Client`, the real `rpki::rtr::Server` connection, a
//! real `NotifySender`) on a current-thread tokio runtime with paused clock
//! and replays `history + event`. Nothing is sampled.
//!
//! ```text
//!  Client<CSock,Target> <--duplex--> proxy task <--duplex--> Sock: Socket <- Server::run
//!        |                              |                                      |
//!   Target (applies                version limit L,                     Source (the
//!   announce/withdraw              frames + logs every                  specification)
//!   in order)                      PDU in both directions
//! ```
//!
//! The harness' `Source` is the specification: it records, per (session,
//! serial), the payload set it reported. After every `Client::step` that
//! returns `Ok` the oracles demand exactly what the property states:
//!
//! * `C06.state.eod`    client.state() == state named in the End of Data the
//!   server sent in this exchange (parsed independently by the proxy);
//! * `C06.data.equals_source`  target data (announce/withdraw applied in
//!   order to the previous data, ASPA keyed by customer) == the set the source
//!   recorded for client.state(), restricted to the payload types the
//!   negotiated version carries (v0 origins; v1 + router keys; v2 + ASPA);
//! * `C06.timing.equals_source`  for version >= 1 the timing the client hands
//!   to its target == the source's timing for that state.
//!
//! Steps that return `Err` (or exceed the simulated-time horizon) are counted,
//! not judged: the property is conditional on a completed exchange. After such
//! a step the connection is dead (as in `Client::run`); the harness reconnects
//! the way the `Client::new` documentation prescribes: new sockets, new server
//! connection, `client.state()` and the target carried over.
//!
//! Events: `U<S>` update to set S (diff retained) · `X<S>` update, diff
//! history dropped (thorough) · `D` drop diffs · `R` restart (new session) ·
//! `W` serial := 2^32-1 (the next update wraps to 0) · `N` notify · `S` client
//! step · `C<k>` client step during which the connection dies after k PDUs of
//! the response (an exchange that does NOT complete must not look completed).
//! `M<k>:<S>` client step during which the source moves to set S on entry to
//! the k-th call the server makes on it (state and data must be read together).
//! Roots: 7 initial client states x client initial version {0,1,2} x proxy
//! limit {0,1,2} x iteration order of the source's sets and diff steps
//! (grouped by type / reverse / mixed; `PayloadSet` promises no order). Both tiers run until the frontier is empty (fixpoint of the
//! canonical state space); the thorough tier has the larger space (two diff
//! styles, 3 retained diffs, the answer-lower proxy, `X` events). A wall-clock
//! safety net stops before a level that would not fit the budget; such a run
//! is reported as not exhaustive with the depth that was completed.
//!
//! Besides the history space (`rtr.histories`) and the scale space
//! (`rtr.scale`) there are five SEQUENCE spaces, enumerated in full without
//! merging states, every finished client step of a sequence judged by the
//! same three oracles against the End of Data the client consumed in it
//! (witness `seq space=.. ops=..`, cut after the judged step; operations
//! `J<delta>{k|d|n}{c|u}` source serial += delta mod 2^32 in the same session
//! with the diff base kept / dropped or into a new session, data changed /
//! unchanged · `N` notify · `SA`/`SB` client A/B steps · `SAB` both step
//! concurrently · `XA@k` A's step future is dropped at its k-th Pending ·
//! `T` the source reports other timing values from now on, `H` it stops (again:
//! resumes) serving diffs, `O` its iterators yield the next of the three
//! orders — session, serial and data stay where they are in all three · `RA`
//! client A gives its connection up and comes back over a new one to the
//! same `Server::run` with its state and target):
//!
//! * `rtr.serial_distance` — the serial distance between the client's stored
//!   state and the state End of Data names (+1, +2, 2^31-1, 2^31, 2^31+1, -2,
//!   -1, sums of two; across 0 and 2^31; backwards; same serial in a new
//!   session) over three rounds from four root serials;
//! * `rtr.two_clients` — two clients on one `Server::run`, interleaved and
//!   concurrent;
//! * `rtr.rejecting_target` — every `push_update` / `apply` call in turn
//!   returns an error, then retry / reconnect: what the rejected step left
//!   behind must not spoil a later finished step;
//! * `rtr.abandoned_step` — the step future dropped while Pending at every
//!   await point (narrow pipes: inside PDUs), then stepped again;
//! * `rtr.unmoved_state` — what the source REPORTS (timing, availability of
//!   diffs, iteration order) changes while its state stays, met on ONE
//!   connection that has already carried exchanges ending at that very state
//!   and on new connections to the same server: nothing kept from an earlier
//!   exchange by client, connection or server may stand in for the source.
//!
//! And the CONSTRUCTION-ROUTE space `rtr.construction_routes` (witness
//! `routes route=.. v=.. client=.. link=.. rev=.. [step=..]`): the source's
//! values made by every public route (constructors, relaxed / saturating
//! constructors, `From` impls, `FromStr`, serde, struct literals, a SLURM
//! file, a PDU turned back into a payload, the `Arbitrary` impls) over a
//! universe with every prefix length of both families and boundary values of
//! every component; what the client hands to its target is compared with
//! what the source reported by the crate's own `==`, `Hash`, `Ord` and
//! membership in `HashSet` / `BTreeSet` (same oracle
//! `C06.data.equals_source`), besides the model comparison.

use std::cell::RefCell;
use std::collections::{BTreeMap, BTreeSet, HashSet};
use std::hash::{Hash, Hasher};
use std::net::{IpAddr, Ipv4Addr, Ipv6Addr};
use std::panic::{self, AssertUnwindSafe};
use std::pin::Pin;
use std::sync::atomic::{AtomicU64, Ordering};
use std::sync::{Arc, Mutex};
use std::task::{Context, Poll};
use std::time::{Duration, Instant as WallInstant};

use rayon::prelude::*;
use serde_json::json;
use tokio::io::{AsyncRead, AsyncReadExt, AsyncWrite, AsyncWriteExt, DuplexStream, ReadBuf};

use rpki::resources::addr::{MaxLenPrefix, Prefix};
use rpki::resources::asn::Asn;
use rpki::rtr::client::{Client, PayloadError, PayloadTarget, PayloadUpdate};
use rpki::rtr::payload::{Action, Payload, PayloadRef, Timing};
use rpki::rtr::pdu::{ProviderAsns, RouterKeyInfo};
use rpki::rtr::server::{NotifySender, PayloadDiff, PayloadSet, PayloadSource, Server, Socket};
use rpki::rtr::state::{Serial, State};
use rpki_verif::Ctx;

// ======================================================================
// Panic bookkeeping (a panic inside the spawned server task is swallowed by
// tokio; the hook makes it visible all the same)
// ======================================================================

thread_local! {
    static PANICS: RefCell<Vec<String>> = const { RefCell::new(Vec::new()) };
}

fn install_hook() {
    panic::set_hook(Box::new(|info| {
        let msg = if let Some(s) = info.payload().downcast_ref::<&str>() { s.to_string() }
            else if let Some(s) = info.payload().downcast_ref::<String>() { s.clone() }
            else { "<non-string panic>".to_string() };
        let loc = info.location().map(|l| format!("{}:{}", l.file(), l.line())).unwrap_or_default();
        PANICS.with(|p| p.borrow_mut().push(format!("panic at {loc}: {msg}")));
    }));
}

// ======================================================================
// The payload universe and the reference model of a data set
// ======================================================================

/// The payload items of the universe, boundary-dense per field:
/// * origins: an ordinary v4 and v6 one; 0.0.0.0/0 with max-len = prefix len
///   and AS 0; a v4 host prefix (/32-32, max-len = family maximum) with AS
///   2^32-1; ::/0 with max-len 128; a v6 host prefix with AS 0;
/// * router keys: 91 octets of key info; NO key info at all (all-zero SKI,
///   AS 2^32-1);
/// * ASPA: customer 1 with five providers (`A1a`), four others (`A1b`) and
///   with NONE (`A1e`) — three records of the SAME customer; customer 2 with
///   four providers; a customer with one provider equal to itself (AS
///   2^32-1); customer AS 0 with seventeen providers (AS 0 and 2^32-1 among
///   them).
#[derive(Clone, Copy, Debug, PartialEq, Eq, PartialOrd, Ord, Hash)]
enum Item { O4, O4z, O4h, O6, O6z, O6h, K, K2, A1a, A1b, A1e, A2, A4, A5 }

/// Grouped by type, types in the order the protocol got them.
const UNIVERSE: [Item; 14] = [Item::O4, Item::O4z, Item::O4h, Item::O6, Item::O6z, Item::O6h, Item::K, Item::K2,
    Item::A1a, Item::A1b, Item::A1e, Item::A2, Item::A4, Item::A5];
/// Types interleaved: for version 0 and for version 1 an item the version
/// cannot carry precedes one it can, in every set that has both.
const MIXED: [Item; 14] = [Item::K, Item::O4, Item::A1a, Item::A1b, Item::A1e, Item::O6, Item::A4, Item::O4z, Item::K2,
    Item::O6z, Item::A2, Item::O4h, Item::A5, Item::O6h];

/// The fixed family of payload subsets the source can hold (kept at eight:
/// the boundary items live inside the sets instead of multiplying them).
const SETS: [&[Item]; 8] = [
    &[],
    &[Item::O4z, Item::O4h],
    &[Item::O6z, Item::O6h],
    &[Item::K2],
    &[Item::A1a],
    &[Item::A1e],
    &[Item::O4, Item::O6, Item::K, Item::A1a, Item::A2, Item::A4],
    &[Item::O6, Item::O4h, Item::K, Item::K2, Item::A1b, Item::A5],
];

const KEY_SKI: [u8; 20] = [0x11, 0x22, 0x33, 0x44, 0x55, 0x66, 0x77, 0x88, 0x99, 0xAA, 1, 2, 3, 4, 5, 6, 7, 8, 9, 10];
/// 91 octets of key info (the size of a P-256 SubjectPublicKeyInfo), no two
/// neighbouring octets equal and none zero, so that octets lost, repeated or
/// replaced by buffer residue always show.
fn key_info() -> Vec<u8> { (0..91u32).map(|i| (i * 7 % 251 + 1) as u8).collect() }

/// Model rendering of one payload item, independent of the library's types.
#[derive(Clone, Debug, PartialEq, Eq, PartialOrd, Ord, Hash)]
enum Entry {
    Origin { addr: IpAddr, len: u8, max: u8, asn: u32 },
    Key { ski: [u8; 20], asn: u32, info: Vec<u8> },
    Aspa { customer: u32, providers: Vec<u32> },
}

fn item_entry(i: Item) -> Entry {
    match i {
        Item::O4 => Entry::Origin { addr: IpAddr::V4(Ipv4Addr::new(192, 0, 2, 0)), len: 24, max: 26, asn: 64496 },
        Item::O4z => Entry::Origin { addr: IpAddr::V4(Ipv4Addr::new(0, 0, 0, 0)), len: 0, max: 0, asn: 0 },
        Item::O4h => Entry::Origin { addr: IpAddr::V4(Ipv4Addr::new(198, 51, 100, 7)), len: 32, max: 32, asn: u32::MAX },
        Item::O6 => Entry::Origin { addr: IpAddr::V6(Ipv6Addr::new(0x2001, 0xdb8, 0, 0, 0, 0, 0, 0)), len: 32, max: 48, asn: 64497 },
        Item::O6z => Entry::Origin { addr: IpAddr::V6(Ipv6Addr::new(0, 0, 0, 0, 0, 0, 0, 0)), len: 0, max: 128, asn: 64499 },
        Item::O6h => Entry::Origin { addr: IpAddr::V6(Ipv6Addr::new(0x2001, 0xdb8, 0, 0, 0, 0, 0, 1)), len: 128, max: 128, asn: 0 },
        Item::K => Entry::Key { ski: KEY_SKI, asn: 64498, info: key_info() },
        Item::K2 => Entry::Key { ski: [0; 20], asn: u32::MAX, info: Vec::new() },
        Item::A1a => Entry::Aspa { customer: 64500, providers: vec![64501, 64502, 64504, 64505, 64506] },
        Item::A1b => Entry::Aspa { customer: 64500, providers: vec![64503, 64507, 64508, 64509] },
        Item::A1e => Entry::Aspa { customer: 64500, providers: Vec::new() },
        Item::A2 => Entry::Aspa { customer: 64510, providers: vec![64501, 64511, 64512, 64513] },
        Item::A4 => Entry::Aspa { customer: u32::MAX, providers: vec![u32::MAX] },
        Item::A5 => Entry::Aspa { customer: 0, providers: {
            let mut v: Vec<u32> = (0..15).map(|i| 65000 + 3 * i).collect(); v.insert(0, 0); v.push(u32::MAX); v } },
    }
}

/// Lowest protocol version that carries the item's payload type (RFC 6810:
/// prefixes; RFC 8210: + router keys; 8210bis: + ASPA).
fn item_min_version(i: Item) -> u8 {
    match item_entry(i) { Entry::Origin { .. } => 0, Entry::Key { .. } => 1, Entry::Aspa { .. } => 2 }
}

/// Library payload for an item (what the source hands to the server).
fn item_payload(i: Item) -> Payload { entry_payload(item_entry(i)) }

/// Library payload for a model entry.
fn entry_payload(e: Entry) -> Payload {
    match e {
        Entry::Origin { addr, len, max, asn } =>
            Payload::origin(MaxLenPrefix::new(Prefix::new(addr, len).unwrap(), Some(max)).unwrap(), Asn::from_u32(asn)),
        Entry::Key { ski, asn, info } =>
            Payload::router_key(ski.into(), Asn::from_u32(asn), RouterKeyInfo::new(info.into()).unwrap()),
        Entry::Aspa { customer, providers } =>
            Payload::aspa(Asn::from_u32(customer),
                ProviderAsns::try_from_iter(providers.into_iter().map(Asn::from_u32)).unwrap()),
    }
}

/// What the client handed to the target, rendered in model terms.
fn payload_entry(p: &Payload) -> Entry {
    match p {
        Payload::Origin(o) => Entry::Origin {
            addr: o.prefix.addr(), len: o.prefix.prefix_len(), max: o.prefix.resolved_max_len(), asn: o.asn.into_u32() },
        Payload::RouterKey(k) => Entry::Key {
            ski: k.key_identifier.into(), asn: k.asn.into_u32(), info: k.key_info.as_slice().to_vec() },
        Payload::Aspa(a) => Entry::Aspa {
            customer: a.customer.into_u32(), providers: a.providers.iter().map(|x| x.into_u32()).collect() },
    }
}

/// A data set: origins and router keys are plain set members, ASPA records
/// are keyed by customer AS.
#[derive(Clone, Debug, Default, PartialEq, Eq, PartialOrd, Ord, Hash)]
struct Data {
    plain: BTreeSet<Entry>,
    aspa: BTreeMap<u32, Vec<u32>>,
}

impl Data {
    fn announce(&mut self, e: Entry) -> bool {
        match e {
            Entry::Aspa { customer, providers } => {
                let same = self.aspa.get(&customer) == Some(&providers);
                self.aspa.insert(customer, providers);
                !same
            }
            other => self.plain.insert(other),
        }
    }
    fn withdraw(&mut self, e: &Entry) -> bool {
        match e {
            Entry::Aspa { customer, .. } => self.aspa.remove(customer).is_some(),
            other => self.plain.remove(other),
        }
    }
    fn render(&self) -> String {
        let mut v: Vec<String> = Vec::new();
        for e in &self.plain {
            match e {
                Entry::Origin { addr, len, max, asn } => v.push(format!("{addr}/{len}-{max}=>AS{asn}")),
                Entry::Key { asn, info, .. } => v.push(format!("key(AS{asn},{}B)", info.len())),
                Entry::Aspa { .. } => v.push("?aspa-in-plain".into()),
            }
        }
        for (c, p) in &self.aspa { v.push(format!("aspa(AS{c}:{p:?})")) }
        format!("{{{}}}", v.join(", "))
    }
}

/// The specification: the payload set `set` as a client speaking protocol
/// version `version` must hold it.
fn expected_data(set: u8, version: u8) -> Data {
    let mut d = Data::default();
    for &i in SETS[set as usize] {
        if item_min_version(i) <= version { d.announce(item_entry(i)); }
    }
    d
}

/// The source's timing is whatever the source says — the property does not
/// ask it to be sensible. One triple per set, boundary-dense and unordered:
/// the client's own default; expire == retry; expire == refresh; expire <
/// refresh; all equal; all zero; all 2^32-1; expire between refresh and retry.
/// Updates move between them (sane -> not sane and back).
const TIMINGS: [(u32, u32, u32); 8] = [
    (3600, 600, 7200),
    (30, 100, 100),
    (500, 20, 500),
    (900, 10, 300),
    (77, 77, 77),
    (0, 0, 0),
    (u32::MAX, u32::MAX, u32::MAX),
    (1, 86400, 2),
];
fn timing_of(set: u8) -> (u32, u32, u32) { TIMINGS[set as usize % TIMINGS.len()] }

// ======================================================================
// The source (specification side of the server)
// ======================================================================

#[derive(Clone, Copy, Debug, PartialEq, Eq, Hash, PartialOrd, Ord)]
enum Style { Net, Chained }

/// The order in which the source's iterators yield their items. `PayloadSet`
/// and `PayloadDiff` promise no order, so it is a dimension of "sets changing
/// arbitrarily"; it is fixed per root. Inside a diff only re-orderings that
/// leave the in-order, keyed-by-customer semantics untouched are used: the
/// operations of one update step touch pairwise different keys, so they may
/// be permuted freely; the steps of a chained diff stay in history order.
#[derive(Clone, Copy, Debug, PartialEq, Eq, Hash, PartialOrd, Ord)]
enum Order {
    /// origins, router key, ASPA (types in the order the protocol got them);
    /// diff operations in item order, announcements and withdrawals mixed
    Grouped,
    /// ASPA, router key, origins; in a diff all withdrawals of a step first
    Reverse,
    /// types interleaved (see `MIXED`: router key, v4 origin, ASPA, v6 origin, ...):
    /// for version 0 and for version 1 an item the version cannot carry
    /// precedes one it can; in a diff all announcements of a step first
    Mixed,
}

const ORDERS: [Order; 3] = [Order::Grouped, Order::Reverse, Order::Mixed];

/// The transport between client and server: capacity of the in-memory pipes
/// per direction (client -> server: both hops; server -> client: the hop
/// into the client, the proxy drains the server at once). A pipe of
/// capacity k hands a reader at most k octets at a time, i.e. it is also the
/// "forwarded in chunks of k" transport. Fixed per root; the client's data
/// must not depend on it.
#[derive(Clone, Copy, Debug, PartialEq, Eq, Hash, PartialOrd, Ord)]
enum Transport { Roomy, S16, S12, S7, S1C1, C7 }

/// The public route by which the client-step events (`S`, `C<k>`, `M<k>:<S>`)
/// synchronise: the client's own `step()`, or the pieces a user may call
/// directly. (`Client::serial` is private and reachable only through
/// `update()`.) Fixed per root.
#[derive(Clone, Copy, Debug, PartialEq, Eq, Hash, PartialOrd, Ord)]
enum Route {
    /// `step()`
    Step,
    /// `update()` followed by `apply()`
    UpdateApply,
    /// `reset()` followed by `apply()`: always a reset query, never waits
    ResetApply,
}

const ROUTES: [Route; 3] = [Route::Step, Route::UpdateApply, Route::ResetApply];

impl Route {
    fn name(self) -> &'static str { match self { Route::Step => "step", Route::UpdateApply => "update", Route::ResetApply => "reset" } }
}

const TRANSPORTS: [Transport; 6] = [Transport::Roomy, Transport::S16, Transport::S12, Transport::S7, Transport::S1C1, Transport::C7];

impl Transport {
    fn name(self) -> &'static str {
        match self { Transport::Roomy => "roomy", Transport::S16 => "s16", Transport::S12 => "s12", Transport::S7 => "s7",
                     Transport::S1C1 => "s1c1", Transport::C7 => "c7" }
    }
    /// (client -> server capacity, server -> client capacity)
    fn caps(self) -> (usize, usize) {
        const ROOMY: usize = 1 << 16;
        match self { Transport::Roomy => (ROOMY, ROOMY), Transport::S16 => (ROOMY, 16), Transport::S12 => (ROOMY, 12),
                     Transport::S7 => (ROOMY, 7), Transport::S1C1 => (1, 1), Transport::C7 => (7, ROOMY) }
    }
    fn narrow_s2c(self) -> bool { self.caps().1 < 20 }
}

impl Order {
    fn name(self) -> &'static str { match self { Order::Grouped => "grouped", Order::Reverse => "reverse", Order::Mixed => "mixed" } }
    fn rank(self, i: Item) -> u8 {
        let g = UNIVERSE.iter().position(|x| *x == i).unwrap() as u8;
        match self {
            Order::Grouped => g,
            Order::Reverse => UNIVERSE.len() as u8 - 1 - g,
            Order::Mixed => MIXED.iter().position(|x| *x == i).unwrap() as u8,
        }
    }
    fn sort_set(self, items: &mut Vec<Item>) { items.sort_by_key(|i| self.rank(*i)) }
    /// Orders the operations of ONE update step (pairwise different keys).
    fn sort_step(self, ops: &mut Vec<(Item, Action)>) {
        ops.sort_by_key(|(i, a)| {
            let major = match (self, a) {
                (Order::Grouped, _) => 0,
                (Order::Reverse, Action::Withdraw) | (Order::Mixed, Action::Announce) => 0,
                _ => 1,
            };
            (major, self.rank(*i))
        });
    }
}

const SESSION0: u16 = 0x04D2;
const RESTART_SERIAL: u32 = 1000;

struct SrcInner {
    session: u16,
    serial: u32,
    cur: u8,
    /// Sets of the retained previous states, oldest first; `chain[len-k]` is
    /// the set at `serial - k`.
    chain: Vec<u8>,
    /// The serial of each retained previous state (parallel to `chain`). As
    /// long as the serial moves by +1 per update `chain_serial[len-k]` is
    /// `serial - k`; the `J` events of the sequence spaces move it by any
    /// amount, so a diff is looked up by the serial the client names.
    chain_serial: Vec<u32>,
    /// Every state the source ever was in -> the set it reported for it.
    record: BTreeMap<(u16, u32), u8>,
    /// 0 = serial far below the wrap, 1 = serial is 2^32-1, 2 = wrapped.
    epoch: u8,
    style: Style,
    order: Order,
    /// longest retained diff chain
    cap: usize,
    collision: bool,
    /// mid-step update: on entry to the k-th call the server makes on the
    /// source during the current client step (ready / notify / full / diff /
    /// timing all count) the source first moves to this set (serial + 1, diff
    /// retained) and only then answers — so whatever one call returns is
    /// consistent in itself ("the update landed when the server came asking")
    armed: Option<(u8, u8)>,
    calls: u8,
    fired: Option<(u8, &'static str)>,
    /// the state the source was in when `timing()` was last asked in this step
    timing_asked_in: Option<(u16, u32)>,
    /// ... and at every `timing()` call of this step (one per completed exchange)
    timing_calls: Vec<(u16, u32)>,
    /// `L<S>` event: move to this set on entry to the first call that follows
    /// a `timing()` call, i.e. between two exchanges of `Client::run`
    armed_after_timing: Option<u8>,
    /// accessor sweep on the serving side (see `pdu_sweep`, `update`, `restart`)
    api_faults: Vec<String>,
    /// What the source reports can change while its STATE stays where it is
    /// (`rtr.unmoved_state`): the operator reconfigures the intervals — the
    /// timing reported for set S is `TIMINGS[(S + retimed) % 8]` (0 outside
    /// that space, `T` adds 1) ...
    retimed: u8,
    /// ... or the source stops / resumes serving diffs: while set, `diff()`
    /// answers `None` for every state, its own current one included (`H`).
    /// (The third such change, the iteration order, is `order` itself: `O`.)
    hide_diffs: bool,
}

impl SrcInner {
    /// The timing the source reports while it holds set `set`, as things
    /// stand now. The retiming events happen between client steps only, so
    /// right after a step this is what the source said during the step.
    fn timing_for(&self, set: u8) -> (u32, u32, u32) { timing_of(set.wrapping_add(self.retimed) % TIMINGS.len() as u8) }
    fn remember(&mut self) {
        if let Some(old) = self.record.insert((self.session, self.serial), self.cur) {
            if old != self.cur { self.collision = true }
        }
    }
    /// The library's own way of moving a session on (`State::inc`, built on
    /// `Serial::add`) must agree with the model's serial + 1 mod 2^32.
    fn inc_check(&mut self) {
        let mut st = State::from_parts(self.session, Serial(self.serial));
        st.inc();
        let added = Serial(self.serial).add(1);
        if st.serial().0 != self.serial.wrapping_add(1) || added != st.serial() || st.session() != self.session {
            self.api_faults.push(format!("State::inc() / Serial::add(1) from serial {} gave {} / {}", self.serial, st.serial(), added));
        }
    }
    fn update(&mut self, set: u8, keep_diff: bool) {
        self.inc_check();
        self.retain(keep_diff);
        self.cur = set;
        self.serial = self.serial.wrapping_add(1);
        if self.epoch == 1 { self.epoch = 2 }
        self.remember();
    }
    /// Keeps the current state as a diff base (oldest dropped beyond `cap`)
    /// or forgets all of them.
    fn retain(&mut self, keep_diff: bool) {
        if keep_diff {
            self.chain.push(self.cur);
            self.chain_serial.push(self.serial);
            if self.chain.len() > self.cap { self.chain.remove(0); self.chain_serial.remove(0); }
        } else {
            self.drop_diffs();
        }
    }
    /// `J` event of the sequence spaces: the serial moves by `delta` mod 2^32
    /// (forwards, by half the number circle, backwards), in the same session
    /// with the diff base kept or dropped, or into a new session.
    fn jump(&mut self, delta: u32, keep_diff: bool, new_session: bool, set: u8) {
        if delta == 1 && !new_session { self.inc_check() }
        if delta <= 0x7FFF_FFFF && Serial(self.serial).add(delta).0 != self.serial.wrapping_add(delta) {
            self.api_faults.push(format!("Serial({}).add({delta}) = {}", self.serial, Serial(self.serial).add(delta)));
        }
        if new_session { self.session = self.session.wrapping_add(1); self.drop_diffs(); } else { self.retain(keep_diff) }
        self.cur = set;
        self.serial = self.serial.wrapping_add(delta);
        self.remember();
    }
    /// The retained sets from the state with this serial (same session) up
    /// to, excluding, the current one; `None` if no diff can be served.
    fn path_from(&self, serial: u32) -> Option<Vec<u8>> {
        if serial == self.serial { return Some(Vec::new()) }
        let p = self.chain_serial.iter().rposition(|s| *s == serial)?;
        Some(self.chain[p..].to_vec())
    }
    fn drop_diffs(&mut self) { self.chain.clear(); self.chain_serial.clear() }
    fn begin_step(&mut self, armed: Option<(u8, u8)>) {
        self.armed = armed; self.calls = 0; self.fired = None; self.timing_asked_in = None;
        self.timing_calls.clear(); self.armed_after_timing = None;
    }
    fn end_step(&mut self) { self.armed = None; self.armed_after_timing = None }
    /// Entry of every `PayloadSource` call.
    fn tick(&mut self, call: &'static str) {
        self.calls = self.calls.saturating_add(1);
        if let (Some(set), false) = (self.armed_after_timing, self.timing_calls.is_empty()) {
            self.armed_after_timing = None;
            self.fired = Some((self.calls, call));
            self.update(set, true);
        }
        if let Some((k, set)) = self.armed {
            if self.calls == k {
                self.armed = None;
                self.fired = Some((k, call));
                self.update(set, true);
            }
        }
    }
    fn restart(&mut self) {
        // `State::new_with_serial` / `State::new` are how a source starts a
        // session; their session id comes from the wall clock, so the model
        // keeps its own id and only compares what must hold regardless.
        let a = State::new_with_serial(Serial(RESTART_SERIAL));
        let b = State::new();
        let dflt = State::default();
        if a.serial().0 != RESTART_SERIAL || b.serial().0 != 0 || dflt.serial().0 != 0
            || b.session().wrapping_sub(a.session()) > 1 || dflt.session().wrapping_sub(b.session()) > 1
            || State::from_parts(a.session(), a.serial()).serial() != a.serial() {
            self.api_faults.push(format!("State::new_with_serial({RESTART_SERIAL}) = {a:?}, State::new() = {b:?}"));
        }
        self.session = self.session.wrapping_add(1);
        self.serial = RESTART_SERIAL;
        self.epoch = 0;
        self.drop_diffs();
        self.remember();
    }
    fn wrap(&mut self) {
        self.serial = 0xFFFF_FFFF;
        self.epoch = 1;
        self.drop_diffs();
        self.remember();
    }
}

/// The model-level difference old -> new: plain items by membership, ASPA by
/// customer (a changed record is announced again, which replaces it; a
/// vanished customer is withdrawn).
fn net_diff(old: u8, new: u8) -> Vec<(Item, Action)> {
    let o = SETS[old as usize]; let n = SETS[new as usize];
    let mut out = Vec::new();
    for &i in &UNIVERSE {
        let (io, inn) = (o.contains(&i), n.contains(&i));
        match item_entry(i) {
            Entry::Aspa { customer, .. } => {
                let new_has_customer = n.iter().any(|&j| matches!(item_entry(j), Entry::Aspa { customer: c, .. } if c == customer));
                if inn && !io { out.push((i, Action::Announce)) }
                else if io && !inn && !new_has_customer { out.push((i, Action::Withdraw)) }
            }
            _ => {
                if inn && !io { out.push((i, Action::Announce)) }
                else if io && !inn { out.push((i, Action::Withdraw)) }
            }
        }
    }
    out
}

/// Every payload the source serves is also turned into its PDU for every
/// version that carries it; the PDU's by-value accessors (`into_key_info`,
/// `into_providers`) must return what the by-reference ones return and what
/// was put in, and `to_payload` must give the payload back.
fn pdu_sweep(p: &Payload, action: Action, faults: &mut Vec<String>) {
    use rpki::rtr::pdu;
    for version in 0..=2u8 {
        let Some(x) = pdu::Payload::new_if_supported(version, action.into_flags(), p.as_ref()) else { continue };
        match x.to_payload() {
            Ok((a, back)) => {
                let same = match (&back, p, action) {
                    (Payload::Aspa(b), Payload::Aspa(o), Action::Withdraw) => b.key() == o.key(),
                    _ => back == *p,
                };
                if a != action || !same { faults.push(format!("PDU v{version} of {p:?} converts back to {a:?} {back:?}")) }
            }
            Err(_) => faults.push(format!("PDU v{version} of {p:?} does not convert back")),
        }
        match (x, p) {
            (pdu::Payload::RouterKey(k), Payload::RouterKey(o)) => {
                let by_ref = k.key_info().clone();
                let by_val = k.into_key_info();
                if by_ref != by_val || by_val != o.key_info { faults.push(format!("pdu::RouterKey::into_key_info() v{version} differs from key_info() / input")) }
            }
            (pdu::Payload::Aspa(k), Payload::Aspa(o)) => {
                let by_ref = k.providers().clone();
                let count = by_ref.asn_count();
                let by_val = k.into_providers();
                if by_ref != by_val || by_val != o.providers || count as usize != o.providers.iter().count() {
                    faults.push(format!("pdu::Aspa::into_providers() v{version} differs from providers() / input"))
                }
            }
            _ => {}
        }
    }
}

#[derive(Clone)]
struct Source(Arc<Mutex<SrcInner>>);

struct SetIter { items: Vec<Payload>, pos: usize }
impl PayloadSet for SetIter {
    fn next(&mut self) -> Option<PayloadRef<'_>> {
        let p = self.items.get(self.pos)?;
        self.pos += 1;
        Some(p.as_ref())
    }
}

struct DiffIter { items: Vec<(Payload, Action)>, pos: usize }
impl PayloadDiff for DiffIter {
    fn next(&mut self) -> Option<(PayloadRef<'_>, Action)> {
        let p = self.items.get(self.pos)?;
        self.pos += 1;
        Some((p.0.as_ref(), p.1))
    }
}

impl PayloadSource for Source {
    type Set = SetIter;
    type Diff = DiffIter;
    fn ready(&self) -> bool { self.0.lock().unwrap().tick("ready"); true }
    fn notify(&self) -> State {
        let mut s = self.0.lock().unwrap();
        s.tick("notify");
        State::from_parts(s.session, Serial(s.serial))
    }
    fn full(&self) -> (State, SetIter) {
        let mut s = self.0.lock().unwrap();
        s.tick("full");
        (State::from_parts(s.session, Serial(s.serial)),
         SetIter { items: {
             let mut v = SETS[s.cur as usize].to_vec();
             s.order.sort_set(&mut v);
             let items: Vec<Payload> = v.into_iter().map(item_payload).collect();
             let mut faults = Vec::new();
             for p in &items { pdu_sweep(p, Action::Announce, &mut faults) }
             s.api_faults.extend(faults);
             items
         }, pos: 0 })
    }
    fn diff(&self, state: State) -> Option<(State, DiffIter)> {
        let mut s = self.0.lock().unwrap();
        s.tick("diff");
        if s.hide_diffs { return None }
        if state.session() != s.session { return None }
        let mut path: Vec<u8> = s.path_from(state.serial().0)?;
        path.push(s.cur);
        let mut ops: Vec<(Item, Action)> = Vec::new();
        match s.style {
            Style::Net => { ops = net_diff(path[0], s.cur); s.order.sort_step(&mut ops); }
            Style::Chained => for w in path.windows(2) {
                let mut step = net_diff(w[0], w[1]);
                s.order.sort_step(&mut step);
                ops.extend(step);
            },
        }
        Some((State::from_parts(s.session, Serial(s.serial)),
              DiffIter { items: {
                  let items: Vec<(Payload, Action)> = ops.into_iter().map(|(i, a)| (item_payload(i), a)).collect();
                  let mut faults = Vec::new();
                  for (p, a) in &items { pdu_sweep(p, *a, &mut faults) }
                  s.api_faults.extend(faults);
                  items
              }, pos: 0 }))
    }
    fn timing(&self) -> Timing {
        let mut s = self.0.lock().unwrap();
        s.tick("timing");
        s.timing_asked_in = Some((s.session, s.serial));
        let at = (s.session, s.serial);
        s.timing_calls.push(at);
        let t = s.timing_for(s.cur);
        Timing { refresh: t.0, retry: t.1, expire: t.2 }
    }
}

// ======================================================================
// The target (client side): applies announce/withdraw in order
// ======================================================================

/// What one `PayloadTarget::apply` call left behind (the library's own
/// `Client::run` loop applies several updates before the harness gets the
/// client back).
#[derive(Clone, Debug, PartialEq, Eq)]
struct ApplySnap { data: Data, timing: (u32, u32, u32), v4_ops: usize, v6_ops: usize }

#[derive(Default)]
struct Target {
    data: Data,
    reported_timing: Option<(u32, u32, u32)>,
    applies: u64,
    /// one entry per apply since the harness last cleared it
    applied: Vec<ApplySnap>,
    /// accessor sweep: every payload and action handed over also goes through
    /// the by-value / predicate / key accessors, which must say what the
    /// fields and the sibling accessors say
    api_faults: Vec<String>,
    /// informational: the update contained a withdrawal of something absent /
    /// an announcement of something present
    odd_withdraw: u64,
    odd_announce: u64,
    /// failure injection of the `rtr.apply_failure` space (none elsewhere)
    ctl: Option<Arc<Mutex<FailCtl>>>,
}

/// A target that rejects what it is given: the `push`-th `push_update` call
/// or the `apply`-th `apply` call (counted over the whole scenario, from 0)
/// returns the error, once. A rejected `apply` leaves the data untouched.
#[derive(Default)]
struct FailCtl {
    fail_push: Option<u32>,
    fail_apply: Option<u32>,
    kind: Option<PayloadError>,
    pushes: u32,
    applies: u32,
    starts: u32,
    fired: Option<String>,
}

struct Update { reset: bool, ops: Vec<(Action, Payload)>, faults: Vec<String>, fail: Option<PayloadError>, ctl: Option<Arc<Mutex<FailCtl>>> }

/// Differential accessor checks on one (action, payload) pair: no expected
/// values are written down, every accessor is compared with its siblings.
fn accessor_sweep(action: Action, p: &Payload, faults: &mut Vec<String>) {
    use rpki::rtr::payload::PayloadType;
    let by_variant = match (p.to_origin().is_some(), p.as_router_key().is_some(), p.as_aspa().is_some()) {
        (true, false, false) => Some(PayloadType::Origin),
        (false, true, false) => Some(PayloadType::RouterKey),
        (false, false, true) => Some(PayloadType::Aspa),
        _ => None,
    };
    if by_variant != Some(p.payload_type()) {
        faults.push(format!("payload_type() = {:?} but to_origin/as_router_key/as_aspa say {by_variant:?}", p.payload_type()));
    }
    if action.is_withdraw() == action.is_announce() || action.is_withdraw() != (action == Action::Withdraw)
        || Action::from_flags(action.into_flags()) != action {
        faults.push(format!("Action accessors disagree for {action:?}"));
    }
    match p {
        Payload::Origin(o) => {
            if o.is_v4() != o.prefix.addr().is_ipv4() || o.is_v4() != o.prefix.prefix().is_v4() {
                faults.push(format!("RouteOrigin::is_v4() = {} for {}", o.is_v4(), o.prefix.addr()));
            }
        }
        Payload::RouterKey(k) => {
            if k.key_info.clone().into_bytes().as_ref() != k.key_info.as_slice() {
                faults.push("RouterKeyInfo::into_bytes() differs from as_slice()".into());
            }
        }
        Payload::Aspa(a) => {
            if a.key() != a.customer { faults.push(format!("Aspa::key() = {} but customer = {}", a.key(), a.customer)); }
            if a.providers.asn_count() as usize != a.providers.iter().count() || a.providers.len() != 4 * a.providers.iter().count()
                || a.providers.is_empty() != (a.providers.iter().count() == 0) {
                faults.push(format!("ProviderAsns::asn_count() = {} but iter() yields {}", a.providers.asn_count(), a.providers.iter().count()));
            }
            let w = a.withdraw();
            if w.key() != a.key() || !w.providers.is_empty() { faults.push("Aspa::withdraw() changed the key or kept providers".into()); }
        }
    }
}

impl PayloadUpdate for Update {
    fn push_update(&mut self, action: Action, payload: Payload) -> Result<(), PayloadError> {
        accessor_sweep(action, &payload, &mut self.faults);
        if let Some(ctl) = &self.ctl {
            let mut c = ctl.lock().unwrap();
            let i = c.pushes; c.pushes += 1;
            if c.fail_push == Some(i) { c.fired = Some(format!("push_update #{i}")); return Err(c.kind.unwrap()) }
        }
        self.ops.push((action, payload));
        Ok(())
    }
}

impl PayloadTarget for Target {
    type Update = Update;
    fn start(&mut self, reset: bool) -> Update {
        if let Some(ctl) = &self.ctl { ctl.lock().unwrap().starts += 1 }
        Update { reset, ops: Vec::new(), faults: Vec::new(), fail: None, ctl: self.ctl.clone() }
    }
    fn apply(&mut self, update: Update, timing: Timing) -> Result<(), PayloadError> {
        if let Some(err) = update.fail { return Err(err) }   // only the `E` event builds such an update
        if let Some(ctl) = &self.ctl {
            let mut c = ctl.lock().unwrap();
            let i = c.applies; c.applies += 1;
            if c.fail_apply == Some(i) { c.fired = Some(format!("apply #{i}")); return Err(c.kind.unwrap()) }
        }
        if update.reset { self.data = Data::default() }
        let (mut v4_ops, mut v6_ops) = (0, 0);
        for (action, payload) in &update.ops {
            if let Payload::Origin(o) = payload { if o.is_v4() { v4_ops += 1 } else { v6_ops += 1 } }
            let e = payload_entry(payload);
            match action {
                Action::Announce => if !self.data.announce(e) { self.odd_announce += 1 },
                Action::Withdraw => if !self.data.withdraw(&e) { self.odd_withdraw += 1 },
            }
        }
        self.api_faults.extend(update.faults);
        self.reported_timing = Some((timing.refresh, timing.retry, timing.expire));
        self.applies += 1;
        self.applied.push(ApplySnap { data: self.data.clone(), timing: (timing.refresh, timing.retry, timing.expire), v4_ops, v6_ops });
        Ok(())
    }
}

// ======================================================================
// Sockets, observation log, version-limiting proxy
// ======================================================================

#[derive(Clone, Debug, PartialEq, Eq)]
struct Frame { off: u64, ver: u8, typ: u8, sess: u16, body: Vec<u8>, from_proxy: bool,
    /// server -> client only: the PDU has been written to the client's pipe in full
    delivered: bool }

#[derive(Default)]
struct Obs {
    s2c: Vec<Frame>,
    c2s: Vec<Frame>,
    s2c_bytes: u64,
    garbage: bool,
    server_updates: Vec<(u16, u32, bool)>,
    /// fault injection: close the connection after this many PDUs of the
    /// next response (counted from its Cache Response) have been forwarded
    cut_after: Option<usize>,
    cut_count: usize,
    cut_fired: bool,
    /// `L<S>` event: close the connection once this many End of Data PDUs
    /// have been delivered
    close_after_eods: Option<usize>,
    eods_delivered: usize,
}

/// One end of a two-way link made of two one-way in-memory pipes, so that
/// the two directions can have different capacities. A pipe of capacity k
/// delivers at most k octets per read: the narrow transports make every PDU
/// reach its reader in pieces.
struct Link { rd: DuplexStream, wr: DuplexStream }

/// `cap_ab` is the capacity of the pipe a -> b, `cap_ba` of b -> a.
fn link(cap_ab: usize, cap_ba: usize) -> (Link, Link) {
    let (a_wr, b_rd) = tokio::io::duplex(cap_ab);
    let (b_wr, a_rd) = tokio::io::duplex(cap_ba);
    (Link { rd: a_rd, wr: a_wr }, Link { rd: b_rd, wr: b_wr })
}

/// Server-side socket: the newtype that can implement the library's
/// `Socket` trait (orphan rule).
struct Sock { io: Link, obs: Arc<Mutex<Obs>> }

impl AsyncRead for Sock {
    fn poll_read(self: Pin<&mut Self>, cx: &mut Context<'_>, buf: &mut ReadBuf<'_>) -> Poll<std::io::Result<()>> {
        Pin::new(&mut self.get_mut().io.rd).poll_read(cx, buf)
    }
}
impl AsyncWrite for Sock {
    fn poll_write(self: Pin<&mut Self>, cx: &mut Context<'_>, buf: &[u8]) -> Poll<std::io::Result<usize>> {
        Pin::new(&mut self.get_mut().io.wr).poll_write(cx, buf)
    }
    fn poll_flush(self: Pin<&mut Self>, cx: &mut Context<'_>) -> Poll<std::io::Result<()>> {
        Pin::new(&mut self.get_mut().io.wr).poll_flush(cx)
    }
    fn poll_shutdown(self: Pin<&mut Self>, cx: &mut Context<'_>) -> Poll<std::io::Result<()>> {
        Pin::new(&mut self.get_mut().io.wr).poll_shutdown(cx)
    }
}
impl Socket for Sock {
    fn update(&self, state: State, reset: bool) {
        self.obs.lock().unwrap().server_updates.push((state.session(), state.serial().0, reset));
    }
}

/// Client-side socket: counts the octets the client has consumed so that the
/// unread rest of the pipe (pending Serial Notify PDUs) is observable.
struct CSock { io: Link, consumed: Arc<AtomicU64>,
    /// octets the client has written (has a query, or part of one, left the client?)
    sent: Arc<AtomicU64> }

impl AsyncRead for CSock {
    fn poll_read(self: Pin<&mut Self>, cx: &mut Context<'_>, buf: &mut ReadBuf<'_>) -> Poll<std::io::Result<()>> {
        let me = self.get_mut();
        let before = buf.filled().len();
        let r = Pin::new(&mut me.io.rd).poll_read(cx, buf);
        if let Poll::Ready(Ok(())) = r {
            me.consumed.fetch_add((buf.filled().len() - before) as u64, Ordering::Relaxed);
        }
        r
    }
}
impl AsyncWrite for CSock {
    fn poll_write(self: Pin<&mut Self>, cx: &mut Context<'_>, buf: &[u8]) -> Poll<std::io::Result<usize>> {
        let me = self.get_mut();
        let r = Pin::new(&mut me.io.wr).poll_write(cx, buf);
        if let Poll::Ready(Ok(n)) = r { me.sent.fetch_add(n as u64, Ordering::Relaxed); }
        r
    }
    fn poll_flush(self: Pin<&mut Self>, cx: &mut Context<'_>) -> Poll<std::io::Result<()>> {
        Pin::new(&mut self.get_mut().io.wr).poll_flush(cx)
    }
    fn poll_shutdown(self: Pin<&mut Self>, cx: &mut Context<'_>) -> Poll<std::io::Result<()>> {
        Pin::new(&mut self.get_mut().io.wr).poll_shutdown(cx)
    }
}

#[derive(Clone, Copy, Debug, PartialEq, Eq, Hash, PartialOrd, Ord)]
enum ProxyMode {
    /// A limited server that answers a too-high first query with Error
    /// Report code 4 carrying its own version and keeps the connection.
    ErrorReply,
    /// A limited server that simply answers in its own lower version
    /// (RFC 8210 section 7, second alternative).
    AnswerLower,
}

/// Independent PDU splitter: 8-octet header (version, type, session/flags,
/// length), length covers the whole PDU.
fn take_frame(buf: &mut Vec<u8>) -> Result<Option<Vec<u8>>, ()> {
    if buf.len() < 8 { return Ok(None) }
    let len = u32::from_be_bytes([buf[4], buf[5], buf[6], buf[7]]) as usize;
    if !(8..=1 << 16).contains(&len) { return Err(()) }
    if buf.len() < len { return Ok(None) }
    let rest = buf.split_off(len);
    let frame = std::mem::replace(buf, rest);
    Ok(Some(frame))
}

/// Hand-encoded Error Report (RFC 8210 section 5.11).
fn error_pdu(version: u8, code: u16, encapsulated: &[u8], text: &[u8]) -> Vec<u8> {
    let len = 8 + 4 + encapsulated.len() + 4 + text.len();
    let mut v = vec![version, 10];
    v.extend_from_slice(&code.to_be_bytes());
    v.extend_from_slice(&(len as u32).to_be_bytes());
    v.extend_from_slice(&(encapsulated.len() as u32).to_be_bytes());
    v.extend_from_slice(encapsulated);
    v.extend_from_slice(&(text.len() as u32).to_be_bytes());
    v.extend_from_slice(text);
    v
}

fn frame_of(raw: &[u8], off: u64, from_proxy: bool) -> Frame {
    Frame { off, ver: raw[0], typ: raw[1], sess: u16::from_be_bytes([raw[2], raw[3]]), body: raw[8..].to_vec(), from_proxy, delivered: false }
}

type ToClient = tokio::sync::mpsc::UnboundedSender<(usize, Vec<u8>)>;

/// Logs a PDU bound for the client and queues it for the writer task, in one
/// step, so that log order, stream offsets and delivery order agree.
fn emit(obs: &Arc<Mutex<Obs>>, tx: &ToClient, raw: Vec<u8>, from_proxy: bool) -> bool {
    let mut o = obs.lock().unwrap();
    let off = o.s2c_bytes;
    o.s2c.push(frame_of(&raw, off, from_proxy));
    o.s2c_bytes += raw.len() as u64;
    let idx = o.s2c.len() - 1;
    tx.send((idx, raw)).is_ok()
}

/// The version-limiting proxy is three tasks, so that back-pressure in one
/// narrow pipe never blocks anything else (as with a real full-duplex
/// transport with buffers on the way). This one is the client -> server half:
/// it frames and logs every PDU and plays a server whose highest version is
/// `limit`.
async fn proxy_c2s(mut c_rd: DuplexStream, mut s_wr: DuplexStream, to_client: ToClient,
                   limit: u8, mode: ProxyMode, obs: Arc<Mutex<Obs>>) {
    let mut cbuf: Vec<u8> = Vec::new();
    let mut b1 = [0u8; 2048];
    let mut negotiated = false;
    'outer: loop {
        let n = match c_rd.read(&mut b1).await { Ok(0) | Err(_) => break 'outer, Ok(n) => n };
        cbuf.extend_from_slice(&b1[..n]);
        loop {
            let mut frame = match take_frame(&mut cbuf) {
                Ok(Some(f)) => f,
                Ok(None) => break,
                Err(()) => { obs.lock().unwrap().garbage = true; break 'outer }
            };
            let is_query = frame[1] == 1 || frame[1] == 2;
            obs.lock().unwrap().c2s.push(frame_of(&frame, 0, false));
            if is_query && frame[0] > limit && mode == ProxyMode::AnswerLower {
                frame[0] = limit;
            }
            if is_query && !negotiated && frame[0] > limit {
                let e = error_pdu(limit, 4, &frame, b"unsupported protocol version");
                if !emit(&obs, &to_client, e, true) { break 'outer }
            } else {
                if is_query { negotiated = true }
                if s_wr.write_all(&frame).await.is_err() { break 'outer }
            }
        }
    }
}

/// Server -> proxy: drains the server at once (the server never waits for a
/// slow client), frames and logs every PDU the moment the server has sent it
/// — so "sent but not yet read by the client" is always exactly known — and
/// hands it to the writer.
async fn proxy_from_server(mut s_rd: DuplexStream, to_client: ToClient, obs: Arc<Mutex<Obs>>) {
    let mut sbuf: Vec<u8> = Vec::new();
    let mut b2 = [0u8; 2048];
    'outer: loop {
        let n = match s_rd.read(&mut b2).await { Ok(0) | Err(_) => break 'outer, Ok(n) => n };
        sbuf.extend_from_slice(&b2[..n]);
        loop {
            match take_frame(&mut sbuf) {
                Ok(Some(f)) => if !emit(&obs, &to_client, f, false) { break 'outer },
                Ok(None) => break,
                Err(()) => { obs.lock().unwrap().garbage = true; break 'outer }
            }
        }
    }
}

/// Proxy -> client: writes PDU by PDU into the (possibly narrow) pipe to the
/// client, marks each PDU delivered, and carries out the connection cut of
/// the `C<k>` events.
async fn proxy_to_client(mut c_wr: DuplexStream, mut rx: tokio::sync::mpsc::UnboundedReceiver<(usize, Vec<u8>)>,
                         obs: Arc<Mutex<Obs>>) {
    while let Some((idx, f)) = rx.recv().await {
        if c_wr.write_all(&f).await.is_err() { break }
        let fire = {
            let mut o = obs.lock().unwrap();
            o.s2c[idx].delivered = true;
            if f[1] == 7 { o.eods_delivered += 1 }
            if f[1] == 7 && f.len() == 24 && u32::from_be_bytes([f[12], f[13], f[14], f[15]]) > FAR_REFRESH { o.cut_fired = true; break }
            if o.close_after_eods.is_some_and(|n| f[1] == 7 && o.eods_delivered >= n) { o.cut_fired = true; break }
            match o.cut_after {
                Some(k) if (f[1] == 3 && !o.s2c[idx].from_proxy) || o.cut_count > 0 => { o.cut_count += 1; o.cut_count >= k }
                _ => false,
            }
        };
        if fire { obs.lock().unwrap().cut_fired = true; break }
    }
}

// ======================================================================
// Configurations, events, histories
// ======================================================================

#[derive(Clone, Copy, Debug, PartialEq, Eq, Hash, PartialOrd, Ord)]
enum Init { NoState, Current, OneBehind, TwoBehindDiffs, TwoBehindNoDiffs, UnknownSession, SerialAhead }

const INITS: [Init; 7] = [Init::NoState, Init::Current, Init::OneBehind, Init::TwoBehindDiffs,
    Init::TwoBehindNoDiffs, Init::UnknownSession, Init::SerialAhead];

impl Init {
    fn name(self) -> &'static str {
        match self {
            Init::NoState => "none", Init::Current => "current", Init::OneBehind => "one_behind",
            Init::TwoBehindDiffs => "two_behind_diffs", Init::TwoBehindNoDiffs => "two_behind_nodiffs",
            Init::UnknownSession => "unknown_session", Init::SerialAhead => "serial_ahead",
        }
    }
}

/// The source's own past at the root: serial 100 held set 6 (everything),
/// 101 held set 1, 102 (current) holds set 7.
const ROOT_SETS: [u8; 3] = [6, 1, 7];
const ROOT_SERIAL0: u32 = 100;

#[derive(Clone, Copy, Debug, PartialEq, Eq, Hash, PartialOrd, Ord)]
struct Cfg { civ: u8, limit: u8, mode: ProxyMode, style: Style, cap: u8, order: Order, link: Transport, route: Route, init: Init }

impl Cfg {
    /// `Client::new` proposes version 2, like `with_initial_version(2, ..)`:
    /// the civ = 2 roots are split between the two constructors (limit 0 and
    /// 2: `new`; limit 1: `with_initial_version`), reconnects included.
    fn uses_default_ctor(&self) -> bool { self.civ == 2 && self.limit != 1 }
    fn render(&self) -> String {
        format!("civ={} limit={} proxy={} style={} cap={} order={} link={} route={} init={}", self.civ, self.limit,
            match self.mode { ProxyMode::ErrorReply => "error", ProxyMode::AnswerLower => "lower" },
            match self.style { Style::Net => "net", Style::Chained => "chained" }, self.cap, self.order.name(), self.link.name(), self.route.name(), self.init.name())
    }
    fn parse(s: &str) -> Option<(Cfg, Vec<Ev>)> {
        let mut civ = None; let mut limit = None; let mut cap = Some(2u8); let mut order = Some(Order::Grouped); let mut link = Some(Transport::Roomy); let mut route = Some(Route::Step); let mut mode = None; let mut style = None; let mut init = None; let mut hist = None;
        for tok in s.split_whitespace() {
            let (k, v) = tok.split_once('=')?;
            match k {
                "civ" => civ = v.parse().ok(),
                "limit" => limit = v.parse().ok(),
                "cap" => cap = v.parse().ok(),
                "order" => order = ORDERS.iter().copied().find(|o| o.name() == v),
                "link" => link = TRANSPORTS.iter().copied().find(|o| o.name() == v),
                "route" => route = ROUTES.iter().copied().find(|o| o.name() == v),
                "proxy" => mode = match v { "error" => Some(ProxyMode::ErrorReply), "lower" => Some(ProxyMode::AnswerLower), _ => None },
                "style" => style = match v { "net" => Some(Style::Net), "chained" => Some(Style::Chained), _ => None },
                "init" => init = INITS.iter().copied().find(|i| i.name() == v),
                "hist" => {
                    let mut h = Vec::new();
                    for e in v.split('.').filter(|e| !e.is_empty() && *e != "-") { h.push(Ev::parse(e)?) }
                    hist = Some(h);
                }
                _ => return None,
            }
        }
        Some((Cfg { civ: civ?, limit: limit?, mode: mode?, style: style?, cap: cap?, order: order?, link: link?, route: route?, init: init? }, hist?))
    }
}

#[derive(Clone, Copy, Debug, PartialEq, Eq, Hash, PartialOrd, Ord)]
enum Ev {
    /// source moves to set S, serial + 1, the diff is retained
    Update(u8),
    /// source moves to set S, serial + 1, all diff history is dropped
    UpdateNoDiff(u8),
    /// source forgets its diff history (data and serial unchanged)
    DropDiffs,
    /// source restarts: new session id, serial 1000, no diffs, same data
    Restart,
    /// source serial jumps to 2^32-1 (no diffs); the next update wraps to 0
    Wrap,
    /// the real NotifySender fires; the server connection sends Serial Notify
    Notify,
    /// the client performs one `Client::step`
    Step,
    /// the client performs one `Client::step` during which the connection
    /// dies after k PDUs of the response (Cache Response included) reached
    /// the client; if the response is complete by then, it dies right after
    StepCut(u8),
    /// the client performs one `Client::step` during which the source moves
    /// to set S (serial + 1, diff retained) at the moment the server makes
    /// its k-th call on the source: `StepMid(k, S)`
    StepMid(u8, u8),
    /// the library's own loop: `Client::run` until the peer closes the
    /// connection, which it does after two completed updates; between the
    /// two the source moves to set S. Every completed update is judged.
    Run(u8),
    /// the client reports an error to the server: `Client::send_error(e)` and
    /// its sibling `Client::apply(update the target rejects with e)` for all
    /// four `PayloadError`s; the connection is dead afterwards
    ErrorReport,
}

impl Ev {
    fn render(self) -> String {
        match self {
            Ev::Update(s) => format!("U{s}"), Ev::UpdateNoDiff(s) => format!("X{s}"),
            Ev::DropDiffs => "D".into(), Ev::Restart => "R".into(), Ev::Wrap => "W".into(),
            Ev::Notify => "N".into(), Ev::Step => "S".into(), Ev::StepCut(k) => format!("C{k}"),
            Ev::StepMid(k, s) => format!("M{k}:{s}"),
            Ev::Run(s) => format!("L{s}"),
            Ev::ErrorReport => "E".into(),
        }
    }
    fn parse(s: &str) -> Option<Ev> {
        let set = |t: &str| t.parse::<u8>().ok().filter(|x| (*x as usize) < SETS.len());
        match s {
            "D" => Some(Ev::DropDiffs), "R" => Some(Ev::Restart), "W" => Some(Ev::Wrap),
            "N" => Some(Ev::Notify), "S" => Some(Ev::Step), "E" => Some(Ev::ErrorReport),
            _ if s.starts_with('L') => set(&s[1..]).map(Ev::Run),
            _ if s.starts_with('U') => set(&s[1..]).map(Ev::Update),
            _ if s.starts_with('X') => set(&s[1..]).map(Ev::UpdateNoDiff),
            _ if s.starts_with('M') => {
                let (k, t) = s[1..].split_once(':')?;
                let k = k.parse::<u8>().ok().filter(|k| (1..=9).contains(k))?;
                set(t).map(|t| Ev::StepMid(k, t))
            }
            _ if s.starts_with('C') => s[1..].parse::<u8>().ok().filter(|k| (1..=9).contains(k)).map(Ev::StepCut),
            _ => None,
        }
    }
}

fn render_hist(h: &[Ev]) -> String {
    if h.is_empty() { "-".into() } else { h.iter().map(|e| e.render()).collect::<Vec<_>>().join(".") }
}

fn witness(cfg: &Cfg, h: &[Ev]) -> String { format!("{} hist={}", cfg.render(), render_hist(h)) }

/// At most this many Serial Notify PDUs may sit unread in the pipe (a third
/// one cannot change what the next client step does: two already make it fail).
const MAX_PENDING_NOTIFY: usize = 2;

/// Where the connection may die inside a response (PDUs delivered).
const CUTS: [u8; 3] = [1, 2, 3];

/// The facts of a state that decide which events are enabled.
#[derive(Clone, Debug, PartialEq, Eq)]
struct Abs { cur: u8, chain_len: usize, epoch: u8, pending: usize, established: bool }

/// The calls a step can make on the source: ready, diff, [ready,] full,
/// timing — at most five on the unchanged tree (a position the exchange
/// does not reach leaves the event equal to a plain step).
const MID_CALLS: [u8; 5] = [1, 2, 3, 4, 5];

fn enabled(abs: &Abs, thorough: bool) -> Vec<Ev> {
    let with_nodiff_updates = thorough;
    let mut v = Vec::new();
    for s in 0..SETS.len() as u8 { if s != abs.cur { v.push(Ev::Update(s)) } }
    if with_nodiff_updates { for s in 0..SETS.len() as u8 { if s != abs.cur { v.push(Ev::UpdateNoDiff(s)) } } }
    if abs.chain_len > 0 { v.push(Ev::DropDiffs) }
    v.push(Ev::Restart);
    if abs.epoch == 0 { v.push(Ev::Wrap) }
    if abs.pending < MAX_PENDING_NOTIFY { v.push(Ev::Notify) }
    v.push(Ev::Step);
    // (quick leaves out the third cut position to pay for the iteration-order roots)
    for k in CUTS { if thorough || k <= 2 { v.push(Ev::StepCut(k)) } }
    // mid-step updates: target sets are everything / nothing (quick: two of
    // them) plus the ASPA-replacement and router-key singletons (thorough:
    // three of them); all 7 x 5 positions would triple the transition count
    // for no new kind of exchange
    let targets: Vec<u8> = if thorough { [6u8, 0, 5, 3].into_iter().filter(|s| *s != abs.cur).take(3).collect() }
        else { [6u8, 0, 1].into_iter().filter(|s| *s != abs.cur).take(2).collect() };
    for k in MID_CALLS { for &t in &targets { v.push(Ev::StepMid(k, t)) } }
    for &t in targets.iter().take(if thorough { 2 } else { 1 }) { v.push(Ev::Run(t)) }
    // on a fresh connection the first part of `E` would repeat the second
    if abs.established { v.push(Ev::ErrorReport) }
    v
}

// ======================================================================
// Canonical state key
// ======================================================================

#[derive(Clone, Debug, PartialEq, Eq, Hash)]
enum Pos {
    /// client has no state: next query is a reset query
    NoState,
    /// client's state is one the source can still serve a diff from; the
    /// sets from the client's position up to (excluding) the current one
    InChain(Vec<u8>),
    /// same session, but no diff can be served (too old, dropped, or ahead)
    SameSessionNoDiff,
    /// another session id
    OtherSession,
}

#[derive(Clone, Debug, PartialEq, Eq, Hash)]
enum ConnK {
    /// no query has been sent on this connection
    Fresh,
    /// at least one exchange completed: the versions both directions use and
    /// the timing the client believes
    Established { query_version: u8, answer_version: u8, timing: Option<(u32, u32, u32)> },
}

/// Canonical key of a state.
///
/// Two histories with equal keys have the same futures, because everything
/// that can influence a later exchange is in the key:
///
/// * `cfg` — initial client version, proxy limit and mode, diff style,
///   retained-chain cap, iteration order of the source, transport and
///   public route of the client steps (fixed
///   per run; the initial client state is NOT part of it: it only selects the
///   root, what it leaves behind is captured by `pos` and `data`).
/// * source side: the real server connection keeps nothing between queries
///   except `version` (in `conn`); everything else it asks the source, whose
///   answers depend on `cur` (full set, timing), on whether and along which
///   sets a diff from the client's state exists (`pos`: the retained chain
///   matters only from the client's position onwards — older or unrelated
///   retained entries can never be asked for again, since the client's state
///   only ever moves to the source's current state; for the same reason the
///   retained depth itself is irrelevant: a client k behind falls out of
///   range after cap-k further updates (cap = `Cfg::cap`) whatever the depth), and on
///   `epoch` (where the serial stands relative to the 2^32 wrap; this is
///   the "serial class": the absolute session id and serial are otherwise
///   opaque tokens to client, server and source — they are compared for
///   equality and copied to the wire, never computed with).
/// * client side: `Client` carries exactly state (`pos`), negotiated
///   version and timing (`conn`), and `next_update` (set iff the connection
///   is `Established`; its distance from "now" is irrelevant because no
///   other timer exists in the closed system); the target carries `data`.
/// * in flight: after every event the system is run to quiescence, so the
///   only octets left in the pipes are Serial Notify PDUs the client has not
///   read yet; the client ignores their content, so only their number and
///   version octets (`pending`) matter.
///
/// A connection that saw a failed step is replaced by a fresh one before the
/// key is taken, so no half-read stream can hide behind a key.
#[derive(Clone, Debug, PartialEq, Eq, Hash)]
struct Key {
    cfg: (u8, u8, ProxyMode, Style, u8, Order, Transport, Route),
    cur: u8,
    epoch: u8,
    pos: Pos,
    data: Data,
    conn: ConnK,
    pending: Vec<u8>,
}

/// A key together with its precomputed hash (computed on the worker
/// threads); equality is still decided on the full key.
#[derive(Clone, Debug, PartialEq, Eq)]
struct HKey { h: u64, key: Key }
impl Hash for HKey { fn hash<H: Hasher>(&self, state: &mut H) { state.write_u64(self.h) } }

#[derive(Default, Clone)]
struct PassHasher(u64);
impl Hasher for PassHasher {
    fn finish(&self) -> u64 { self.0 }
    fn write(&mut self, bytes: &[u8]) { for b in bytes { self.0 = (self.0 << 8) | *b as u64 } }
    fn write_u64(&mut self, v: u64) { self.0 = v }
}
type Seen = HashSet<HKey, std::hash::BuildHasherDefault<PassHasher>>;

fn hash_key(k: &Key) -> u64 {
    // FNV over the Debug rendering: stable across runs and platforms.
    let s = format!("{k:?}");
    let mut h = 0xcbf29ce484222325u64;
    for b in s.bytes() { h ^= b as u64; h = h.wrapping_mul(0x100000001b3); }
    h
}

// ======================================================================
// One execution: fresh objects, replay history
// ======================================================================

#[derive(Clone, Debug, PartialEq, Eq)]
enum StepResult { Ok, Err(String), Hang }

#[derive(Clone, Debug, PartialEq, Eq)]
struct StepObs {
    result: StepResult,
    /// transcript of the exchange: queries seen and answers sent
    transcript: String,
    class: String,
    eod: Option<(u8, u16, u32, Option<(u32, u32, u32)>)>,
    state_after: Option<(u16, u32)>,
    data_after: Data,
    reported_timing: Option<(u32, u32, u32)>,
    sim_ms: u64,
    changed: bool,
    verdicts: Vec<(&'static str, String)>,
    negotiated: Option<u8>,
    downgraded: bool,
}

#[derive(Clone, Debug, PartialEq, Eq)]
struct Exec {
    key: Key,
    key_hash: u64,
    /// outcome class and transcript line of the last event if it was a step
    label: Option<(String, String)>,
    key_before_last: Option<u64>,
    abs: Abs,
    steps: Vec<StepObs>,
    last_is_step: bool,
    panics: Vec<String>,
    machinery: Vec<String>,
    odd_ops: (u64, u64),
    /// accessor-sweep disagreements collected anywhere in this history
    api_faults: Vec<String>,
}

/// A step may wait for the refresh interval (at most the client's default
/// 3600 s here, see `FAR_REFRESH`); the paused clock jumps there. Beyond the
/// horizon it is a hang.
const HORIZON: Duration = Duration::from_secs(2 * 3600 + 100);

/// The client waits `refresh` seconds on a tokio timer. tokio's timer wheel
/// spans about 2.2 years (2^36 ms); with a refresh of 2^32-1 s the runs
/// ended in heap corruption (valgrind: invalid read in
/// `tokio::runtime::time::wheel::Wheel::poll` at runtime shutdown, of a timer
/// entry inside the already freed client future) — tokio is in the trusted
/// base, not the subject. So the peer hangs up right after an End of Data
/// whose refresh exceeds this bound: the exchange completes and is judged in
/// full, the far timer is never created, the harness reconnects as after
/// any closed connection.
const FAR_REFRESH: u32 = 50_000_000;

async fn settle() {
    // With the clock paused, time only advances when every task is idle, so
    // a sleep returns exactly when the rest of the system is quiescent.
    tokio::time::sleep(Duration::from_millis(1)).await;
}

struct Conn {
    client: Client<CSock, Target>,
    obs: Arc<Mutex<Obs>>,
    consumed: Arc<AtomicU64>,
    sent: Arc<AtomicU64>,
    ok_steps: u64,
}

async fn connect(cfg: &Cfg, src: &Source, notify: &NotifySender, target: Target, state: Option<State>) -> Conn {
    connect_via(None, cfg, src, notify, target, state).await
}

/// One long-lived `Server` whose listener yields a new socket whenever the
/// harness connects a client: several clients then really are connections of
/// ONE server (the sequence spaces use it; the history space starts a server
/// per connection, which shares the same `NotifySender` and source).
struct Hub { tx: tokio::sync::mpsc::UnboundedSender<Sock> }

fn hub(src: &Source, notify: &NotifySender) -> Hub {
    let (tx, rx) = tokio::sync::mpsc::unbounded_channel::<Sock>();
    let listener = Box::pin(futures_util::stream::unfold(rx, |mut rx| async move {
        rx.recv().await.map(|s| (Ok::<Sock, std::io::Error>(s), rx))
    }));
    tokio::spawn(Server::new(listener, notify.clone(), src.clone()).run());
    Hub { tx }
}

async fn connect_via(hub: Option<&Hub>, cfg: &Cfg, src: &Source, notify: &NotifySender, target: Target, state: Option<State>) -> Conn {
    let obs = Arc::new(Mutex::new(Obs::default()));
    let consumed = Arc::new(AtomicU64::new(0));
    let (c2s, s2c) = cfg.link.caps();
    // The narrow server->client pipe is the last hop only: the proxy takes
    // everything the server sends at once (see `proxy_from_server`).
    let (c_end, pc_end) = link(c2s, s2c);       // client <-> proxy
    let (ps_end, s_end) = link(c2s, 1 << 16);   // proxy <-> server
    let (tx, rx) = tokio::sync::mpsc::unbounded_channel();
    tokio::spawn(proxy_c2s(pc_end.rd, ps_end.wr, tx.clone(), cfg.limit, cfg.mode, obs.clone()));
    tokio::spawn(proxy_from_server(ps_end.rd, tx, obs.clone()));
    tokio::spawn(proxy_to_client(pc_end.wr, rx, obs.clone()));
    let server_sock = Sock { io: s_end, obs: obs.clone() };
    match hub {
        Some(h) => { let _ = h.tx.send(server_sock); }
        None => {
            let listener = futures_util::stream::iter(vec![Ok::<Sock, std::io::Error>(server_sock)]);
            tokio::spawn(Server::new(listener, notify.clone(), src.clone()).run());
        }
    }
    let sent = Arc::new(AtomicU64::new(0));
    let sock = CSock { io: c_end, consumed: consumed.clone(), sent: sent.clone() };
    let client = if cfg.uses_default_ctor() { Client::new(sock, target, state) }
        else { Client::with_initial_version(cfg.civ, sock, target, state) };
    settle().await;
    Conn { client, obs, consumed, sent, ok_steps: 0 }
}

fn initial_source(cfg: &Cfg) -> SrcInner {
    let mut s = SrcInner {
        session: SESSION0, serial: ROOT_SERIAL0 + 2, cur: ROOT_SETS[2],
        chain: if cfg.init == Init::TwoBehindNoDiffs { vec![ROOT_SETS[1]] } else { vec![ROOT_SETS[0], ROOT_SETS[1]] },
        chain_serial: if cfg.init == Init::TwoBehindNoDiffs { vec![ROOT_SERIAL0 + 1] } else { vec![ROOT_SERIAL0, ROOT_SERIAL0 + 1] },
        record: BTreeMap::new(), epoch: 0, style: cfg.style, order: cfg.order, cap: cfg.cap as usize, collision: false,
        armed: None, calls: 0, fired: None, timing_asked_in: None,
        timing_calls: Vec::new(), armed_after_timing: None, api_faults: Vec::new(), retimed: 0, hide_diffs: false,
    };
    for (k, set) in ROOT_SETS.iter().enumerate() { s.record.insert((SESSION0, ROOT_SERIAL0 + k as u32), *set); }
    s
}

fn initial_client(cfg: &Cfg) -> (Target, Option<State>) {
    // What an earlier connection with the same two parties would have left:
    // data restricted to the version they negotiate.
    let v = cfg.civ.min(cfg.limit);
    let st = |serial: u32| Some(State::from_parts(SESSION0, Serial(serial)));
    let (set, state) = match cfg.init {
        Init::NoState => (0u8, None),
        Init::Current => (ROOT_SETS[2], st(ROOT_SERIAL0 + 2)),
        Init::OneBehind => (ROOT_SETS[1], st(ROOT_SERIAL0 + 1)),
        Init::TwoBehindDiffs | Init::TwoBehindNoDiffs => (ROOT_SETS[0], st(ROOT_SERIAL0)),
        Init::UnknownSession => (ROOT_SETS[0], Some(State::from_parts(0xBEEF, Serial(ROOT_SERIAL0 + 2)))),
        Init::SerialAhead => (ROOT_SETS[0], st(ROOT_SERIAL0 + 5)),
    };
    (Target { data: expected_data(set, v), ..Default::default() }, state)
}

fn type_name(t: u8) -> &'static str {
    match t { 0 => "Notify", 1 => "SerialQ", 2 => "ResetQ", 3 => "CacheResp", 4 => "V4", 6 => "V6", 7 => "EoD",
              8 => "CacheReset", 9 => "Key", 10 => "Error", 11 => "Aspa", _ => "?" }
}

fn parse_eod(f: &Frame) -> Option<(u8, u16, u32, Option<(u32, u32, u32)>)> {
    let be = |b: &[u8]| u32::from_be_bytes([b[0], b[1], b[2], b[3]]);
    match (f.ver, f.body.len()) {
        (0, 4) => Some((0, f.sess, be(&f.body[0..4]), None)),
        (v, 16) if v >= 1 => Some((v, f.sess, be(&f.body[0..4]), Some((be(&f.body[4..8]), be(&f.body[8..12]), be(&f.body[12..16]))))),
        _ => None,
    }
}

fn compute_key(cfg: &Cfg, src: &Source, conn: &Conn) -> (Key, Abs, Vec<String>) {
    let mut mach = Vec::new();
    let s = src.0.lock().unwrap();
    if s.collision { mach.push("source recorded two different sets for one (session, serial)".to_string()) }
    let pos = match conn.client.state() {
        None => Pos::NoState,
        Some(st) if st.session() != s.session => Pos::OtherSession,
        Some(st) => match s.path_from(st.serial().0) { Some(p) => Pos::InChain(p), None => Pos::SameSessionNoDiff },
    };
    let o = conn.obs.lock().unwrap();
    if o.garbage { mach.push("proxy saw an unframeable octet stream".to_string()) }
    let consumed = conn.consumed.load(Ordering::Relaxed);
    let mut pending = Vec::new();
    for f in o.s2c.iter() {
        let end = f.off + 8 + f.body.len() as u64;
        if end <= consumed { continue }
        if f.off < consumed { mach.push(format!("client stopped inside a PDU at quiescence (type {})", f.typ)) }
        if f.typ != 0 { mach.push(format!("unread non-notify PDU type {} left in the pipe at quiescence", f.typ)) }
        pending.push(f.ver);
    }
    let connk = if conn.ok_steps == 0 {
        if !o.c2s.is_empty() { mach.push("fresh connection has already carried a query".to_string()) }
        ConnK::Fresh
    } else {
        let q = o.c2s.iter().rev().find(|f| f.typ == 1 || f.typ == 2).map(|f| f.ver).unwrap_or(255);
        let a = o.s2c.iter().rev().find(|f| f.typ == 7).map(|f| f.ver).unwrap_or(255);
        ConnK::Established { query_version: q, answer_version: a, timing: conn.client.target().reported_timing }
    };
    let key = Key {
        cfg: (cfg.civ, cfg.limit, cfg.mode, cfg.style, cfg.cap, cfg.order, cfg.link, cfg.route), cur: s.cur, epoch: s.epoch, pos,
        data: conn.client.target().data.clone(), conn: connk, pending: pending.clone(),
    };
    let abs = Abs { cur: s.cur, chain_len: s.chain.len(), epoch: s.epoch, pending: pending.len(), established: conn.ok_steps > 0 };
    (key, abs, mach)
}

async fn exec_async(cfg: Cfg, hist: Vec<Ev>) -> Exec {
    let src = Source(Arc::new(Mutex::new(initial_source(&cfg))));
    let mut notify = NotifySender::new();
    let (target, state) = initial_client(&cfg);
    let mut conn = connect(&cfg, &src, &notify, target, state).await;
    let mut steps = Vec::new();
    let mut machinery = Vec::new();
    let mut key_before_last = None;
    for (idx, ev) in hist.iter().enumerate() {
        if idx + 1 == hist.len() {
            let (k, _, m) = compute_key(&cfg, &src, &conn);
            machinery.extend(m);
            key_before_last = Some(hash_key(&k));
        }
        match *ev {
            Ev::Update(s) => src.0.lock().unwrap().update(s, true),
            Ev::UpdateNoDiff(s) => src.0.lock().unwrap().update(s, false),
            Ev::DropDiffs => src.0.lock().unwrap().drop_diffs(),
            Ev::Restart => src.0.lock().unwrap().restart(),
            Ev::Wrap => src.0.lock().unwrap().wrap(),
            Ev::Notify => { notify.notify(); settle().await; }
            Ev::ErrorReport => {
                // `send_error(e)` and `apply(an update the target rejects with e)`
                // are siblings: both must put the same Error Report on the wire
                // and leave the data alone and the state alone or forgotten. The server hangs up on an
                // Error Report, so each gets its own connection.
                const KINDS: [PayloadError; 4] = [PayloadError::Corrupt, PayloadError::Internal,
                    PayloadError::UnknownWithdraw, PayloadError::DuplicateAnnounce];
                let kind = KINDS[src.0.lock().unwrap().cur as usize % 4];
                let state_before = conn.client.state().map(|s| (s.session(), s.serial().0));
                let data_before = conn.client.target().data.clone();
                let mut wire: Vec<Option<Frame>> = Vec::new();
                let mut returns: Vec<String> = Vec::new();
                // variant 0: send_error on the connection as it is (possibly
                // with a negotiated version); variants 1 and 2: send_error and
                // apply(rejected update), each on a fresh connection
                // (the negotiated version is the one of the answers the client accepted:
                // with the answer-lower proxy it is below the version of the first query)
                let negotiated_version = conn.obs.lock().unwrap().s2c.iter().rev().find(|f| f.typ == 7 && f.delivered).map(|f| f.ver);
                for variant in 0..3 {
                    if variant > 0 {
                        let st = conn.client.state();
                        let Conn { client, .. } = conn;
                        let target = client.into_target();
                        settle().await;
                        conn = connect(&cfg, &src, &notify, target, st).await;
                    }
                    let m_c2s = conn.obs.lock().unwrap().c2s.len();
                    let r = if variant < 2 {
                        tokio::time::timeout(HORIZON, conn.client.send_error(kind)).await
                    } else {
                        let mut upd = conn.client.target_mut().start(false);
                        upd.fail = Some(kind);
                        tokio::time::timeout(HORIZON, conn.client.apply(upd)).await
                    };
                    returns.push(match r { Ok(Ok(())) => "Ok".into(), Ok(Err(e)) => format!("Err({:?})", e.kind()), Err(_) => "hang".into() });
                    settle().await;
                    wire.push(conn.obs.lock().unwrap().c2s.get(m_c2s).cloned());
                }
                {
                    let st = conn.client.state();
                    let Conn { client, .. } = conn;
                    let target = client.into_target();
                    settle().await;
                    conn = connect(&cfg, &src, &notify, target, st).await;
                }
                let state_after = conn.client.state().map(|s| (s.session(), s.serial().0));
                let data_after = conn.client.target().data.clone();
                let mut verdicts: Vec<(&'static str, String)> = Vec::new();
                let brief = |f: &Option<Frame>| f.as_ref().map(|f| (f.ver, f.typ, f.sess, f.body.clone()));
                if wire[1].is_none() || wire[1] != wire[2] || wire[1].as_ref().is_some_and(|f| f.typ != 10) {
                    verdicts.push(("C06.api.send_error", format!("on a fresh connection send_error({kind:?}) put {:?} on the wire, apply() of an update rejected with the same error put {:?}",
                        brief(&wire[1]), brief(&wire[2]))));
                }
                // on the used connection: the same PDU but for the version octet,
                // which is the one of the End of Data the client last accepted there
                let same_but_version = match (&wire[0], &wire[1]) { (Some(a), Some(b)) => (a.typ, a.sess, &a.body) == (b.typ, b.sess, &b.body), _ => false };
                if !same_but_version || negotiated_version.is_some_and(|v| wire[0].as_ref().map(|f| f.ver) != Some(v)) {
                    verdicts.push(("C06.api.send_error", format!("send_error({kind:?}) on a connection that negotiated version {negotiated_version:?} put {:?} on the wire, on a fresh connection {:?}",
                        brief(&wire[0]), brief(&wire[1]))));
                }
                // (forgetting the state is always safe: it only makes the next query a
                // reset query; a client whose target rejected an update may do so)
                if (state_after != state_before && state_after.is_some()) || data_after != data_before {
                    verdicts.push(("C06.api.send_error", format!("reporting {kind:?} changed the client: state {state_before:?} -> {state_after:?}, data {} -> {}", data_before.render(), data_after.render())));
                }
                steps.push(StepObs { result: StepResult::Err(format!("client reported {kind:?} (send_error -> {}, apply -> {})", returns[1], returns[2])),
                    transcript: format!(">Errorv{}(code {})", wire[0].as_ref().map(|f| f.ver).unwrap_or(255), wire[0].as_ref().map(|f| f.sess).unwrap_or(999)),
                    class: "error-report".into(), eod: None, state_after, data_after, reported_timing: conn.client.target().reported_timing,
                    sim_ms: 0, changed: false, verdicts, negotiated: None, downgraded: false });
            }
            Ev::Step | Ev::StepCut(_) | Ev::StepMid(..) | Ev::Run(_) => {
                let is_run = matches!(*ev, Ev::Run(_));
                {
                    let mut s = src.0.lock().unwrap();
                    s.begin_step(if let Ev::StepMid(k, t) = *ev { Some((k, t)) } else { None });
                    if let Ev::Run(t) = *ev { s.armed_after_timing = Some(t) }
                }
                conn.client.target_mut().applied.clear();
                let (m_s2c, m_c2s) = {
                    let mut o = conn.obs.lock().unwrap();
                    if let Ev::StepCut(k) = *ev { o.cut_after = Some(k as usize); o.cut_count = 0; }
                    if is_run { o.close_after_eods = Some(2); o.eods_delivered = 0; }
                    (o.s2c.len(), o.c2s.len())
                };
                let consumed_before = conn.consumed.load(Ordering::Relaxed);
                let state_before = conn.client.state().map(|s| (s.session(), s.serial().0));
                let data_before = conn.client.target().data.clone();
                let t0 = tokio::time::Instant::now();
                // `run()` is the library's own loop of steps; it returns Ok(())
                // when the peer has closed the connection
                let res = if is_run { tokio::time::timeout(3 * HORIZON, conn.client.run()).await }
                    else {
                        let route = cfg.route;
                        let client = &mut conn.client;
                        tokio::time::timeout(HORIZON, async move {
                            match route {
                                Route::Step => client.step().await,
                                Route::UpdateApply => { let u = client.update().await?; client.apply(u).await }
                                Route::ResetApply => { let u = client.reset().await?; client.apply(u).await }
                            }
                        }).await
                    };
                let sim_ms = t0.elapsed().as_millis() as u64;
                settle().await;
                let result = match res {
                    Ok(Ok(())) => StepResult::Ok,
                    Ok(Err(e)) => StepResult::Err(format!("{:?}: {}", e.kind(), e)),
                    Err(_) => StepResult::Hang,
                };
                let (mid_fired, timing_asked_in, timing_calls) = {
                    let mut s = src.0.lock().unwrap();
                    s.end_step();
                    (s.fired, s.timing_asked_in, s.timing_calls.clone())
                };
                let applied: Vec<ApplySnap> = conn.client.target().applied.clone();
                let state_after = conn.client.state().map(|s| (s.session(), s.serial().0));
                let data_after = conn.client.target().data.clone();
                let reported_timing = conn.client.target().reported_timing;
                // what went over the wire during this step
                let (transcript, class, eod, downgraded) = {
                    let o = conn.obs.lock().unwrap();
                    let mut t: Vec<String> = Vec::new();
                    // notifies that were already waiting and were consumed now
                    for f in o.s2c[..m_s2c].iter().filter(|f| f.off >= consumed_before) {
                        t.push(format!("<pending {}v{}", type_name(f.typ), f.ver));
                    }
                    for f in &o.c2s[m_c2s..] { t.push(format!(">{}v{}", type_name(f.typ), f.ver)); }
                    for f in &o.s2c[m_s2c..] {
                        t.push(format!("<{}{}{}v{}{}", if f.delivered { "" } else { "(undelivered)" }, if f.from_proxy { "proxy:" } else { "" }, type_name(f.typ), f.ver,
                            if f.typ == 10 { format!("(code {})", f.sess) }
                            else if matches!(f.typ, 4 | 6) { format!("({})", if f.body[0] & 1 == 1 { "A" } else { "W" }) }
                            else if matches!(f.typ, 9 | 11) { format!("({})", if (f.sess >> 8) & 1 == 1 { "A" } else { "W" }) }
                            else { String::new() }));
                    }
                    let q: Vec<u8> = o.c2s[m_c2s..].iter().map(|f| f.typ).collect();
                    let a: Vec<u8> = o.s2c[m_s2c..].iter().map(|f| f.typ).collect();
                    let downgraded = o.s2c[m_s2c..].iter().any(|f| f.typ == 10 && f.sess == 4)
                        || o.c2s[m_c2s..].iter().zip(o.s2c[m_s2c..].iter().filter(|f| f.typ == 3)).any(|(qf, af)| af.ver < qf.ver);
                    let payloads = a.iter().filter(|t| matches!(t, 4 | 6 | 9 | 11)).count();
                    let class = if is_run { "run" } else if a.contains(&8) { "serial-query->cache-reset->reset-query" }
                        else if q.contains(&1) && payloads == 0 { "serial-query:empty-diff" }
                        else if q.contains(&1) { "serial-query:diff" }
                        else if q.contains(&2) { "reset-query" }
                        else { "no-query" };
                    let eod = o.s2c[m_s2c..].iter().find(|f| f.typ == 7 && f.delivered).and_then(parse_eod);
                    (t.join(" "), class.to_string(), eod, downgraded)
                };
                let transcript = match mid_fired { Some((k, call)) => format!("{transcript} [source moved at call {k}: {call}()]"), None => transcript };
                let mut verdicts: Vec<(&'static str, String)> = Vec::new();
                let mut negotiated = None;
                // Every completed update, one by one: the i-th apply belongs to
                // the i-th End of Data delivered. (For a plain step this
                // repeats the judgement below on the only update; for
                // `Client::run` it is the judgement.) Also here: the origins
                // the target was handed as v4 / v6 (`RouteOrigin::is_v4`)
                // against the IPv4 / IPv6 Prefix PDUs of that exchange.
                {
                    let s = src.0.lock().unwrap();
                    let o = conn.obs.lock().unwrap();
                    let mut exchanges: Vec<(Frame, usize, usize)> = Vec::new();    // (End of Data, v4 PDUs, v6 PDUs)
                    let (mut n4, mut n6) = (0, 0);
                    for f in o.s2c[m_s2c..].iter().filter(|f| f.delivered) {
                        match f.typ { 4 => n4 += 1, 6 => n6 += 1, 3 => { n4 = 0; n6 = 0 } 7 => exchanges.push((f.clone(), n4, n6)), _ => {} }
                    }
                    if applied.len() > exchanges.len() {
                        verdicts.push(("C06.state.eod", format!("{} updates were applied but only {} End of Data PDUs were delivered (exchange: {transcript})", applied.len(), exchanges.len())));
                    }
                    for (i, (snap, (eod_f, n4, n6))) in applied.iter().zip(exchanges.iter()).enumerate() {
                        if (snap.v4_ops, snap.v6_ops) != (*n4, *n6) {
                            verdicts.push(("C06.api.accessors", format!("update #{i}: RouteOrigin::is_v4() sorted the origins into {} v4 / {} v6, the wire carried {n4} IPv4 and {n6} IPv6 Prefix PDUs", snap.v4_ops, snap.v6_ops)));
                        }
                        if !is_run { continue }
                        let Some(e) = parse_eod(eod_f) else { continue };
                        negotiated = Some(e.0);
                        match s.record.get(&(e.1, e.2)).copied() {
                            None => verdicts.push(("C06.data.equals_source", format!("run, update #{i}: End of Data names {:?}, a state the source never reported", (e.1, e.2)))),
                            Some(set) => {
                                let want = expected_data(set, e.0);
                                if snap.data != want {
                                    verdicts.push(("C06.data.equals_source", format!(
                                        "run, update #{i}: state {:?} (source set #{set}) at version {}: target holds {} but the source reported {} (exchange: {transcript})",
                                        (e.1, e.2), e.0, snap.data.render(), want.render())));
                                }
                                let judged = timing_calls.get(i) == Some(&(e.1, e.2));
                                if e.0 >= 1 && judged && snap.timing != s.timing_for(set) {
                                    verdicts.push(("C06.timing.equals_source", format!(
                                        "run, update #{i}: version {}: client reports timing {:?}, source's is {:?} (exchange: {transcript})", e.0, snap.timing, s.timing_for(set))));
                                }
                            }
                        }
                    }
                    if is_run && result == StepResult::Ok {
                        let last = applied.len().checked_sub(1).and_then(|i| exchanges.get(i)).and_then(|x| parse_eod(&x.0)).map(|e| (e.1, e.2));
                        if !applied.is_empty() && state_after != last {
                            verdicts.push(("C06.state.eod", format!("run: client.state() = {state_after:?} but the End of Data of the last completed update named {last:?}")));
                        }
                    }
                }
                if result == StepResult::Ok && !is_run {
                    // ---------------- the oracles ----------------
                    let s = src.0.lock().unwrap();
                    match (state_after, eod) {
                        (Some(a), Some(e)) if a == (e.1, e.2) => {}
                        (a, e) => verdicts.push(("C06.state.eod", format!(
                            "client.state() = {a:?} but the End of Data of this exchange named {:?}", e.map(|e| (e.1, e.2))))),
                    }
                    let o = conn.obs.lock().unwrap();
                    let version = eod.map(|e| e.0)
                        .or_else(|| o.s2c[m_s2c..].iter().rev().find(|f| !f.from_proxy).map(|f| f.ver))
                        .unwrap_or(cfg.civ.min(cfg.limit));
                    negotiated = Some(version);
                    match state_after.and_then(|st| s.record.get(&st).copied()) {
                        None => verdicts.push(("C06.data.equals_source", format!(
                            "client.state() = {state_after:?} names a state the source never reported"))),
                        Some(set) => {
                            let want = expected_data(set, version);
                            if data_after != want {
                                verdicts.push(("C06.data.equals_source", format!(
                                    "state {:?} (source set #{set}) at version {version}: target holds {} but the source reported {} (previous data {}, exchange: {})",
                                    state_after.unwrap(), data_after.render(), want.render(), data_before.render(), transcript)));
                            }
                            // The library asks the source for its timing in a
                            // separate call after the data. If a mid-step
                            // update landed in between, "the source's timing"
                            // for the state named in End of Data was never
                            // asked for: judged only if timing() was asked
                            // while the source was in that very state.
                            let timing_judged = timing_asked_in.is_none() || timing_asked_in == state_after;
                            if version >= 1 && timing_judged && reported_timing != Some(s.timing_for(set)) {
                                verdicts.push(("C06.timing.equals_source", format!(
                                    "version {version}: client reports timing {reported_timing:?}, source's is {:?} (exchange: {transcript})", s.timing_for(set))));
                            }
                        }
                    }
                }
                let changed = state_after != state_before || data_after != data_before;
                let cut_fired = { let mut o = conn.obs.lock().unwrap(); o.cut_after = None; o.close_after_eods = None; o.cut_fired };
                let class = if is_run { format!("run:{}-updates-completed", applied.len()) } else { class };
                let ok = result == StepResult::Ok && !cut_fired && !is_run;
                let class = if cut_fired && !is_run { format!("{class}+connection-cut") } else { class };
                let class = match mid_fired { Some((_, call)) => format!("{class}+source-moved-at-{call}()"), None => class };
                steps.push(StepObs { result, transcript, class, eod, state_after, data_after, reported_timing, sim_ms,
                    changed, verdicts, negotiated, downgraded });
                if ok {
                    conn.ok_steps += 1;
                } else {
                    // the connection is dead (failed step, or the peer closed
                    // it): reconnect with the client's state and target, as
                    // Client::new's documentation says
                    let st = conn.client.state();
                    let Conn { client, .. } = conn;
                    let target = client.into_target();
                    settle().await;
                    conn = connect(&cfg, &src, &notify, target, st).await;
                }
            }
        }
    }
    let (key, abs, m) = compute_key(&cfg, &src, &conn);
    machinery.extend(m);
    let odd_ops = (conn.client.target().odd_withdraw, conn.client.target().odd_announce);
    let last_is_step = matches!(hist.last(), Some(Ev::Step | Ev::StepCut(_) | Ev::StepMid(..) | Ev::Run(_) | Ev::ErrorReport));
    let label = steps.last().filter(|_| last_is_step).map(|s| {
        let (class, res) = match &s.result {
            StepResult::Ok => (format!("step:ok:{}{}", if s.downgraded { "downgrade+" } else { "" }, s.class), "ok".to_string()),
            StepResult::Err(m) => (format!("step:err:{}", rpki_verif::trunc(m, 60)), format!("err({m})")),
            StepResult::Hang => ("step:hang(horizon exceeded)".to_string(), "hang".to_string()),
        };
        (class, format!("{res}: {}", s.transcript))
    });
    let key_hash = hash_key(&key);
    let mut api_faults = std::mem::take(&mut src.0.lock().unwrap().api_faults);
    api_faults.extend(std::mem::take(&mut conn.client.target_mut().api_faults));
    api_faults.sort(); api_faults.dedup();
    Exec { key, key_hash, label, key_before_last, abs, steps, last_is_step, panics: Vec::new(), machinery, odd_ops, api_faults }
}

/// An OS thread of its own for one execution: whatever the library might
/// keep per thread (scratch buffers, memos) starts empty, so the execution
/// depends on its own history only — not on what the worker thread ran
/// before. Far too slow for every execution (thread creation dominates); it
/// is the referee wherever two executions of one history disagree and for
/// every violation before it is reported (`C06.history.independent`).
fn on_fresh_thread<T: Send>(f: impl FnOnce() -> T + Send) -> T {
    std::thread::scope(|s| {
        match std::thread::Builder::new().stack_size(1 << 20).spawn_scoped(s, f) {
            Ok(h) => match h.join() { Ok(v) => v, Err(e) => panic::resume_unwind(e) },
            Err(e) => panic!("cannot spawn a thread: {e}"),
        }
    })
}

/// Runs one history on fresh objects. A panic anywhere (client step, server
/// task, harness) is reported in `Err`.
fn exec_fresh(cfg: &Cfg, hist: &[Ev]) -> Result<Exec, Vec<String>> { on_fresh_thread(|| exec(cfg, hist)) }

fn exec(cfg: &Cfg, hist: &[Ev]) -> Result<Exec, Vec<String>> {
    PANICS.with(|p| p.borrow_mut().clear());
    let (cfg2, hist2) = (*cfg, hist.to_vec());
    let r = panic::catch_unwind(AssertUnwindSafe(move || { let _watch = rpki_verif::WatchScope::enter();
        let rt = tokio::runtime::Builder::new_current_thread().enable_time().start_paused(true).build().unwrap();
        let e = rt.block_on(exec_async(cfg2, hist2));
        drop(rt);
        e
    }));
    let panics = PANICS.with(|p| std::mem::take(&mut *p.borrow_mut()));
    match r {
        Ok(mut e) if panics.is_empty() => { e.panics = Vec::new(); Ok(e) }
        Ok(_) => Err(panics),
        Err(_) => Err(if panics.is_empty() { vec!["panic".into()] } else { panics }),
    }
}

// ======================================================================
// The scale space: single exchanges over LARGE payload sets
// ======================================================================
//
// House rule: every quantity that counts or measures something is swept
// through 0..=40, the neighbourhoods of the powers of two and the documented
// maxima. Here: the number of payload PDUs of a response, the octets of the
// payload part of a response (IPv4 Prefix PDU 20 octets, IPv6 Prefix PDU 32,
// Router Key PDU 32 + key info, ASPA PDU 12 + 4 per provider), the octets of
// a key info and the number of providers of one ASPA PDU. Same oracle as in
// the small space: after a completed step the client holds exactly the
// source's set (count and members) for the state named in End of Data.

#[derive(Clone, Copy, Debug, PartialEq, Eq)]
enum ScaleKind { Reset, SerialAnnounce, SerialWithdraw }

impl ScaleKind {
    fn name(self) -> &'static str { match self { ScaleKind::Reset => "reset", ScaleKind::SerialAnnounce => "serial-announce", ScaleKind::SerialWithdraw => "serial-withdraw" } }
}

/// One case: `n` IPv4 origins, `m` IPv6 origins, optionally one router key
/// with `key` octets of key info and one ASPA with `aspa` providers; `rev`
/// reverses the order in which the source yields them.
#[derive(Clone, Copy, Debug, PartialEq, Eq)]
struct ScaleCase { version: u8, kind: ScaleKind, n: u32, m: u32, key: Option<u32>, aspa: Option<u32>, rev: bool }

impl ScaleCase {
    fn render(&self) -> String {
        format!("scale v={} kind={} n={} m={} key={} aspa={} rev={}", self.version, self.kind.name(), self.n, self.m,
            self.key.map(|k| k.to_string()).unwrap_or("-".into()), self.aspa.map(|k| k.to_string()).unwrap_or("-".into()), self.rev as u8)
    }
    fn parse(s: &str) -> Option<ScaleCase> {
        let mut c = ScaleCase { version: 0, kind: ScaleKind::Reset, n: 0, m: 0, key: None, aspa: None, rev: false };
        for tok in s.split_whitespace().skip(1) {
            let (k, v) = tok.split_once('=')?;
            let opt = |v: &str| if v == "-" { Some(None) } else { v.parse::<u32>().ok().map(Some) };
            match k {
                "v" => c.version = v.parse().ok()?,
                "kind" => c.kind = [ScaleKind::Reset, ScaleKind::SerialAnnounce, ScaleKind::SerialWithdraw].into_iter().find(|x| x.name() == v)?,
                "n" => c.n = v.parse().ok()?, "m" => c.m = v.parse().ok()?,
                "key" => c.key = opt(v)?, "aspa" => c.aspa = opt(v)?,
                "rev" => c.rev = v == "1",
                _ => return None,
            }
        }
        Some(c)
    }
    /// The model entries of the case, in the order the source yields them.
    fn entries(&self) -> Vec<Entry> {
        let mut v: Vec<Entry> = Vec::with_capacity((self.n + self.m + 2) as usize);
        for i in 0..self.n {
            v.push(Entry::Origin { addr: IpAddr::V4(Ipv4Addr::from(0x0A00_0000u32 + i)), len: 32, max: 32, asn: 64000 + i % 977 });
        }
        for j in 0..self.m {
            v.push(Entry::Origin { addr: IpAddr::V6(Ipv6Addr::from((0x2001_0db8u128 << 96) | ((j as u128) << 64))), len: 64, max: 64 + (j % 65) as u8, asn: 65000 + j % 991 });
        }
        if let Some(l) = self.key { v.push(Entry::Key { ski: [7; 20], asn: 65551, info: (0..l).map(|i| (i * 13 % 251 + 1) as u8).collect() }) }
        if let Some(p) = self.aspa { v.push(Entry::Aspa { customer: 70000, providers: (1..=p).collect() }) }
        if self.rev { v.reverse() }
        v
    }
    /// Octets of the payload PDUs of the response at this case's version.
    fn payload_octets(&self) -> u64 {
        20 * self.n as u64 + 32 * self.m as u64
            + self.key.filter(|_| self.version >= 1).map(|l| 32 + l as u64).unwrap_or(0)
            + self.aspa.filter(|_| self.version >= 2).map(|p| 12 + 4 * p as u64).unwrap_or(0)
    }
}

const BIG_SESSION: u16 = 0x0B16;
const BIG_SERIAL: u32 = 41;

struct BigInner { full: Vec<Payload>, diff: Vec<(Payload, Action)> }
#[derive(Clone)]
struct BigSource(Arc<BigInner>);
struct BigSet { src: Arc<BigInner>, pos: usize }
struct BigDiff { src: Arc<BigInner>, pos: usize }
impl PayloadSet for BigSet {
    fn next(&mut self) -> Option<PayloadRef<'_>> { let p = self.src.full.get(self.pos)?; self.pos += 1; Some(p.as_ref()) }
}
impl PayloadDiff for BigDiff {
    fn next(&mut self) -> Option<(PayloadRef<'_>, Action)> { let p = self.src.diff.get(self.pos)?; self.pos += 1; Some((p.0.as_ref(), p.1)) }
}
impl PayloadSource for BigSource {
    type Set = BigSet;
    type Diff = BigDiff;
    fn ready(&self) -> bool { true }
    fn notify(&self) -> State { State::from_parts(BIG_SESSION, Serial(BIG_SERIAL)) }
    fn full(&self) -> (State, BigSet) { (self.notify(), BigSet { src: self.0.clone(), pos: 0 }) }
    fn diff(&self, state: State) -> Option<(State, BigDiff)> {
        if state.session() == BIG_SESSION && state.serial().0 == BIG_SERIAL - 1 { Some((self.notify(), BigDiff { src: self.0.clone(), pos: 0 })) } else { None }
    }
    fn timing(&self) -> Timing { Timing { refresh: 31, retry: 17, expire: 97 } }
}

#[derive(Debug)]
struct ScaleOutcome { result: StepResult, state: Option<(u16, u32)>, data: Data, timing: Option<(u32, u32, u32)> }

async fn scale_async(case: ScaleCase) -> ScaleOutcome {
    let entries = case.entries();
    let payloads: Vec<Payload> = entries.iter().cloned().map(entry_payload).collect();
    let mut prev = Data::default();
    let (full, diff, state) = match case.kind {
        ScaleKind::Reset => (payloads, Vec::new(), None),
        ScaleKind::SerialAnnounce => (Vec::new(), payloads.into_iter().map(|p| (p, Action::Announce)).collect(),
            Some(State::from_parts(BIG_SESSION, Serial(BIG_SERIAL - 1)))),
        ScaleKind::SerialWithdraw => {
            for e in &entries { if entry_min_version(e) <= case.version { prev.announce(e.clone()); } }
            (Vec::new(), payloads.into_iter().map(|p| (p, Action::Withdraw)).collect(), Some(State::from_parts(BIG_SESSION, Serial(BIG_SERIAL - 1))))
        }
    };
    let src = BigSource(Arc::new(BigInner { full, diff }));
    let obs = Arc::new(Mutex::new(Obs::default()));
    let (c_end, s_end) = link(1 << 16, 1 << 16);
    let listener = futures_util::stream::iter(vec![Ok::<Sock, std::io::Error>(Sock { io: s_end, obs })]);
    tokio::spawn(Server::new(listener, NotifySender::new(), src).run());
    let sock = CSock { io: c_end, consumed: Arc::new(AtomicU64::new(0)), sent: Arc::new(AtomicU64::new(0)) };
    let mut client = Client::with_initial_version(case.version, sock, Target { data: prev, ..Default::default() }, state);
    settle().await;
    let res = tokio::time::timeout(HORIZON, client.step()).await;
    let result = match res { Ok(Ok(())) => StepResult::Ok, Ok(Err(e)) => StepResult::Err(format!("{:?}: {}", e.kind(), e)), Err(_) => StepResult::Hang };
    ScaleOutcome { result, state: client.state().map(|s| (s.session(), s.serial().0)), data: client.target().data.clone(),
        timing: client.target().reported_timing }
}

fn entry_min_version(e: &Entry) -> u8 { match e { Entry::Origin { .. } => 0, Entry::Key { .. } => 1, Entry::Aspa { .. } => 2 } }

fn scale_exec(case: ScaleCase) -> Result<ScaleOutcome, Vec<String>> {
    PANICS.with(|p| p.borrow_mut().clear());
    let r = panic::catch_unwind(AssertUnwindSafe(move || { let _watch = rpki_verif::WatchScope::enter();
        let rt = tokio::runtime::Builder::new_current_thread().enable_time().start_paused(true).build().unwrap();
        rt.block_on(scale_async(case))
    }));
    let panics = PANICS.with(|p| std::mem::take(&mut *p.borrow_mut()));
    match r { Ok(o) if panics.is_empty() => Ok(o), Ok(_) => Err(panics), Err(_) => Err(if panics.is_empty() { vec!["panic".into()] } else { panics }) }
}

/// Judges one scale case; returns (outcome class, violations).
fn scale_judge(case: &ScaleCase) -> (String, Vec<(&'static str, String)>) {
    let out = match scale_exec(*case) {
        Err(p) => return (format!("{}:panic", case.kind.name()), vec![("C06.step.no_panic", p.join(" | "))]),
        Ok(o) => o,
    };
    let mut v = Vec::new();
    match &out.result {
        StepResult::Ok => {
            let mut want = Data::default();
            if case.kind != ScaleKind::SerialWithdraw {
                for e in case.entries() { if entry_min_version(&e) <= case.version { want.announce(e); } }
            }
            if out.state != Some((BIG_SESSION, BIG_SERIAL)) {
                v.push(("C06.state.eod", format!("client.state() = {:?}, the source's End of Data named {:?}", out.state, (BIG_SESSION, BIG_SERIAL))));
            }
            if out.data != want {
                let have = out.data.plain.len() + out.data.aspa.len();
                let exp = want.plain.len() + want.aspa.len();
                let missing: Vec<String> = want.plain.iter().filter(|e| !out.data.plain.contains(*e)).take(3).map(|e| format!("{e:?}")).collect();
                let extra: Vec<String> = out.data.plain.iter().filter(|e| !want.plain.contains(*e)).take(3).map(|e| format!("{e:?}")).collect();
                v.push(("C06.data.equals_source", format!(
                    "payload part of the response {} octets in {} PDUs: target holds {have} items, the source reported {exp}; first missing {missing:?}, first extra {extra:?}, ASPA {:?} vs {:?}",
                    case.payload_octets(), case.n + case.m + case.key.filter(|_| case.version >= 1).map(|_| 1).unwrap_or(0) + case.aspa.filter(|_| case.version >= 2).map(|_| 1).unwrap_or(0),
                    out.data.aspa.iter().map(|(c, p)| (*c, p.len())).collect::<Vec<_>>(), want.aspa.iter().map(|(c, p)| (*c, p.len())).collect::<Vec<_>>())));
            }
            if case.version >= 1 && out.timing != Some((31, 17, 97)) {
                v.push(("C06.timing.equals_source", format!("client reports timing {:?}, source's is (31, 17, 97)", out.timing)));
            }
            (format!("{}:ok", case.kind.name()), v)
        }
        StepResult::Err(m) => (format!("{}:err:{}", case.kind.name(), rpki_verif::trunc(m, 50)), v),
        StepResult::Hang => (format!("{}:hang", case.kind.name()), v),
    }
}

/// All (n, m) with 20 n + 32 m = total.
fn origin_splits(total: u64) -> Vec<(u32, u32)> {
    let mut v = Vec::new();
    let mut m = 0u64;
    while 32 * m <= total {
        let rest = total - 32 * m;
        if rest % 20 == 0 { v.push(((rest / 20) as u32, m as u32)); }
        m += 1;
    }
    v
}

fn first_middle_last<T: Clone>(v: &[T]) -> Vec<T> {
    match v.len() { 0 => vec![], 1 => vec![v[0].clone()], 2 => v.to_vec(), n => vec![v[0].clone(), v[n / 2].clone(), v[n - 1].clone()] }
}

/// The case list (deterministic).
fn scale_cases(thorough: bool) -> Vec<ScaleCase> {
    let kinds = [ScaleKind::Reset, ScaleKind::SerialAnnounce, ScaleKind::SerialWithdraw];
    let mut out: Vec<ScaleCase> = Vec::new();
    let mut push = |version: u8, kind: ScaleKind, n: u32, m: u32, key: Option<u32>, aspa: Option<u32>, rev: bool| {
        out.push(ScaleCase { version, kind, n, m, key, aspa, rev });
    };
    // (A) number of payload PDUs: 0..=40 and the neighbourhoods of 2048 and 4096
    //     (thorough: of every power of two from 64 to 8192), all v4 / all v6 / half and half
    let mut counts: Vec<u32> = (0..=40).collect();
    let pows: &[u32] = if thorough { &[64, 128, 256, 512, 1024, 2048, 4096, 8192] } else { &[2048, 4096] };
    for p in pows { counts.extend([p - 1, *p, p + 1]); }
    for &c in &counts { for version in 0..=2u8 { for kind in kinds {
        for (n, m) in [(c, 0), (0, c), (c / 2, c - c / 2)] { push(version, kind, n, m, None, None, false); }
    }}}
    // (B) octets of the payload part of the response: every (n, m) that hits the
    //     power of two exactly (origin PDUs are multiples of 4 octets) as a reset
    //     at every version; first/middle/last and every 16th also as serial
    //     exchanges and in reverse order; the -1/+1 neighbours through a router
    //     key with 60..=63 octets of key info (versions 1, 2) and the exact value
    //     again with a 4-provider ASPA in it (version 2).
    //     quick: 4096, 16384, 65536 in full, 131072 first/middle/last;
    //     thorough: + 131072 and 262144 in full.
    let totals: &[(u64, bool)] = if thorough { &[(4096, true), (16384, true), (65536, true), (131072, true), (262144, true)] }
        else { &[(4096, true), (16384, true), (65536, true), (131072, false)] };
    for &(t, all) in totals {
        let splits = origin_splits(t);
        let chosen: Vec<(u32, u32)> = if all { splits.clone() } else { first_middle_last(&splits) };
        for (i, &(n, m)) in chosen.iter().enumerate() {
            for version in 0..=2u8 { push(version, ScaleKind::Reset, n, m, None, None, false); }
            let sampled = i % 16 == 0 || i + 1 == chosen.len() || i == chosen.len() / 2;
            if sampled { for version in 0..=2u8 {
                push(version, ScaleKind::Reset, n, m, None, None, true);
                for kind in [ScaleKind::SerialAnnounce, ScaleKind::SerialWithdraw] { for rev in [false, true] { push(version, kind, n, m, None, None, rev); } }
            }}
        }
        for d in [-1i64, 1] { for l in 60..=63u32 {
            let rest = t as i64 + d - 32 - l as i64;
            if rest < 0 { continue }
            for (n, m) in first_middle_last(&origin_splits(rest as u64)) { for version in 1..=2u8 { for kind in kinds { for rev in [false, true] {
                push(version, kind, n, m, Some(l), None, rev);
            }}}}
        }}
        for (n, m) in first_middle_last(&origin_splits(t - 28)) { for kind in kinds { for rev in [false, true] { push(2, kind, n, m, None, Some(4), rev); } } }
    }
    // (C) octets of one key info and number of providers of one ASPA PDU: 0..=40, the
    //     neighbourhoods of the powers of two, the documented maximum of 16380 providers
    let mut lens: Vec<u32> = (0..=40).collect();
    for p in [64u32, 128, 256, 1024, 4096, 16384, 65536] { lens.extend([p - 1, p, p + 1]); }
    if thorough { lens.extend([(1 << 18) - 1, 1 << 18, (1 << 18) + 1, (1 << 20) - 1, 1 << 20, (1 << 20) + 1]); }
    for &l in &lens { for version in 1..=2u8 { for kind in kinds { push(version, kind, 1, 1, Some(l), None, false); } } }
    let mut provs: Vec<u32> = (0..=40).collect();
    for p in [64u32, 128, 256, 1024, 4096] { provs.extend([p - 1, p, p + 1]); }
    provs.extend([16379, 16380]);
    for &p in &provs { for kind in kinds { push(2, kind, 1, 1, None, Some(p), false); } }
    out
}

/// Runs the scale space.
fn scale_space(ctx: &Ctx, thorough: bool) {
    let sp = ctx.space("rtr.scale",
        "single reset / serial-announce / serial-withdraw exchanges (real Client::step against the real Server over a roomy pipe) over LARGE sets at versions 0..2: (A) number of payload PDUs 0..=40 and 2047..2049, 4095..4097 [thorough: every power of two 64..8192] as all-IPv4, all-IPv6 and mixed; (B) octets of the payload part of the response: EVERY (n IPv4, m IPv6) with 20n+32m = 4096, 16384, 65536 [quick: 131072 first/middle/last; thorough: 131072 and 262144 in full] as reset at each version, a sample also as serial exchanges and reversed, the -1/+1 neighbours through a router key of 60..63 octets, the exact value again with an ASPA inside; (C) key info of 0..=40 and 2^k-1..2^k+1 octets up to 65537 [thorough: 2^18, 2^20], ASPA with 0..=40, 2^k-1..2^k+1 and 16379, 16380 (the documented maximum) providers; oracle: client data equals the source's set (count and members), state and timing as in the small space; non-trivial = cases with at least one payload PDU");
    let cases = scale_cases(thorough);
    let results: Vec<(String, Vec<(&'static str, String)>)> = cases.par_iter().map(scale_judge).collect();
    let mut octets_max = 0u64;
    let mut ok = 0u64;
    for (case, (class, viols)) in cases.iter().zip(results) {
        sp.eval();
        if case.n + case.m > 0 || case.key.is_some() || case.aspa.is_some() { sp.nontrivial(1) }
        octets_max = octets_max.max(case.payload_octets());
        if class.ends_with(":ok") { ok += 1 }
        sp.outcome(&class);
        for (o, d) in viols { ctx.fail(o, case.render(), d) }
    }
    if ok * 10 < cases.len() as u64 * 9 { ctx.machinery_error(format!("rtr.scale: only {ok} of {} exchanges completed", cases.len())) }
    sp.sample_str(|| cases.iter().find(|c| c.payload_octets() == 65536).map(|c| c.render()).unwrap_or_default());
    sp.set("largest_payload_part_octets", json!(octets_max));
    sp.set("completed_exchanges", json!(ok));
    sp.done(true, &format!("{} exchanges, payload part up to {octets_max} octets", cases.len()));
}

// ======================================================================
// The sequence spaces: serial distance, two clients, a target that rejects,
// abandoned steps
// ======================================================================
//
// The history space above canonicalises states under the assumption that
// client and server only compare and copy serial numbers. These spaces do
// not assume it: they enumerate short scripted sequences in full (no state
// merging), with the serial DISTANCE between the client's stored state and
// the state the server names in End of Data as a dimension, and with the
// things a sweep of independent steps cannot see: what an earlier step left
// behind (a step the target rejected, a step future dropped while Pending)
// and who else talks to the same server. Every client step of a sequence
// that finishes is judged by the oracles of the property, against the state
// named in the End of Data the client consumed in that step.
//
// In the history space and in the first four sequence spaces everything the
// source reports is a function of its state (the timing triple goes with the
// set, the set with the serial), and its canonical key takes "the server
// connection keeps nothing between queries but the version" for granted.
// `rtr.unmoved_state` drops both: the source's answers change while the
// state stays, on connections with a past.

/// What the harness does with a client whose step failed or was abandoned.
#[derive(Clone, Copy, Debug, PartialEq, Eq, Hash, PartialOrd, Ord)]
enum Cont {
    /// the next step is tried on the same connection; only when that fails
    /// too, the harness reconnects
    SameConn,
    /// reconnect at once with `client.state()` and the target, the way the
    /// `Client::new` documentation prescribes
    Reconnect,
}

#[derive(Clone, Copy, Debug, PartialEq, Eq, Hash, PartialOrd, Ord)]
enum SOp {
    /// the source's serial moves by `delta` mod 2^32; same session with the
    /// diff base kept (`k`) or all diff bases dropped (`d`), or a new session
    /// (`n`); the data moves on to the next set of `SET_CYCLE` (`c`) or stays (`u`)
    Jump { delta: u32, keep: bool, new_session: bool, change: bool },
    Notify,
    /// client A (0) or B (1) performs one step by its route
    Step(u8),
    /// both clients step concurrently on the one thread (`join!`)
    Both,
    /// the client's step future is polled until it has returned Pending k
    /// times and is then dropped
    Cancel(u8, u16),
    /// the source reports other timing values from now on; session, serial
    /// and data stay where they are (`rtr.unmoved_state`)
    Retime,
    /// the source stops serving diffs (`diff()` is `None` for every state,
    /// its current one included) or, if it had stopped, resumes; the state stays
    Hide,
    /// the source's iterators yield their items in the next of the three
    /// orders from now on; the state stays
    Reorder,
    /// the client gives up its connection although nothing failed and comes
    /// back over a new one to the same `Server::run`, with `client.state()`
    /// and the target, the way the `Client::new` documentation prescribes
    Reconnect(u8),
}

impl SOp {
    fn render(self) -> String {
        match self {
            SOp::Jump { delta, keep, new_session, change } => format!("J{delta}{}{}",
                if new_session { 'n' } else if keep { 'k' } else { 'd' }, if change { 'c' } else { 'u' }),
            SOp::Notify => "N".into(),
            SOp::Step(i) => format!("S{}", (b'A' + i) as char),
            SOp::Both => "SAB".into(),
            SOp::Cancel(i, k) => format!("X{}@{k}", (b'A' + i) as char),
            SOp::Retime => "T".into(), SOp::Hide => "H".into(), SOp::Reorder => "O".into(),
            SOp::Reconnect(i) => format!("R{}", (b'A' + i) as char),
        }
    }
    fn parse(s: &str) -> Option<SOp> {
        match s {
            "N" => Some(SOp::Notify), "SA" => Some(SOp::Step(0)), "SB" => Some(SOp::Step(1)), "SAB" => Some(SOp::Both),
            "T" => Some(SOp::Retime), "H" => Some(SOp::Hide), "O" => Some(SOp::Reorder),
            "RA" => Some(SOp::Reconnect(0)), "RB" => Some(SOp::Reconnect(1)),
            _ if s.starts_with('X') => {
                let (who, k) = s[1..].split_once('@')?;
                let i = match who { "A" => 0, "B" => 1, _ => return None };
                Some(SOp::Cancel(i, k.parse().ok()?))
            }
            _ if s.starts_with('J') && s.len() >= 4 => {
                let (num, flags) = s[1..].split_at(s.len() - 3);
                let f: Vec<char> = flags.chars().collect();
                let (keep, new_session) = match f[0] { 'k' => (true, false), 'd' => (false, false), 'n' => (false, true), _ => return None };
                let change = match f[1] { 'c' => true, 'u' => false, _ => return None };
                Some(SOp::Jump { delta: num.parse().ok()?, keep, new_session, change })
            }
            _ => None,
        }
    }
    fn is_step(self) -> bool { matches!(self, SOp::Step(_) | SOp::Both | SOp::Cancel(..)) }
}

/// The data walks through all eight sets; the root holds set 6.
const SET_CYCLE: [u8; 8] = [6, 1, 7, 4, 5, 2, 3, 0];
const SEQ_ROOT_SET: u8 = 6;
fn next_set(cur: u8) -> u8 {
    let p = SET_CYCLE.iter().position(|s| *s == cur).unwrap();
    SET_CYCLE[(p + 1) % SET_CYCLE.len()]
}

/// One client of a scenario.
#[derive(Clone, Copy, Debug, PartialEq, Eq, Hash, PartialOrd, Ord)]
struct SClient { civ: u8, limit: u8, route: Route,
    /// starts in the source's root state with the matching data (else: no state, no data)
    current: bool }

#[derive(Clone, Debug, PartialEq, Eq, Hash, PartialOrd, Ord)]
struct Scn {
    space: &'static str,
    /// the source's serial at the root
    base: u32,
    style: Style,
    order: Order,
    link: Transport,
    clients: Vec<SClient>,
    ops: Vec<SOp>,
    /// client A's target rejects: (true: the n-th `apply` / false: the n-th `push_update`, n, error)
    fail: Option<(bool, u32, u8)>,
    cont: Cont,
    /// the source's `retimed` at the root (which timing triple goes with which set)
    shift: u8,
}

const FAIL_KINDS: [PayloadError; 4] = [PayloadError::Corrupt, PayloadError::DuplicateAnnounce, PayloadError::Internal, PayloadError::UnknownWithdraw];
const SEQ_SPACES: [&str; 5] = ["dist", "pair", "fail", "cancel", "unmoved"];

impl Scn {
    fn render(&self) -> String { self.render_upto(self.ops.len()) }
    /// The scenario cut after its first `n` operations (still a scenario).
    fn render_upto(&self, n: usize) -> String {
        let clients: Vec<String> = self.clients.iter().map(|c| format!("{}/{}/{}/{}", c.civ, c.limit, c.route.name(), if c.current { "current" } else { "none" })).collect();
        let ops: Vec<String> = self.ops[..n].iter().map(|o| o.render()).collect();
        format!("seq space={} base={} style={} order={} link={} clients={} cont={}{}{} ops={}", self.space, self.base,
            match self.style { Style::Net => "net", Style::Chained => "chained" }, self.order.name(), self.link.name(), clients.join(","),
            match self.cont { Cont::SameConn => "same", Cont::Reconnect => "reconnect" },
            match self.fail { Some((a, n, k)) => format!(" fail={}#{n}:{:?}", if a { "apply" } else { "push" }, FAIL_KINDS[k as usize]), None => String::new() },
            if self.shift != 0 { format!(" shift={}", self.shift) } else { String::new() },
            ops.join("."))
    }
    fn parse(s: &str) -> Option<Scn> {
        let mut scn = Scn { space: "dist", base: 0, style: Style::Net, order: Order::Grouped, link: Transport::Roomy, clients: vec![], ops: vec![], fail: None, cont: Cont::Reconnect, shift: 0 };
        for tok in s.split_whitespace().skip(1) {
            let (k, v) = tok.split_once('=')?;
            match k {
                "space" => scn.space = SEQ_SPACES.iter().copied().find(|x| *x == v)?,
                "base" => scn.base = v.parse().ok()?,
                "shift" => scn.shift = v.parse().ok()?,
                "style" => scn.style = match v { "net" => Style::Net, "chained" => Style::Chained, _ => return None },
                "order" => scn.order = ORDERS.iter().copied().find(|o| o.name() == v)?,
                "link" => scn.link = TRANSPORTS.iter().copied().find(|o| o.name() == v)?,
                "cont" => scn.cont = match v { "same" => Cont::SameConn, "reconnect" => Cont::Reconnect, _ => return None },
                "clients" => for c in v.split(',') {
                    let p: Vec<&str> = c.split('/').collect();
                    if p.len() != 4 { return None }
                    scn.clients.push(SClient { civ: p[0].parse().ok()?, limit: p[1].parse().ok()?, route: ROUTES.iter().copied().find(|r| r.name() == p[2])?,
                        current: match p[3] { "current" => true, "none" => false, _ => return None } });
                },
                "fail" => {
                    let (what, kind) = v.split_once(':')?;
                    let (call, n) = what.split_once('#')?;
                    let k = FAIL_KINDS.iter().position(|x| format!("{x:?}") == kind)? as u8;
                    scn.fail = Some((match call { "apply" => true, "push" => false, _ => return None }, n.parse().ok()?, k));
                }
                "ops" => for o in v.split('.').filter(|o| !o.is_empty()) { scn.ops.push(SOp::parse(o)?) },
                _ => return None,
            }
        }
        if scn.clients.is_empty() || scn.clients.len() > 2 { return None }
        Some(scn)
    }
    fn cfg_of(&self, i: usize) -> Cfg {
        let c = self.clients[i];
        Cfg { civ: c.civ, limit: c.limit, mode: ProxyMode::ErrorReply, style: self.style, cap: SEQ_CAP, order: self.order, link: self.link, route: c.route,
            init: if c.current { Init::Current } else { Init::NoState } }
    }
    /// A source must not use one (session, serial) for two different data
    /// sets: such sequences (e.g. +2^31 twice) are not enumerated.
    fn reuses_a_state(&self) -> bool {
        let mut seen: BTreeSet<(u32, u32)> = BTreeSet::new();
        let (mut sess, mut serial) = (0u32, self.base);
        seen.insert((sess, serial));
        for op in &self.ops {
            if let SOp::Jump { delta, new_session, .. } = *op {
                if new_session { sess += 1 }
                serial = serial.wrapping_add(delta);
                if !seen.insert((sess, serial)) { return true }
            }
        }
        false
    }
}

/// Retained diff bases in the sequence spaces (more than any sequence builds up).
const SEQ_CAP: u8 = 6;

/// Counts the times the wrapped future returned Pending; at the `limit`-th
/// it gives up, so that the caller drops the future at that await point.
struct PollLimit<F> { fut: Pin<Box<F>>, limit: u16, seen: u16 }
impl<F: std::future::Future> std::future::Future for PollLimit<F> {
    type Output = Option<F::Output>;
    fn poll(self: Pin<&mut Self>, cx: &mut Context<'_>) -> Poll<Self::Output> {
        let me = self.get_mut();
        match me.fut.as_mut().poll(cx) {
            Poll::Ready(v) => Poll::Ready(Some(v)),
            Poll::Pending => {
                me.seen = me.seen.saturating_add(1);
                if me.seen >= me.limit { Poll::Ready(None) } else { Poll::Pending }
            }
        }
    }
}

#[derive(Clone, Debug, PartialEq, Eq)]
struct SeqStep {
    /// index of the operation in the scenario
    op: usize,
    who: u8,
    result: StepResult,
    /// the future was dropped while Pending (then `result` is meaningless)
    cancelled: bool,
    pendings: u16,
    class: String,
    transcript: String,
    changed: bool,
    /// serial distance (mod 2^32) from the stored state to the End-of-Data
    /// state, if both are of one session
    distance: Option<u32>,
    verdicts: Vec<(&'static str, String)>,
    /// what the failure injection hit during this step
    fired: Option<String>,
    /// the client wrote at least one octet during the step
    wrote: bool,
    /// the connection was in step with the server when the step began
    judged: bool,
    /// the connection had carried a completed exchange before this step
    reused: bool,
}

#[derive(Clone, Debug, PartialEq, Eq)]
struct SeqOut { steps: Vec<SeqStep>, machinery: Vec<String>, api_faults: Vec<String>, pushes: u32, applies: u32 }

struct Pre { m_c2s: usize, consumed: u64, sent: u64, state: Option<(u16, u32)>, data: Data }

fn seq_pre(conn: &mut Conn) -> Pre {
    conn.client.target_mut().applied.clear();
    Pre { m_c2s: conn.obs.lock().unwrap().c2s.len(), consumed: conn.consumed.load(Ordering::Relaxed), sent: conn.sent.load(Ordering::Relaxed),
        state: conn.client.state().map(|s| (s.session(), s.serial().0)), data: conn.client.target().data.clone() }
}

fn distance_class(d: Option<u32>, had_state: bool, same_session: bool) -> String {
    match d {
        _ if !had_state => "no-stored-state".into(),
        _ if !same_session => "other-session".into(),
        None => "?".into(),
        Some(0) => "0".into(), Some(1) => "+1".into(), Some(2) => "+2".into(),
        Some(0x7FFF_FFFF) => "+2^31-1".into(), Some(0x8000_0000) => "2^31".into(), Some(0x8000_0001) => "-(2^31-1)".into(),
        Some(0xFFFF_FFFF) => "-1".into(), Some(0xFFFF_FFFE) => "-2".into(),
        Some(x) if x < 0x7FFF_FFFF => "+3..2^31-2".into(),
        Some(_) => "-(2^31-2)..-3".into(),
    }
}

/// Judges one step of a sequence: exactly the three clauses of the property,
/// against the state named in the LAST End of Data the client consumed during
/// the step (after an abandoned step octets of an earlier response may still
/// be in the pipe; whatever the client takes for its answer, the clauses
/// speak about the End of Data it took).
fn seq_judge(op: usize, who: u8, src: &Source, conn: &Conn, pre: &Pre, result: StepResult, cancelled: bool, pendings: u16, in_sync: bool) -> SeqStep {
    let s = src.0.lock().unwrap();
    let o = conn.obs.lock().unwrap();
    let consumed = conn.consumed.load(Ordering::Relaxed);
    let state_after = conn.client.state().map(|s| (s.session(), s.serial().0));
    let data_after = &conn.client.target().data;
    let reported_timing = conn.client.target().reported_timing;
    let mut t: Vec<String> = Vec::new();
    for f in &o.c2s[pre.m_c2s..] {
        t.push(format!(">{}v{}{}", type_name(f.typ), f.ver, if f.typ == 1 && f.body.len() == 4 {
            format!("({},{})", f.sess, u32::from_be_bytes([f.body[0], f.body[1], f.body[2], f.body[3]])) } else { String::new() }));
    }
    let mut eod = None;
    let mut taken: Vec<u8> = Vec::new();
    for f in o.s2c.iter() {
        let end = f.off + 8 + f.body.len() as u64;
        if end <= pre.consumed || end > consumed { continue }
        taken.push(f.typ);
        let e = if f.typ == 7 { parse_eod(f) } else { None };
        t.push(format!("<{}{}v{}{}", if f.from_proxy { "proxy:" } else { "" }, type_name(f.typ), f.ver,
            match e { Some(e) => format!("({},{})", e.1, e.2), None if f.typ == 10 => format!("(code {})", f.sess), None => String::new() }));
        if e.is_some() { eod = e }
    }
    let transcript = t.join(" ");
    let q: Vec<u8> = o.c2s[pre.m_c2s..].iter().map(|f| f.typ).collect();
    let payloads = taken.iter().filter(|t| matches!(t, 4 | 6 | 9 | 11)).count();
    let kind = if taken.contains(&8) { "serial-query->cache-reset->reset-query" }
        else if q.contains(&1) && payloads == 0 { "serial-query:empty-diff" }
        else if q.contains(&1) { "serial-query:diff" }
        else if q.contains(&2) { "reset-query" }
        else if q.contains(&10) { "error-report-only" }
        else { "no-query" };
    let distance = match (pre.state, eod) { (Some(a), Some(e)) if a.0 == e.1 => Some(e.2.wrapping_sub(a.1)), _ => None };
    let mut verdicts: Vec<(&'static str, String)> = Vec::new();
    let finished = result == StepResult::Ok && !cancelled;
    if finished {
        match (state_after, eod) {
            (Some(a), Some(e)) if a == (e.1, e.2) => {}
            (a, e) => verdicts.push(("C06.state.eod", format!(
                "client.state() = {a:?} (before the step: {:?}) but the End of Data of this exchange named {:?} (exchange: {transcript})", pre.state, e.map(|e| (e.1, e.2))))),
        }
        if let Some(e) = eod {
            match s.record.get(&(e.1, e.2)).copied() {
                None => verdicts.push(("C06.data.equals_source", format!("End of Data names {:?}, a state the source never reported", (e.1, e.2)))),
                Some(set) => {
                    let want = expected_data(set, e.0);
                    if *data_after != want {
                        verdicts.push(("C06.data.equals_source", format!(
                            "state {:?} (source set #{set}) at version {}: target holds {} but the source reported {} (previous data {}, stored state before the step {:?}, exchange: {transcript})",
                            (e.1, e.2), e.0, data_after.render(), want.render(), pre.data.render(), pre.state)));
                    }
                    if e.0 >= 1 && reported_timing != Some(s.timing_for(set)) {
                        verdicts.push(("C06.timing.equals_source", format!(
                            "version {}: client reports timing {reported_timing:?}, source's is {:?} (exchange: {transcript})", e.0, s.timing_for(set))));
                    }
                }
            }
        }
    }
    // A connection on which a query went out whose response was not consumed
    // to its end (the step was abandoned, or failed) is out of step for good:
    // RTR has no way to tell which query a response answers. What finishes
    // there is counted, with the verdict it would have got, but not judged.
    let class = if cancelled { format!("step:abandoned-while-pending:{kind}") } else if !in_sync && finished {
        let c = format!("step:ok-on-desynchronised-connection(not judged):{}", if verdicts.is_empty() { "as-the-source" } else { "NOT-as-the-source" });
        verdicts.clear();
        c
    } else {
        match &result {
            StepResult::Ok => format!("step:ok:{kind}:distance={}", distance_class(distance, pre.state.is_some(), distance.is_some())),
            StepResult::Err(m) => format!("step:err:{}", rpki_verif::trunc(m, 60)),
            StepResult::Hang => "step:hang(horizon exceeded)".to_string(),
        }
    };
    let changed = state_after != pre.state || *data_after != pre.data;
    SeqStep { op, who, result, cancelled, pendings, class, transcript, changed, distance, verdicts, fired: None, wrote: conn.sent.load(Ordering::Relaxed) > pre.sent, judged: in_sync, reused: conn.ok_steps > 0 }
}

fn step_result(r: Result<Option<Result<(), std::io::Error>>, tokio::time::error::Elapsed>) -> (StepResult, bool) {
    match r {
        Ok(Some(Ok(()))) => (StepResult::Ok, false),
        Ok(Some(Err(e))) => (StepResult::Err(format!("{:?}: {}", e.kind(), e)), false),
        Ok(None) => (StepResult::Ok, true),
        Err(_) => (StepResult::Hang, false),
    }
}

async fn route_step(client: &mut Client<CSock, Target>, route: Route) -> Result<(), std::io::Error> {
    match route {
        Route::Step => client.step().await,
        Route::UpdateApply => { let u = client.update().await?; client.apply(u).await }
        Route::ResetApply => { let u = client.reset().await?; client.apply(u).await }
    }
}

async fn seq_async(scn: Scn) -> SeqOut {
    let src = Source(Arc::new(Mutex::new(SrcInner {
        session: SESSION0, serial: scn.base, cur: SEQ_ROOT_SET, chain: Vec::new(), chain_serial: Vec::new(),
        record: BTreeMap::from([((SESSION0, scn.base), SEQ_ROOT_SET)]), epoch: 0, style: scn.style, order: scn.order, cap: SEQ_CAP as usize,
        collision: false, armed: None, calls: 0, fired: None, timing_asked_in: None, timing_calls: Vec::new(), armed_after_timing: None,
        api_faults: Vec::new(), retimed: scn.shift, hide_diffs: false,
    })));
    let mut notify = NotifySender::new();
    let hub = hub(&src, &notify);
    let ctl = Arc::new(Mutex::new(FailCtl::default()));
    if let Some((apply, n, k)) = scn.fail {
        let mut c = ctl.lock().unwrap();
        if apply { c.fail_apply = Some(n) } else { c.fail_push = Some(n) }
        c.kind = Some(FAIL_KINDS[k as usize]);
    }
    let cfgs: Vec<Cfg> = (0..scn.clients.len()).map(|i| scn.cfg_of(i)).collect();
    let mut conns: Vec<Conn> = Vec::new();
    for (i, c) in scn.clients.iter().enumerate() {
        let v = c.civ.min(c.limit);
        let target = Target { data: if c.current { expected_data(SEQ_ROOT_SET, v) } else { Data::default() },
            ctl: if i == 0 { Some(ctl.clone()) } else { None }, ..Default::default() };
        let state = if c.current { Some(State::from_parts(SESSION0, Serial(scn.base))) } else { None };
        conns.push(connect_via(Some(&hub), &cfgs[i], &src, &notify, target, state).await);
    }
    // a connection on which a step has failed or was abandoned
    let mut tainted = vec![false; conns.len()];
    // ... and on which a query (or part of one) had gone out by then: its
    // response is still on the way or half read
    let mut desync = vec![false; conns.len()];
    let mut steps: Vec<SeqStep> = Vec::new();
    let mut machinery: Vec<String> = Vec::new();
    for (idx, op) in scn.ops.iter().enumerate() {
        let mut stepped: Vec<usize> = Vec::new();
        match *op {
            SOp::Jump { delta, keep, new_session, change } => {
                let mut s = src.0.lock().unwrap();
                let set = if change { next_set(s.cur) } else { s.cur };
                s.jump(delta, keep, new_session, set);
            }
            SOp::Notify => { notify.notify(); settle().await; }
            SOp::Retime => { let mut s = src.0.lock().unwrap(); s.retimed = (s.retimed + 1) % TIMINGS.len() as u8; }
            SOp::Hide => { let mut s = src.0.lock().unwrap(); s.hide_diffs = !s.hide_diffs; }
            SOp::Reorder => { let mut s = src.0.lock().unwrap(); s.order = ORDERS[(ORDERS.iter().position(|o| *o == s.order).unwrap() + 1) % ORDERS.len()]; }
            SOp::Reconnect(i) => {
                let i = i as usize;
                if i >= conns.len() { machinery.push(format!("operation {} names a client the scenario does not have", op.render())); break }
                let state = conns[i].client.state();
                let old = conns.remove(i);
                let target = old.client.into_target();
                settle().await;
                let c = connect_via(Some(&hub), &cfgs[i], &src, &notify, target, state).await;
                conns.insert(i, c);
                tainted[i] = false;
                desync[i] = false;
            }
            SOp::Step(i) | SOp::Cancel(i, _) => {
                let i = i as usize;
                if i >= conns.len() { machinery.push(format!("operation {} names a client the scenario does not have", op.render())); break }
                let limit = if let SOp::Cancel(_, k) = *op { k.max(1) } else { u16::MAX };
                let pre = seq_pre(&mut conns[i]);
                ctl.lock().unwrap().fired = None;
                let route = cfgs[i].route;
                let (r, seen) = {
                    let mut pl = PollLimit { fut: Box::pin(route_step(&mut conns[i].client, route)), limit, seen: 0 };
                    let r = tokio::time::timeout(HORIZON, &mut pl).await;
                    (r, pl.seen)
                };
                settle().await;
                let (result, cancelled) = step_result(r);
                let mut st = seq_judge(idx, i as u8, &src, &conns[i], &pre, result, cancelled, seen, !desync[i]);
                if i == 0 { st.fired = ctl.lock().unwrap().fired.take() }
                steps.push(st);
                stepped.push(i);
            }
            SOp::Both => {
                if conns.len() != 2 { machinery.push("SAB needs two clients".into()); break }
                let pre: Vec<Pre> = conns.iter_mut().map(seq_pre).collect();
                let (ra, rb) = (cfgs[0].route, cfgs[1].route);
                let ((r0, n0), (r1, n1)) = {
                    let (a, b) = conns.split_at_mut(1);
                    let mut pa = PollLimit { fut: Box::pin(route_step(&mut a[0].client, ra)), limit: u16::MAX, seen: 0 };
                    let mut pb = PollLimit { fut: Box::pin(route_step(&mut b[0].client, rb)), limit: u16::MAX, seen: 0 };
                    let (x, y) = tokio::join!(tokio::time::timeout(HORIZON, &mut pa), tokio::time::timeout(HORIZON, &mut pb));
                    ((x, pa.seen), (y, pb.seen))
                };
                settle().await;
                for (i, (r, n)) in [(r0, n0), (r1, n1)].into_iter().enumerate() {
                    let (result, cancelled) = step_result(r);
                    steps.push(seq_judge(idx, i as u8, &src, &conns[i], &pre[i], result, cancelled, n, !desync[i]));
                    stepped.push(i);
                }
            }
        }
        // what becomes of the connections that were just used
        for i in stepped {
            let st = steps.iter().rev().find(|s| s.who == i as u8).unwrap();
            let closed_by_peer = conns[i].obs.lock().unwrap().cut_fired;
            let bad = st.cancelled || st.result != StepResult::Ok;
            let reconnect = closed_by_peer || (bad && (scn.cont == Cont::Reconnect || tainted[i]));
            if bad { tainted[i] = true }
            if bad && (st.wrote || !st.cancelled) { desync[i] = true }
            if reconnect {
                let state = conns[i].client.state();
                let old = conns.remove(i);
                let target = old.client.into_target();
                settle().await;
                let c = connect_via(Some(&hub), &cfgs[i], &src, &notify, target, state).await;
                conns.insert(i, c);
                tainted[i] = false;
                desync[i] = false;
            } else if !bad {
                conns[i].ok_steps += 1;
            }
        }
    }
    let mut api_faults = {
        let mut s = src.0.lock().unwrap();
        if s.collision { machinery.push("source used one (session, serial) for two different sets".into()) }
        std::mem::take(&mut s.api_faults)
    };
    for c in conns.iter_mut() {
        if c.obs.lock().unwrap().garbage { machinery.push("proxy saw an unframeable octet stream".into()) }
        api_faults.extend(std::mem::take(&mut c.client.target_mut().api_faults));
    }
    api_faults.sort(); api_faults.dedup();
    let c = ctl.lock().unwrap();
    SeqOut { steps, machinery, api_faults, pushes: c.pushes, applies: c.applies }
}

fn seq_exec_fresh(scn: &Scn) -> Result<SeqOut, Vec<String>> { on_fresh_thread(|| seq_exec(scn)) }

fn seq_exec(scn: &Scn) -> Result<SeqOut, Vec<String>> {
    PANICS.with(|p| p.borrow_mut().clear());
    let scn2 = scn.clone();
    let r = panic::catch_unwind(AssertUnwindSafe(move || { let _watch = rpki_verif::WatchScope::enter();
        let rt = tokio::runtime::Builder::new_current_thread().enable_time().start_paused(true).build().unwrap();
        let e = rt.block_on(seq_async(scn2));
        drop(rt);
        e
    }));
    let panics = PANICS.with(|p| std::mem::take(&mut *p.borrow_mut()));
    match r { Ok(o) if panics.is_empty() => Ok(o), Ok(_) => Err(panics), Err(_) => Err(if panics.is_empty() { vec!["panic".into()] } else { panics }) }
}

/// What the merge keeps of one executed scenario.
#[derive(Default)]
struct SeqTally {
    evals: u64,
    nontrivial: u64,
    outcomes: BTreeMap<String, u64>,
    /// (oracle, witness cut after the judged step, detail)
    viols: Vec<(&'static str, String, String)>,
    machinery: Vec<String>,
    ok_steps: u64,
    /// finished steps that followed a rejected / abandoned step of the same client
    ok_after_bad: u64,
    max_pendings: u16,
    distances: BTreeSet<u32>,
    sample: Option<String>,
}

impl SeqTally {
    fn absorb(&mut self, other: SeqTally) {
        self.evals += other.evals; self.nontrivial += other.nontrivial; self.ok_steps += other.ok_steps; self.ok_after_bad += other.ok_after_bad;
        for (k, v) in other.outcomes { *self.outcomes.entry(k).or_insert(0) += v }
        self.viols.extend(other.viols); self.machinery.extend(other.machinery);
        self.max_pendings = self.max_pendings.max(other.max_pendings);
        self.distances.extend(other.distances);
        if self.sample.is_none() { self.sample = other.sample }
    }
}

/// Executes one scenario and tallies it; `nontrivial` is the space's rule.
fn seq_run(scn: &Scn, nontrivial: impl Fn(&SeqOut) -> bool) -> (SeqTally, Option<SeqOut>) {
    let mut t = SeqTally { evals: 1, ..Default::default() };
    match seq_exec(scn) {
        Err(p) => {
            *t.outcomes.entry("step:panic".into()).or_insert(0) += 1;
            t.viols.push(("C06.step.no_panic", scn.render(), p.join(" | ")));
            (t, None)
        }
        Ok(out) => {
            for m in &out.machinery { t.machinery.push(format!("{}: {m}", scn.render())) }
            for f in &out.api_faults { t.viols.push(("C06.api.accessors", scn.render(), f.clone())) }
            let mut bad_before = vec![false; 2];
            for s in &out.steps {
                *t.outcomes.entry(s.class.clone()).or_insert(0) += 1;
                t.max_pendings = t.max_pendings.max(s.pendings);
                let finished = s.result == StepResult::Ok && !s.cancelled && s.judged;
                if finished {
                    t.ok_steps += 1;
                    if bad_before[s.who as usize] { t.ok_after_bad += 1 }
                    if let Some(d) = s.distance { t.distances.insert(d); }
                } else { bad_before[s.who as usize] = true }
                for (o, d) in &s.verdicts { t.viols.push((o, scn.render_upto(s.op + 1), d.clone())) }
            }
            if nontrivial(&out) {
                t.nontrivial = 1;
                t.sample = Some(format!("{} => {}", scn.render(), out.steps.iter().map(|s| format!("[{}] {}", s.class, s.transcript)).collect::<Vec<_>>().join(" ; ")));
            }
            (t, Some(out))
        }
    }
}

/// Reports a finished space.
fn seq_report(ctx: &Ctx, sp: &rpki_verif::Space, t: SeqTally, min_ok: u64, bound: &str) {
    sp.evals(t.evals);
    sp.nontrivial(t.nontrivial);
    for (k, v) in &t.outcomes { sp.outcomes_n(k, *v) }
    for m in t.machinery.iter().take(5) { ctx.machinery_error(m.clone()) }
    // scenarios share prefixes: one judged step is reported once
    let mut seen: BTreeSet<(&'static str, String)> = BTreeSet::new();
    let mut viols = t.viols;
    viols.sort_by(|a, b| (a.1.len(), &a.1, a.0).cmp(&(b.1.len(), &b.1, b.0)));   // shortest witness first
    if let Some(path) = std::env::var_os("C06_DUMP") {   // debugging aid: every violation of the sequence spaces, one per line
        use std::io::Write;
        if let Ok(mut f) = std::fs::OpenOptions::new().create(true).append(true).open(path) {
            for (o, w, _) in &viols { let _ = writeln!(f, "{o}\t{w}"); }
        }
    }
    // Referee: the first few violating sequences once more, each on a fresh OS
    // thread. A sequence that is judged fine there was spoilt by what its
    // worker thread had executed before — state kept per thread by the
    // library; it is reported as such, with the sequence that showed it.
    let mut refereed = 0;
    for (o, w, d) in viols {
        if !seen.insert((o, w.clone())) { continue }
        if refereed < 12 {
            refereed += 1;
            if let Some(scn) = Scn::parse(&w) {
                let again = seq_exec_fresh(&scn);
                let confirmed = match &again { Err(_) => o == "C06.step.no_panic", Ok(out) => o == "C06.api.accessors" && !out.api_faults.is_empty()
                    || out.steps.iter().any(|s| s.verdicts.iter().any(|(o2, _)| *o2 == o)) };
                if !confirmed {
                    ctx.fail("C06.history.independent", w, format!("executed first thing on a fresh thread this sequence is judged fine; executed on a thread that had run other sequences before: {o}: {d}"));
                    continue;
                }
            }
        }
        ctx.fail(o, w, d)
    }
    if t.ok_steps < min_ok { ctx.machinery_error(format!("vacuous: only {} client steps finished in a sequence space", t.ok_steps)) }
    if t.nontrivial == 0 { ctx.machinery_error(format!("vacuous: no non-trivial sequence in a sequence space ({bound})")) }
    if let Some(s) = t.sample { sp.sample_str(|| s) }
    sp.set("finished_client_steps_judged", json!(t.ok_steps));
    sp.set("finished_steps_after_a_rejected_or_abandoned_step", json!(t.ok_after_bad));
    sp.set("serial_distances_seen(stored state -> End of Data, mod 2^32)", json!(t.distances.iter().collect::<Vec<_>>()));
    sp.set("max_pendings_of_one_step", json!(t.max_pendings));
    sp.done(true, bound);
}

const DELTAS: [u32; 7] = [1, 2, 0x7FFF_FFFF, 0x8000_0000, 0x8000_0001, 0xFFFF_FFFE, 0xFFFF_FFFF];
const BASES: [u32; 4] = [1000, 0xFFFF_FFFF, 0, 0x7FFF_FFFF];

/// What the source may do between two client steps: nothing; one move by
/// each delta as {same session, diff base kept, data changed / unchanged},
/// {same session, diff bases dropped}, {new session}; a new session with the
/// SAME serial (data changed / unchanged).
fn single_gaps() -> Vec<Vec<SOp>> {
    let mut v: Vec<Vec<SOp>> = vec![vec![]];
    for d in DELTAS {
        v.push(vec![SOp::Jump { delta: d, keep: true, new_session: false, change: true }]);
        v.push(vec![SOp::Jump { delta: d, keep: true, new_session: false, change: false }]);
        v.push(vec![SOp::Jump { delta: d, keep: false, new_session: false, change: true }]);
        v.push(vec![SOp::Jump { delta: d, keep: false, new_session: true, change: true }]);
    }
    v.push(vec![SOp::Jump { delta: 0, keep: false, new_session: true, change: true }]);
    v.push(vec![SOp::Jump { delta: 0, keep: false, new_session: true, change: false }]);
    v
}

/// Two moves between two client steps (same session, diff bases kept, data
/// changed both times): the distance is the sum, the diff spans two states.
fn double_gaps() -> Vec<Vec<SOp>> {
    let mut v = Vec::new();
    for a in DELTAS { for b in DELTAS {
        v.push(vec![SOp::Jump { delta: a, keep: true, new_session: false, change: true }, SOp::Jump { delta: b, keep: true, new_session: false, change: true }]);
    }}
    v
}

/// The follow-up gaps of the smaller products: nothing, the ordinary +1, half
/// the circle, one back, a new session.
fn few_gaps() -> Vec<Vec<SOp>> {
    vec![vec![],
        vec![SOp::Jump { delta: 1, keep: true, new_session: false, change: true }],
        vec![SOp::Jump { delta: 0x8000_0000, keep: true, new_session: false, change: true }],
        vec![SOp::Jump { delta: 0xFFFF_FFFF, keep: true, new_session: false, change: true }],
        vec![SOp::Jump { delta: 1, keep: false, new_session: false, change: true }],
        vec![SOp::Jump { delta: 1, keep: false, new_session: true, change: true }]]
}

fn rounds(gaps: &[&Vec<SOp>]) -> Vec<SOp> {
    let mut ops = Vec::new();
    for g in gaps { ops.extend_from_slice(g); ops.push(SOp::Step(0)); }
    ops
}

/// `rtr.serial_distance`.
fn distance_space(ctx: &Ctx, thorough: bool) {
    let sp = ctx.space("rtr.serial_distance",
        "every sequence root . (gap . client step) x 3 executed in full on the real Client and Server (no state merging): the source's root serial is 1000, 2^32-1, 0 or 2^31-1; a gap is nothing, or one move of the serial by +1, +2, +2^31-1, +2^31, +2^31+1, -2, -1 (mod 2^32; so also across 0 and across 2^31, forwards and BACKWARDS) in the same session with the diff base kept and the data changed or unchanged, or with all diff bases dropped, or into a new session, or a new session with the same serial; or two such moves (49 pairs, diff bases kept: the answer spans two states) [quick: pairs in the first or the second gap at root serial 1000; thorough: in the first two gaps at every root]; client initial version/proxy limit, public route (step / update+apply / reset+apply), client without state at the root and diff style (net / chained) vary on smaller products; sequences in which the source would use one (session, serial) for two data sets are left out; EVERY finished step of a sequence is judged (state == End of Data state, data == the source's set for that state, timing) — the follow-up steps show what a step left behind; non-trivial = sequences with at least two finished steps of which one adopted a state at a serial distance other than 0 or +1 in the same session");
    let singles = single_gaps();
    let doubles = double_gaps();
    let few = few_gaps();
    let mut wide: Vec<Vec<SOp>> = singles.clone(); wide.extend(doubles.iter().cloned());
    let mut scns: Vec<Scn> = Vec::new();
    let mk = |base: u32, style: Style, civ: u8, limit: u8, route: Route, current: bool, link: Transport, ops: Vec<SOp>| Scn {
        space: "dist", base, style, order: Order::Grouped, link, clients: vec![SClient { civ, limit, route, current }], ops, fail: None, cont: Cont::Reconnect, shift: 0 };
    // (1) the main product: version 2, step(), roomy pipes, client current at the root
    for &base in &BASES {
        let styles: &[Style] = if thorough { &[Style::Net, Style::Chained] } else { &[Style::Net] };
        for &style in styles {
            if thorough {
                for a in &wide { for b in &wide { for c in &singles { scns.push(mk(base, style, 2, 2, Route::Step, true, Transport::Roomy, rounds(&[a, b, c]))) } } }
            } else if base == BASES[0] {
                for a in &wide { for b in &singles { for c in &singles { scns.push(mk(base, style, 2, 2, Route::Step, true, Transport::Roomy, rounds(&[a, b, c]))) } } }
                for a in &singles { for b in &doubles { for c in &singles { scns.push(mk(base, style, 2, 2, Route::Step, true, Transport::Roomy, rounds(&[a, b, c]))) } } }
            } else {
                for a in &singles { for b in &singles { for c in &singles { scns.push(mk(base, style, 2, 2, Route::Step, true, Transport::Roomy, rounds(&[a, b, c]))) } } }
            }
        }
    }
    // (2) the other version configurations, routes, a client without state, the
    //     chained style (quick) and a narrow pipe: single gaps twice, then a few
    let mut variants: Vec<(u8, u8, Route, bool, Style, Transport)> = Vec::new();
    for civ in 0..=2u8 { for limit in 0..=2u8 { if (civ, limit) != (2, 2) { variants.push((civ, limit, Route::Step, true, Style::Net, Transport::Roomy)) } } }
    variants.push((2, 2, Route::UpdateApply, true, Style::Net, Transport::Roomy));
    variants.push((2, 2, Route::ResetApply, true, Style::Net, Transport::Roomy));
    variants.push((1, 2, Route::ResetApply, true, Style::Net, Transport::Roomy));
    variants.push((2, 2, Route::Step, false, Style::Net, Transport::Roomy));
    variants.push((2, 2, Route::Step, true, Style::Chained, Transport::Roomy));
    variants.push((2, 2, Route::Step, true, Style::Net, Transport::S7));
    for &(civ, limit, route, current, style, link) in &variants {
        let bases: &[u32] = if thorough { &BASES } else { &BASES[..2] };
        for &base in bases {
            let third: &Vec<Vec<SOp>> = if thorough { &singles } else { &few };
            for a in &singles { for b in &singles { for c in third { scns.push(mk(base, style, civ, limit, route, current, link, rounds(&[a, b, c]))) } } }
        }
    }
    let before = scns.len();
    scns.retain(|s| !s.reuses_a_state());
    let left_out = before - scns.len();
    let tally = scns.par_iter().map(|scn| seq_run(scn, |out| {
        let fin: Vec<&SeqStep> = out.steps.iter().filter(|s| s.result == StepResult::Ok && !s.cancelled && s.judged).collect();
        fin.len() >= 2 && fin.iter().any(|s| s.distance.is_some_and(|d| d > 1))
    }).0).reduce(SeqTally::default, |mut a, b| { a.absorb(b); a });
    sp.set("sequences_left_out(source would reuse a state)", json!(left_out));
    sp.set("deltas", json!(DELTAS)); sp.set("root_serials", json!(BASES));
    sp.set("gaps(single, double)", json!([singles.len(), doubles.len()]));
    let n = scns.len();
    seq_report(ctx, &sp, tally, 1000, &format!("{n} sequences of 3 rounds, every one executed"));
}

/// `rtr.two_clients`.
fn pair_space(ctx: &Ctx, thorough: bool) {
    let len = if thorough { 5 } else { 4 };
    let sp = ctx.space("rtr.two_clients",
        "two real clients A and B, each over its own connection (own proxy, own pipes) to ONE real Server::run with one NotifySender and one source, on one thread: every sequence of length 4 [thorough: 5] over {source update with the diff base kept; with all diff bases dropped; into a new session; notify; A steps; B steps; A and B step concurrently (join!, interleaved at every await point) ; A's step abandoned at its 1st / 3rd Pending} that contains a client step, for the initial versions (A, B) in 0..2 x 0..2, A current or without state at the root, B current, over roomy pipes and a 7-octet server->client pipe; every finished step of either client is judged by the three clauses against the End of Data it consumed; non-trivial = sequences in which both clients finished a step that changed their state or data");
    let alphabet = [
        SOp::Jump { delta: 1, keep: true, new_session: false, change: true },
        SOp::Jump { delta: 1, keep: false, new_session: false, change: true },
        SOp::Jump { delta: 1, keep: false, new_session: true, change: true },
        SOp::Notify, SOp::Step(0), SOp::Step(1), SOp::Both, SOp::Cancel(0, 1), SOp::Cancel(0, 3),
    ];
    let mut seqs: Vec<Vec<SOp>> = vec![vec![]];
    for _ in 0..len {
        let mut next = Vec::new();
        for s in &seqs { for a in alphabet { let mut t = s.clone(); t.push(a); next.push(t) } }
        seqs = next;
    }
    seqs.retain(|s| s.iter().any(|o| o.is_step()));
    let mut scns: Vec<Scn> = Vec::new();
    for va in 0..=2u8 { for vb in 0..=2u8 { for a_current in [true, false] { for link in [Transport::Roomy, Transport::S7] {
        for (n, ops) in seqs.iter().enumerate() {
            // iteration order and route rotate over the sequences
            let order = ORDERS[(n + va as usize) % 3];
            let (ra, rb) = ([Route::Step, Route::UpdateApply][n % 2], [Route::Step, Route::UpdateApply, Route::ResetApply][(n / 2) % 3]);
            scns.push(Scn { space: "pair", base: 1000, style: Style::Chained, order, link,
                clients: vec![SClient { civ: va, limit: 2, route: ra, current: a_current }, SClient { civ: vb, limit: 2, route: rb, current: true }],
                ops: ops.clone(), fail: None, cont: [Cont::Reconnect, Cont::SameConn][(n / 6) % 2], shift: 0 });
        }
    }}}}
    let tally = scns.par_iter().map(|scn| seq_run(scn, |out| {
        (0..2u8).all(|w| out.steps.iter().any(|s| s.who == w && s.result == StepResult::Ok && !s.cancelled && s.judged && s.changed))
    }).0).reduce(SeqTally::default, |mut a, b| { a.absorb(b); a });
    let n = scns.len();
    seq_report(ctx, &sp, tally, 1000, &format!("{n} sequences of length {len}, every one executed"));
}

/// The gaps of the failure and cancellation spaces.
fn plain_gaps() -> Vec<Vec<SOp>> {
    vec![vec![],
        vec![SOp::Jump { delta: 1, keep: true, new_session: false, change: true }],
        vec![SOp::Jump { delta: 1, keep: false, new_session: false, change: true }],
        vec![SOp::Jump { delta: 1, keep: false, new_session: true, change: true }]]
}

/// `rtr.rejecting_target`.
fn failure_space(ctx: &Ctx, thorough: bool) {
    let sp = ctx.space("rtr.rejecting_target",
        "a target that rejects what it is handed: for every sequence root . (gap . client step) x 3 . step . step (gap: nothing / source update with the diff base kept / with the diff bases dropped / new session; client current or without state at the root; versions 2/2, 0/0, 2/1 [thorough: all nine]; routes step, update+apply, reset+apply) a clean run counts the push_update and apply calls, then EVERY one of them in turn returns an error, once (PayloadError Corrupt, DuplicateAnnounce [thorough: all four]); a rejected apply leaves the target's data untouched; afterwards the harness either retries on the same connection and reconnects when that fails, or reconnects at once, with client.state() and the target as the Client::new documentation prescribes; the rejected step is not judged (the property is conditional), every later finished step is: what the rejected step left behind (state or timing adopted, part of an update applied) must not make a later finished step end with other data than the source's; non-trivial = sequences in which the injected rejection fired and a later step finished");
    let gaps = plain_gaps();
    let versions: Vec<(u8, u8)> = if thorough { (0..=2u8).flat_map(|c| (0..=2u8).map(move |l| (c, l))).collect() } else { vec![(2, 2), (0, 0), (2, 1)] };
    let kinds: Vec<u8> = if thorough { vec![0, 1, 2, 3] } else { vec![0, 1] };
    let mut bases: Vec<Scn> = Vec::new();
    for &(civ, limit) in &versions { for route in ROUTES { for current in [true, false] {
        for a in &gaps { for b in &gaps { for c in &gaps {
            let mut ops = rounds(&[a, b, c]); ops.push(SOp::Step(0)); ops.push(SOp::Step(0));
            bases.push(Scn { space: "fail", base: 1000, style: Style::Net, order: ORDERS[(civ + limit) as usize % 3], link: Transport::Roomy,
                clients: vec![SClient { civ, limit, route, current }], ops, fail: None, cont: Cont::Reconnect, shift: 0 });
        }}}
    }}}
    let fired_then_ok = |out: &SeqOut| {
        let at = out.steps.iter().position(|s| s.fired.is_some());
        at.is_some_and(|p| out.steps[p + 1..].iter().any(|s| s.result == StepResult::Ok && !s.cancelled && s.judged))
    };
    let tally = bases.par_iter().map(|base| {
        let (mut t, clean) = seq_run(base, |_| false);
        if let Some(clean) = clean {
            let mut plans: Vec<(bool, u32)> = (0..clean.pushes).map(|n| (false, n)).collect();
            plans.extend((0..clean.applies).map(|n| (true, n)));
            for (apply, n) in plans { for &k in &kinds { for cont in [Cont::SameConn, Cont::Reconnect] {
                let scn = Scn { fail: Some((apply, n, k)), cont, ..base.clone() };
                let (t2, out) = seq_run(&scn, fired_then_ok);
                if out.is_some_and(|o| !o.steps.iter().any(|s| s.fired.is_some())) { t.machinery.push(format!("{}: the injected rejection never fired", scn.render())) }
                t.absorb(t2);
            }}}
        }
        t
    }).reduce(SeqTally::default, |mut a, b| { a.absorb(b); a });
    let n = tally.evals;
    seq_report(ctx, &sp, tally, 1000, &format!("{} sequences x every push_update / apply call of the clean run x {} errors x 2 continuations = {n} executions", bases.len(), kinds.len()));
}

/// `rtr.abandoned_step`.
fn cancel_space(ctx: &Ctx, thorough: bool) {
    let sp = ctx.space("rtr.abandoned_step",
        "a client step whose future is dropped while Pending, at EVERY await point: for every sequence root . (gap . client step) x 3 . step . step (gaps as in rtr.rejecting_target; client current or without state at the root) the step of round 1, 2 or 3 is polled until it has returned Pending k times and is then dropped, for k = 1, 2, ... until the step completes before the k-th Pending; transports: roomy pipes (await points between PDUs), server->client pipes of 16 and 7 octets (inside PDUs), client->server pipe of 7 octets (inside the query) [thorough: + 12-octet and 1-octet pipes]; versions 2/2, 1/1, 0/0, 2/0 [quick: narrow pipes with 2/2 and 1/1 only; thorough: + 2/1, 1/0; the 1-octet pipes with 2/2 and 1/1 only]; routes step and reset+apply; afterwards the client is stepped again on the same connection (reconnect when that fails) or reconnected at once with client.state() and the target; every later finished step is judged, except on a connection that is out of step with the server (a query had gone out before the step was abandoned; such steps are counted with the verdict they would get, class step:ok-on-desynchronised-connection, see the assumptions) — by the three clauses against the End of Data the client consumed in it; non-trivial = sequences in which the step really was dropped while Pending and a later step finished");
    let gaps: Vec<Vec<SOp>> = plain_gaps();
    let links: Vec<Transport> = if thorough { vec![Transport::Roomy, Transport::S16, Transport::S12, Transport::S7, Transport::C7, Transport::S1C1] }
        else { vec![Transport::Roomy, Transport::S16, Transport::S7, Transport::C7] };
    let versions: Vec<(u8, u8)> = if thorough { vec![(2, 2), (1, 1), (0, 0), (2, 0), (2, 1), (1, 0)] } else { vec![(2, 2), (1, 1), (0, 0), (2, 0)] };
    let mut bases: Vec<(Scn, usize)> = Vec::new();
    for &(civ, limit) in &versions { for &link in &links { for route in [Route::Step, Route::ResetApply] { for cont in [Cont::SameConn, Cont::Reconnect] { for current in [true, false] {
        // the narrow pipes multiply the await points: quick gives them the 2/2 and 1/1 configurations and a client with state only
        if !thorough && link != Transport::Roomy && (civ < 1 || limit < 1 || !current) { continue }
        // ... and the 1-octet pipes most of all (hundreds per step): 2/2 and 1/1, client with state
        if link == Transport::S1C1 && (civ != limit || civ < 1 || !current) { continue }
        for a in &gaps { for b in &gaps { for c in &gaps {
            let mut ops = rounds(&[a, b, c]); ops.push(SOp::Step(0)); ops.push(SOp::Step(0));
            let step_at: Vec<usize> = ops.iter().enumerate().filter(|(_, o)| o.is_step()).map(|(i, _)| i).collect();
            for r in 0..3 {
                bases.push((Scn { space: "cancel", base: 1000, style: Style::Net, order: ORDERS[(civ as usize + r) % 3], link,
                    clients: vec![SClient { civ, limit, route, current }], ops: ops.clone(), fail: None, cont, shift: 0 }, step_at[r]));
            }
        }}}
    }}}}}
    const K_MAX: u16 = 2000;
    let dropped_then_ok = |out: &SeqOut| {
        let at = out.steps.iter().position(|s| s.cancelled);
        at.is_some_and(|p| out.steps[p + 1..].iter().any(|s| s.result == StepResult::Ok && !s.cancelled && s.judged))
    };
    let tally = bases.par_iter().map(|(base, at)| {
        let mut t = SeqTally::default();
        for k in 1..=K_MAX {
            let mut scn = base.clone();
            scn.ops[*at] = SOp::Cancel(0, k);
            let (t2, out) = seq_run(&scn, dropped_then_ok);
            t.absorb(t2);
            let dropped = out.as_ref().is_some_and(|o| o.steps.iter().any(|s| s.cancelled));
            if !dropped { break }
            if k == K_MAX { t.machinery.push(format!("{}: step still pending after {K_MAX} polls", scn.render())) }
        }
        t
    }).reduce(SeqTally::default, |mut a, b| { a.absorb(b); a });
    let n = tally.evals;
    seq_report(ctx, &sp, tally, 1000, &format!("{} (sequence, abandoned step) pairs x every await point of that step = {n} executions", bases.len()));
}

/// What the source does between two client steps in `rtr.unmoved_state`.
fn unmoved_gaps(thorough: bool) -> Vec<Vec<SOp>> {
    let up = |keep: bool, new_session: bool, change: bool| SOp::Jump { delta: 1, keep, new_session, change };
    let mut v = vec![
        vec![],
        vec![SOp::Retime],
        vec![SOp::Hide],
        vec![SOp::Reorder],
        vec![SOp::Notify],
        vec![SOp::Retime, SOp::Notify],
        vec![up(true, false, true)],
        vec![up(true, false, false)],
        vec![up(false, false, true)],
        // a new session that begins at the very serial the old one stood at, with the same data: only the session id and the timing differ
        vec![SOp::Jump { delta: 0, keep: false, new_session: true, change: false }, SOp::Retime],
    ];
    if thorough {
        v.push(vec![SOp::Retime, SOp::Hide]);
        v.push(vec![SOp::Retime, SOp::Reorder]);
        v.push(vec![up(true, false, true), SOp::Retime]);
        v.push(vec![SOp::Retime, up(true, false, false)]);
        v.push(vec![SOp::Hide, SOp::Notify]);
        v.push(vec![up(false, true, true)]);
    }
    v
}

/// `rtr.unmoved_state`.
///
/// Everywhere else what the source reports changes only together with its
/// state: another set, another serial, and the timing triple that goes with
/// the set. Here the source's answers change while session and serial stay:
/// other timing values, diffs no longer (or again) available, another
/// iteration order. And the client meets them on a connection that has
/// already carried completed exchanges ending at that very state as well as
/// on a new connection to the same server. Whatever client, connection or
/// server keep from one exchange to the next (an End of Data kept for
/// "the same state", timing adopted only when the state moves, a remembered
/// "no diff from there") shows in the next finished step: the oracles are the
/// three clauses, the timing being the source's at the time of the exchange.
fn unmoved_space(ctx: &Ctx, thorough: bool) {
    let rounds_n = 3;
    let sp = ctx.space("rtr.unmoved_state",
        "what the source REPORTS changes while its state (session, serial) stays: every sequence root . (gap . client op) x 3 [thorough: + x 4 over the quick gaps for six roots] executed in full on the real Client and one real Server::run (no state merging); gap = nothing / T the source reports other timing values from now on / H the source stops serving diffs, its current state included (again: resumes) / O its iterators yield the items in the next of the three orders / N notify / T.N / update +1 with the diff base kept, data changed / the same, data unchanged / update +1 with the diff bases dropped / a new session at the SAME serial with the same data and other timing [thorough: + T.H, T.O, update.T, T.update(data unchanged), H.N, a new session at serial +1]; client op = a step on the connection as it is (ONE connection carries all the exchanges as long as none fails and the peer does not hang up) / the client gives the connection up and comes back over a new one to the same Server::run with client.state() and the target, then steps; roots: client initial version/proxy limit 2/2, 1/1, 0/0, 2/1, 1/2 [thorough: all nine] x route step(), update()+apply(), reset()+apply() x client current or without state at the root; the timing triple that goes with a set is shifted so that the root's is neither the client's default nor one that makes the peer hang up; EVERY finished step is judged: state == End of Data state, data == the source's set for that state, timing (version >= 1) == what the source reports at the time of the exchange; non-trivial = sequences with a finished step on a connection that had completed an exchange before, which left the client's state and data where they were although the source had changed its timing, its diff availability or its iteration order since that client's previous step");
    let gaps = unmoved_gaps(thorough);
    let quick_gaps = unmoved_gaps(false);
    let versions: Vec<(u8, u8)> = if thorough { (0..=2u8).flat_map(|c| (0..=2u8).map(move |l| (c, l))).collect() } else { vec![(2, 2), (1, 1), (0, 0), (2, 1), (1, 2)] };
    // a round: the gap, then the step on the same connection or after a voluntary reconnect
    let round_menu = |gaps: &[Vec<SOp>]| -> Vec<Vec<SOp>> {
        let mut m = Vec::new();
        for g in gaps { for reconnect in [false, true] {
            let mut r = g.clone();
            if reconnect { r.push(SOp::Reconnect(0)) }
            r.push(SOp::Step(0));
            m.push(r);
        }}
        m
    };
    // root timing: set 6 + 3 -> TIMINGS[1] (30, 100, 100)
    const SHIFT: u8 = 3;
    // The sequences are numbered, not stored: sequence i of a root with menu
    // m and r rounds takes round (i / m^k) % m as its k-th round from the end.
    struct Root { n: usize, civ: u8, limit: u8, route: Route, current: bool, wide: bool, rounds: usize }
    let menus = [round_menu(&quick_gaps), round_menu(&gaps)];
    let count = |r: &Root| menus[r.wide as usize].len().pow(r.rounds as u32);
    let scn_of = |r: &Root, mut i: usize| -> Scn {
        let menu = &menus[r.wide as usize];
        let mut picks = vec![0usize; r.rounds];
        for k in (0..r.rounds).rev() { picks[k] = i % menu.len(); i /= menu.len(); }
        let mut ops = Vec::new();
        for p in picks { ops.extend_from_slice(&menu[p]) }
        Scn { space: "unmoved", base: 1000, style: [Style::Net, Style::Chained][r.n % 2], order: ORDERS[r.n % 3], link: Transport::Roomy,
            clients: vec![SClient { civ: r.civ, limit: r.limit, route: r.route, current: r.current }], ops, fail: None, cont: Cont::Reconnect, shift: SHIFT }
    };
    let mut roots: Vec<Root> = Vec::new();
    for &(civ, limit) in &versions { for route in ROUTES { for current in [true, false] {
        roots.push(Root { n: roots.len(), civ, limit, route, current, wide: true, rounds: rounds_n });
    }}}
    let three_roots = roots.len();
    if thorough {
        for (civ, limit, route, current) in [(2u8, 2u8, Route::Step, true), (1, 1, Route::Step, true), (2, 1, Route::UpdateApply, true), (2, 2, Route::ResetApply, true),
                                             (1, 2, Route::Step, false), (0, 0, Route::Step, true)] {
            roots.push(Root { n: roots.len(), civ, limit, route, current, wide: false, rounds: 4 });
        }
    }
    let four_n: usize = roots[three_roots..].iter().map(count).sum();
    let tasks: Vec<(usize, usize)> = roots.iter().enumerate().flat_map(|(r, root)| (0..count(root)).map(move |i| (r, i))).collect();
    // what the source changed without moving since the client's previous step
    let quiet_before = |scn: &Scn, op: usize| -> (String, bool) {
        let from = scn.ops[..op].iter().rposition(|o| o.is_step()).map(|p| p + 1).unwrap_or(0);
        let mut letters = String::new();
        let mut moved = false;
        for o in &scn.ops[from..op] {
            match o {
                SOp::Retime => if !letters.contains('T') { letters.push('T') },
                SOp::Hide => if letters.contains('H') { letters = letters.replace('H', "") } else { letters.push('H') },
                SOp::Reorder => if !letters.contains('O') { letters.push('O') },
                SOp::Jump { .. } => moved = true,
                _ => {}
            }
        }
        (letters, moved)
    };
    let tally = tasks.par_iter().map(|&(r, i)| {
        let scn = &scn_of(&roots[r], i);
        if scn.reuses_a_state() { return SeqTally::default() }
        let (mut t, out) = seq_run(scn, |out| out.steps.iter().any(|s| {
            s.result == StepResult::Ok && !s.cancelled && s.judged && s.reused && !s.changed && !quiet_before(scn, s.op).0.is_empty()
        }));
        if let Some(out) = out {
            for s in out.steps.iter().filter(|s| s.result == StepResult::Ok && !s.cancelled && s.judged) {
                let (letters, moved) = quiet_before(scn, s.op);
                let class = format!("finished:{}:{}:source-{}:reports-changed={}",
                    if s.reused { "connection-used-before" } else { "first-exchange-of-the-connection" },
                    if s.changed { "client-moved" } else { "client-state-and-data-as-before" },
                    if moved { "moved" } else { "state-unmoved" },
                    if letters.is_empty() { "-" } else { letters.as_str() });
                *t.outcomes.entry(class).or_insert(0) += 1;
            }
        }
        t
    }).reduce(SeqTally::default, |mut a, b| { a.absorb(b); a });
    sp.set("sequences_left_out(source would reuse a state)", json!(tasks.len() as u64 - tally.evals));
    sp.set("gaps", json!(gaps.iter().map(|g| if g.is_empty() { "-".to_string() } else { g.iter().map(|o| o.render()).collect::<Vec<_>>().join(".") }).collect::<Vec<_>>()));
    sp.set("client_ops", json!(["SA (step on the connection as it is)", "RA.SA (voluntary reconnect to the same Server::run, then step)"]));
    sp.set("version_configs(civ, limit)", json!(versions));
    sp.set("timing_triples", json!(TIMINGS.iter().map(|t| format!("{t:?}")).collect::<Vec<_>>()));
    sp.set("root_timing", json!(format!("{:?}", timing_of(SEQ_ROOT_SET.wrapping_add(SHIFT) % TIMINGS.len() as u8))));
    let total = tally.evals;
    seq_report(ctx, &sp, tally, 1000, &if thorough { format!("{total} sequences: every one of 3 rounds over {} gaps x 2 client ops from {three_roots} roots and every one of 4 rounds over {} gaps x 2 client ops from 6 roots ({four_n}), every one executed", gaps.len(), quick_gaps.len()) }
        else { format!("{total} sequences of 3 rounds over {} gaps x 2 client ops from {three_roots} roots, every one executed", gaps.len()) });
}

// ======================================================================
// The construction-route space
// ======================================================================
//
// Everywhere else the source's items are built by the ordinary constructors
// (`entry_payload`) and the client's data is compared in MODEL terms
// (`Entry`: what the accessors read). Two things stay invisible that way:
// a value that came into being by ANOTHER public route (the crate's
// `Arbitrary` impls, serde, `FromStr`, `From` impls, relaxed / saturating
// constructors, struct literals from public fields, a SLURM file, a PDU
// turned back into a payload) may be represented differently inside, and
// "the client holds exactly the source's data" is, for every user of the
// crate, a statement about the crate's own `==`, `Hash` and `Ord` (the
// payload types exist "to use them as keys in collections to be able to
// perform difference processing"). Here both are dimensions: every item of
// a boundary-dense universe is made by every route, served by the real
// server, and what the real client hands to its target — kept in a `Vec`
// under `==`, a `HashSet` and a `BTreeSet` of the crate's `Payload` — must be
// the source's items by `==` (both ways), `Hash`, `Ord` and membership in
// each of the three, besides the model comparison of the other spaces.

/// The route by which the source's values were made.
#[derive(Clone, Copy, Debug, PartialEq, Eq, PartialOrd, Ord, Hash)]
enum Made {
    /// `Prefix::new`, `MaxLenPrefix::new(.., Some(max))`, `Asn::from_u32`, `Payload::origin` / `router_key` / `aspa`
    /// (the route of all other spaces; the control)
    Ctor,
    /// `Prefix::new_v4` / `new_v6`, `MaxLenPrefix::from(prefix)` (no max-len) where max-len = prefix length, `Asn::from(u32)`,
    /// `KeyIdentifier::try_from(&[u8])`, `RouterKeyInfo::try_from(Vec<u8>)`, `RouteOrigin::new` ... `Payload::from(..)`
    Family,
    /// `Prefix::new_relaxed` / `new_v4_relaxed` / `new_v6_relaxed` given an address with all host bits set,
    /// `MaxLenPrefix::saturating_new` given 255 / 0 where the family maximum / the prefix length is meant; `Aspa::withdraw()` for an empty provider set
    Relaxed,
    /// `MaxLenPrefix::from_str` ("a/l-m", "a/l"), `Prefix::from_str_relaxed`, `Asn::from_str` ("AS1", "as1", "1"), `KeyIdentifier::from_str` (upper / lower case hex)
    Text,
    /// `Deserialize` from JSON text: `Prefix`, `Asn`, `KeyIdentifier`
    Serde,
    /// `Deserialize` from a `serde_json::Value`: `Prefix`, `KeyIdentifier`, `Asn::deserialize_from_any` / `deserialize_from_str` / the derived impl
    SerdeValue,
    /// struct literals from the public fields (`RouteOrigin { .. }`, `RouterKey { .. }`, `Aspa { .. }`, `Payload::Origin(..)`), key info a view
    /// into a larger `Bytes` or a static one, `ProviderAsns::empty()`
    Literal,
    /// a SLURM file (JSON text) through `SlurmFile::from_str` and `assertions.iter_payload()`
    Slurm,
    /// what a cache that is itself an RTR client would serve: `pdu::Payload::new(..).to_payload()`
    Relay,
    /// the components through their `Arbitrary` impls (`Prefix`, `MaxLenPrefix`, `Asn`, `KeyIdentifier`, `RouterKeyInfo`, `ProviderAsns`), assembled by the constructors
    ArbParts,
    /// `RouteOrigin::arbitrary`, `RouterKey::arbitrary`, `Aspa::arbitrary`
    ArbItem,
    /// `Payload::arbitrary`
    ArbPayload,
}

const MADE: [Made; 12] = [Made::Ctor, Made::Family, Made::Relaxed, Made::Text, Made::Serde, Made::SerdeValue, Made::Literal, Made::Slurm,
    Made::Relay, Made::ArbParts, Made::ArbItem, Made::ArbPayload];

impl Made {
    fn name(self) -> &'static str {
        match self { Made::Ctor => "ctor", Made::Family => "family", Made::Relaxed => "relaxed", Made::Text => "text", Made::Serde => "serde",
            Made::SerdeValue => "serde-value", Made::Literal => "literal", Made::Slurm => "slurm", Made::Relay => "relay",
            Made::ArbParts => "arbitrary-parts", Made::ArbItem => "arbitrary-item", Made::ArbPayload => "arbitrary-payload" }
    }
    /// `Arbitrary` promises no mapping from octets to values: what comes out
    /// is the source's item whatever it is.
    fn is_arbitrary(self) -> bool { matches!(self, Made::ArbParts | Made::ArbItem | Made::ArbPayload) }
}

/// Key info is always a prefix of this pattern (no two neighbouring octets
/// equal, none zero), so that a static buffer can stand behind it.
const fn info_pattern() -> [u8; 300] {
    let mut a = [0u8; 300];
    let mut i = 0;
    while i < 300 { a[i] = (i * 7 % 251 + 1) as u8; i += 1; }
    a
}
static INFO_PATTERN: [u8; 300] = info_pattern();

/// The universe of the space, in model terms, grouped by type:
/// * origins: EVERY prefix length of both families (0..=32, 0..=128), the
///   address all ones down to the prefix length (at lengths 0, 1, maximum-1,
///   maximum also 5A5A..5B: top bit clear, lowest bit set), max-len = prefix
///   length, the family maximum and half-way; AS 0, 2^32-1 and an ordinary
///   one rotating over them;
/// * router keys: SKI all zero / all ones / mixed, AS 0 / 2^32-1 / ordinary,
///   key info of 0, 1, 91 and 300 octets;
/// * ASPA: customers 0, 1, 2^32-2, 2^32-1 and two ordinary ones with no, one
///   (AS 0; AS 2^32-1), three, five and seventeen providers.
fn route_universe() -> Vec<Entry> {
    let mut v: Vec<Entry> = Vec::new();
    let asn_of = |len: u8, k: usize| [0u32, u32::MAX, 64496 + len as u32][(len as usize + k) % 3];
    let maxes = |len: u8, fmax: u8| { let mut m = vec![len, len + (fmax - len) / 2, fmax]; m.dedup(); m };
    for len in 0..=32u8 {
        let pats: &[u32] = if matches!(len, 0 | 1 | 31 | 32) { &[u32::MAX, 0x5A5A_5A5B] } else { &[u32::MAX] };
        for (pi, pat) in pats.iter().enumerate() {
            let mask = if len == 0 { 0 } else { u32::MAX << (32 - len as u32) };
            for (k, max) in maxes(len, 32).into_iter().enumerate() {
                v.push(Entry::Origin { addr: IpAddr::V4(Ipv4Addr::from(pat & mask)), len, max, asn: asn_of(len, k + pi) });
            }
        }
    }
    for len in 0..=128u8 {
        let pats: &[u128] = if matches!(len, 0 | 1 | 127 | 128) { &[u128::MAX, 0x5A5A_5A5A_5A5A_5A5A_5A5A_5A5A_5A5A_5A5B] } else { &[u128::MAX] };
        for (pi, pat) in pats.iter().enumerate() {
            let mask = if len == 0 { 0 } else { u128::MAX << (128 - len as u32) };
            for (k, max) in maxes(len, 128).into_iter().enumerate() {
                v.push(Entry::Origin { addr: IpAddr::V6(Ipv6Addr::from(pat & mask)), len, max, asn: asn_of(len, k + pi) });
            }
        }
    }
    let mut asc = [0u8; 20];
    for (i, b) in asc.iter_mut().enumerate() { *b = (i as u8) * 13 + 1 }
    let skis = [[0u8; 20], [0xFF; 20], KEY_SKI, asc];
    for i in 0..8usize {
        v.push(Entry::Key { ski: skis[i % 4], asn: [0, u32::MAX, 64498][i % 3], info: INFO_PATTERN[..[0usize, 300, 91, 1][i % 4]].to_vec() });
    }
    let provider_lists: [Vec<u32>; 6] = [vec![], vec![0], vec![u32::MAX], vec![0, u32::MAX, 1], vec![64501, 64502, 64504, 64505, 64506],
        { let mut p: Vec<u32> = (0..15).map(|i| 65000 + 3 * i).collect(); p.insert(0, u32::MAX); p.push(0); p }];
    for (i, c) in [0u32, 1, 64500, 64510, u32::MAX - 1, u32::MAX].into_iter().enumerate() {
        v.push(Entry::Aspa { customer: c, providers: provider_lists[(i + 1) % 6].clone() });
    }
    let mut seen: BTreeSet<Entry> = BTreeSet::new();
    v.retain(|e| seen.insert(e.clone()));
    v
}

fn es<E: std::fmt::Display>(e: E) -> String { e.to_string() }

/// The address with every host bit set (the relaxed routes must clear them).
fn host_ones(addr: IpAddr, len: u8) -> IpAddr {
    match addr {
        IpAddr::V4(a) => IpAddr::V4(Ipv4Addr::from(u32::from(a) | if len >= 32 { 0 } else { u32::MAX >> len })),
        IpAddr::V6(a) => IpAddr::V6(Ipv6Addr::from(u128::from(a) | if len >= 128 { 0 } else { u128::MAX >> len })),
    }
}

fn hex_of(b: &[u8], upper: bool) -> String {
    b.iter().map(|x| if upper { format!("{x:02X}") } else { format!("{x:02x}") }).collect()
}

/// The octets the `Arbitrary` routes are fed, aimed at the entry (see
/// `Made::is_arbitrary`: aimed, not promised).
#[cfg(feature = "with-arbitrary")]
mod arb_octets {
    use super::*;
    /// `FamilyAndLen`: a bool (lowest bit; true = IPv4), then an octet taken
    /// modulo 33 / 129 (so every multiple that fits is used in turn); `Bits`:
    /// a little-endian u128, for IPv4 the low 32 bits (whatever stands above
    /// them is shifted out). Host bits all set.
    pub fn prefix(addr: IpAddr, len: u8, idx: usize) -> Vec<u8> {
        let (v4, raw, modulus) = match host_ones(addr, len) {
            IpAddr::V4(a) => (true, (0xDEAD_BEEF_0BAD_F00D_5EED_FACEu128 << 32) | u32::from(a) as u128, 33u16),
            IpAddr::V6(a) => (false, u128::from(a), 129u16),
        };
        let wraps = (255 - len as u16) / modulus;
        let len_octet = (len as u16 + modulus * (idx as u16 % (wraps + 1))) as u8;
        let mut b = vec![match (v4, idx % 2) { (true, 0) => 0x01, (true, _) => 0xFF, (false, 0) => 0x00, (false, _) => 0xFE }, len_octet];
        b.extend_from_slice(&raw.to_le_bytes());
        b
    }
    /// `Option<u8>`: none where max-len = prefix length (every other time),
    /// out-of-range values where the family maximum / the prefix length is
    /// meant (every third time: `saturating_new` curtails them).
    pub fn max_len(len: u8, max: u8, fmax: u8, idx: usize) -> Vec<u8> {
        if max == len && idx % 2 == 1 { vec![0] }
        else if max == fmax && idx % 3 == 0 { vec![1, 255] }
        else if max == len && idx % 3 == 0 { vec![3, 0] }
        else { vec![1, max] }
    }
    pub fn asn(asn: u32) -> Vec<u8> { asn.to_le_bytes().to_vec() }
    /// A length (usize = little-endian u64, taken modulo the maximum + 1:
    /// every other time one modulus is added) and the octets.
    pub fn key_info(info: &[u8], idx: usize) -> Vec<u8> {
        let modulus = rpki::rtr::pdu::RouterKey::max_key_info_size() as u64 + 1;
        let mut b = (info.len() as u64 + if idx % 2 == 1 { modulus } else { 0 }).to_le_bytes().to_vec();
        b.extend_from_slice(info);
        b
    }
    /// A count (modulo 65535) and the AS numbers as they stand on the wire.
    pub fn providers(p: &[u32], idx: usize) -> Vec<u8> {
        let mut b = (p.len() as u64 + if idx % 2 == 1 { 65535 * 3 } else { 0 }).to_le_bytes().to_vec();
        for x in p { b.extend_from_slice(&x.to_be_bytes()) }
        b
    }
    /// The selector of a derived three-variant enum.
    pub fn variant(i: u32) -> Vec<u8> { [0u32, 0x5555_5556, 0xAAAA_AAAB][i as usize].to_le_bytes().to_vec() }
}

#[cfg(feature = "with-arbitrary")]
fn make_arbitrary(route: Made, idx: usize, e: &Entry) -> Result<Payload, String> {
    use arbitrary::{Arbitrary, Unstructured};
    use arb_octets as ao;
    fn arb<'a, T: Arbitrary<'a>>(b: &'a [u8]) -> Result<T, String> { T::arbitrary(&mut Unstructured::new(b)).map_err(es) }
    let cat = |parts: &[Vec<u8>]| parts.concat();
    match e {
        Entry::Origin { addr, len, max, asn } => {
            let fmax = if addr.is_ipv4() { 32 } else { 128 };
            let (p, m, a) = (ao::prefix(*addr, *len, idx), ao::max_len(*len, *max, fmax, idx), ao::asn(*asn));
            match route {
                Made::ArbParts => {
                    let mlp = if idx % 2 == 0 { arb::<MaxLenPrefix>(&cat(&[p, m]))? }
                        else { MaxLenPrefix::new(arb::<Prefix>(&p)?, Some(*max)).map_err(es)? };
                    Ok(Payload::origin(mlp, arb::<Asn>(&a)?))
                }
                Made::ArbItem => Ok(Payload::Origin(arb::<rpki::rtr::payload::RouteOrigin>(&cat(&[p, m, a]))?)),
                _ => arb::<Payload>(&cat(&[ao::variant(0), p, m, a])),
            }
        }
        Entry::Key { ski, asn, info } => {
            let (s, a, i) = (ski.to_vec(), ao::asn(*asn), ao::key_info(info, idx));
            match route {
                Made::ArbParts => Ok(Payload::router_key(arb::<rpki::crypto::KeyIdentifier>(&s)?, arb::<Asn>(&a)?, arb::<RouterKeyInfo>(&i)?)),
                Made::ArbItem => Ok(Payload::RouterKey(arb::<rpki::rtr::payload::RouterKey>(&cat(&[s, a, i]))?)),
                _ => arb::<Payload>(&cat(&[ao::variant(1), s, a, i])),
            }
        }
        Entry::Aspa { customer, providers } => {
            let (c, p) = (ao::asn(*customer), ao::providers(providers, idx));
            match route {
                Made::ArbParts => Ok(Payload::aspa(arb::<Asn>(&c)?, arb::<ProviderAsns>(&p)?)),
                Made::ArbItem => Ok(Payload::Aspa(arb::<rpki::rtr::payload::Aspa>(&cat(&[c, p]))?)),
                _ => arb::<Payload>(&cat(&[ao::variant(2), c, p])),
            }
        }
    }
}

#[cfg(not(feature = "with-arbitrary"))]
fn make_arbitrary(_route: Made, _idx: usize, _e: &Entry) -> Result<Payload, String> { Err("the harness is built without its feature with-arbitrary".into()) }

fn slurm_doc(e: &Entry, idx: usize) -> String {
    use base64::Engine;
    let b64 = |b: &[u8]| base64::engine::general_purpose::URL_SAFE_NO_PAD.encode(b);
    let (mut p, mut k, mut a) = (String::new(), String::new(), String::new());
    match e {
        Entry::Origin { addr, len, max, asn } => p = if max == len && idx % 2 == 1 { format!(r#"{{"asn": {asn}, "prefix": "{addr}/{len}"}}"#) }
            else { format!(r#"{{"prefix": "{addr}/{len}", "maxPrefixLength": {max}, "asn": {asn}, "comment": "item {idx}"}}"#) },
        Entry::Key { ski, asn, info } => k = format!(r#"{{"asn": {asn}, "SKI": "{}", "routerPublicKey": "{}"}}"#, b64(ski), b64(info)),
        Entry::Aspa { customer, providers } => a = format!(r#"{{"customerAsn": {customer}, "providerAsns": {providers:?}}}"#),
    }
    format!(r#"{{"slurmVersion": 2, "validationOutputFilters": {{"prefixFilters": [], "bgpsecFilters": [], "aspaFilters": []}},
        "locallyAddedAssertions": {{"prefixAssertions": [{p}], "bgpsecAssertions": [{k}], "aspaAssertions": [{a}]}}}}"#)
}

/// One item of the source, made by the route. `Err`: the route does not
/// yield this item (then the source does not hold it).
fn make_item(route: Made, idx: usize, e: &Entry) -> Result<Payload, String> {
    use std::str::FromStr;
    use rpki::crypto::KeyIdentifier;
    use rpki::rtr::payload::{Aspa, RouteOrigin, RouterKey};
    use serde_json::Value;
    if route.is_arbitrary() { return make_arbitrary(route, idx, e) }
    if route == Made::Ctor { return Ok(entry_payload(e.clone())) }
    if route == Made::Relay {
        let x = entry_payload(e.clone());
        return rpki::rtr::pdu::Payload::new(2, Action::Announce.into_flags(), x.as_ref()).to_payload().map(|(_, p)| p).map_err(|_| "to_payload() refused the PDU".to_string());
    }
    if route == Made::Slurm {
        let file = rpki::slurm::SlurmFile::from_str(&slurm_doc(e, idx)).map_err(es)?;
        let mut items: Vec<Payload> = file.assertions.iter_payload().collect();
        return if items.len() == 1 { Ok(items.remove(0)) } else { Err(format!("the file yields {} payload items", items.len())) };
    }
    let providers_of = |p: &[u32], asn: &dyn Fn(u32) -> Result<Asn, String>| -> Result<ProviderAsns, String> {
        let v: Result<Vec<Asn>, String> = p.iter().map(|x| asn(*x)).collect();
        ProviderAsns::try_from_iter(v?).map_err(es)
    };
    match e {
        Entry::Origin { addr, len, max, asn } => {
            let (addr, len, max, asn) = (*addr, *len, *max, *asn);
            let fmax = if addr.is_ipv4() { 32 } else { 128 };
            let strict_family = || match addr { IpAddr::V4(a) => Prefix::new_v4(a, len), IpAddr::V6(a) => Prefix::new_v6(a, len) }.map_err(es);
            let some_max = |p: Prefix| MaxLenPrefix::new(p, Some(max)).map_err(es);
            match route {
                Made::Family => {
                    let p = strict_family()?;
                    let mlp = if max == len && idx % 2 == 1 { MaxLenPrefix::from(p) } else { some_max(p)? };
                    Ok(Payload::from(RouteOrigin::new(mlp, Asn::from(asn))))
                }
                Made::Relaxed => {
                    let noisy = host_ones(addr, len);
                    let p = if idx % 2 == 0 { Prefix::new_relaxed(noisy, len) } else { match noisy {
                        IpAddr::V4(a) => Prefix::new_v4_relaxed(a, len), IpAddr::V6(a) => Prefix::new_v6_relaxed(a, len) } }.map_err(es)?;
                    let given = if max == fmax { 255 } else if max == len { 0 } else { max };
                    Ok(Payload::origin(MaxLenPrefix::saturating_new(p, Some(given)), Asn::from_u32(asn)))
                }
                Made::Text => {
                    let mlp = if idx % 3 == 0 { some_max(Prefix::from_str_relaxed(&format!("{}/{len}", host_ones(addr, len))).map_err(es)?)? }
                        else if max == len && idx % 2 == 1 { MaxLenPrefix::from_str(&format!("{addr}/{len}")).map_err(es)? }
                        else { MaxLenPrefix::from_str(&format!("{addr}/{len}-{max}")).map_err(es)? };
                    let a = Asn::from_str(&[format!("AS{asn}"), format!("as{asn}"), format!("{asn}")][idx % 3]).map_err(es)?;
                    Ok(Payload::origin(mlp, a))
                }
                Made::Serde => {
                    let p: Prefix = serde_json::from_str(&format!("\"{addr}/{len}\"")).map_err(es)?;
                    let a: Asn = serde_json::from_str(&format!("{asn}")).map_err(es)?;
                    Ok(Payload::origin(some_max(p)?, a))
                }
                Made::SerdeValue => {
                    let p: Prefix = serde_json::from_value(Value::String(format!("{addr}/{len}"))).map_err(es)?;
                    let a = match idx % 3 {
                        0 => Asn::deserialize_from_any(Value::from(asn)).map_err(es)?,
                        1 => Asn::deserialize_from_str(Value::String(format!("AS{asn}"))).map_err(es)?,
                        _ => serde_json::from_value::<Asn>(Value::from(asn)).map_err(es)?,
                    };
                    let mlp = if max == len && idx % 2 == 1 { MaxLenPrefix::new(p, None).map_err(es)? } else { some_max(p)? };
                    Ok(Payload::origin(mlp, a))
                }
                _ => {
                    let p = Prefix::new(addr, len).map_err(es)?;
                    let prefix = if max == len && idx % 2 == 1 { MaxLenPrefix::from(p) } else { some_max(p)? };
                    Ok(Payload::Origin(RouteOrigin { prefix, asn: asn.into() }))
                }
            }
        }
        Entry::Key { ski, asn, info } => {
            let asn = *asn;
            let plain_info = || RouterKeyInfo::new(info.clone().into()).map_err(es);
            match route {
                Made::Family => Ok(Payload::from(RouterKey::new(KeyIdentifier::try_from(&ski[..]).map_err(es)?, Asn::from(asn),
                    RouterKeyInfo::try_from(info.clone()).map_err(es)?))),
                Made::Text => Ok(Payload::router_key(KeyIdentifier::from_str(&hex_of(ski, idx % 2 == 1)).map_err(es)?,
                    Asn::from_str(&[format!("AS{asn}"), format!("aS{asn}"), format!("{asn}")][idx % 3]).map_err(es)?,
                    RouterKeyInfo::try_from(bytes::Bytes::from(info.clone())).map_err(es)?)),
                Made::Serde => Ok(Payload::router_key(serde_json::from_str(&format!("\"{}\"", hex_of(ski, idx % 2 == 0))).map_err(es)?,
                    serde_json::from_str(&format!("{asn}")).map_err(es)?, plain_info()?)),
                Made::SerdeValue => Ok(Payload::router_key(serde_json::from_value(Value::String(hex_of(ski, idx % 2 == 1))).map_err(es)?,
                    Asn::deserialize_from_any(Value::String(format!("{asn}"))).map_err(es)?, plain_info()?)),
                Made::Literal => {
                    // a static buffer, or a view into the middle of a larger shared one
                    let key_info = if idx % 2 == 0 { RouterKeyInfo::new(bytes::Bytes::from_static(&INFO_PATTERN[..info.len()])) } else {
                        let mut big = vec![0xEEu8; 5]; big.extend_from_slice(info); big.extend_from_slice(&[0xDD; 7]);
                        RouterKeyInfo::new(bytes::Bytes::from(big).slice(5..5 + info.len()))
                    }.map_err(es)?;
                    Ok(Payload::RouterKey(RouterKey { key_identifier: (*ski).into(), asn: asn.into(), key_info }))
                }
                _ => Ok(Payload::router_key((*ski).into(), Asn::from_u32(asn), plain_info()?)),
            }
        }
        Entry::Aspa { customer, providers } => {
            let customer = *customer;
            match route {
                Made::Family => Ok(Payload::from(Aspa::new(Asn::from(customer), providers_of(providers, &|x| Ok(Asn::from(x)))?))),
                Made::Relaxed => {
                    let a = Aspa::new(Asn::from_u32(customer), providers_of(providers, &|x| Ok(Asn::from_u32(x)))?);
                    Ok(Payload::Aspa(if providers.is_empty() { a.withdraw() } else { a }))
                }
                Made::Text => Ok(Payload::aspa(Asn::from_str(&format!("AS{customer}")).map_err(es)?, providers_of(providers, &|x| Asn::from_str(&format!("{x}")).map_err(es))?)),
                Made::Serde => Ok(Payload::aspa(serde_json::from_str(&format!("{customer}")).map_err(es)?,
                    providers_of(providers, &|x| serde_json::from_str(&format!("{x}")).map_err(es))?)),
                Made::SerdeValue => Ok(Payload::aspa(Asn::deserialize_from_any(Value::from(customer)).map_err(es)?,
                    providers_of(providers, &|x| Asn::deserialize_from_str(Value::String(format!("as{x}"))).map_err(es))?)),
                _ => Ok(Payload::Aspa(Aspa { customer: customer.into(),
                    providers: if providers.is_empty() { ProviderAsns::empty() } else { providers_of(providers, &|x| Ok(x.into()))? } })),
            }
        }
    }
}

/// Runs `f`; a panic becomes `Err` (and does not count as a panic of the exchange).
fn quiet<T>(f: impl FnOnce() -> T) -> Result<T, String> {
    let before = PANICS.with(|p| p.borrow().len());
    match panic::catch_unwind(AssertUnwindSafe(f)) {
        Ok(v) => Ok(v),
        Err(_) => Err(PANICS.with(|p| { let mut p = p.borrow_mut(); let at = before.min(p.len()); let msgs = p.split_off(at); msgs.join(" | ") })),
    }
}

fn std_hash<T: Hash>(x: &T) -> u64 {
    let mut h = std::collections::hash_map::DefaultHasher::new();
    x.hash(&mut h);
    h.finish()
}

fn entry_brief(e: &Entry) -> String {
    match e {
        Entry::Origin { addr, len, max, asn } => format!("{addr}/{len}-{max}=>AS{asn}"),
        Entry::Key { ski, asn, info } => format!("key(ski {},AS{asn},{}B)", hex_of(&ski[..2], false), info.len()),
        Entry::Aspa { customer, providers } => format!("aspa(AS{customer}:{} providers)", providers.len()),
    }
}

/// The client's data the way a user of the crate keeps it: in collections
/// keyed by the crate's own `==` (linear), `Hash` and `Ord`; ASPA records are
/// keyed by customer.
#[derive(Clone, Default)]
struct LibData { list: Vec<Payload>, hashed: HashSet<Payload>, ordered: BTreeSet<Payload> }

impl LibData {
    fn from_items(items: &[Payload]) -> LibData {
        let mut d = LibData::default();
        for p in items { d.apply(Action::Announce, p) }
        d
    }
    fn apply(&mut self, action: Action, p: &Payload) {
        if let Payload::Aspa(a) = p {
            let c = a.customer;
            self.list.retain(|x| x.as_aspa().map(|y| y.customer) != Some(c));
            self.hashed.retain(|x| x.as_aspa().map(|y| y.customer) != Some(c));
            self.ordered.retain(|x| x.as_aspa().map(|y| y.customer) != Some(c));
            if action == Action::Withdraw { return }
        }
        match action {
            Action::Announce => {
                if !self.list.iter().any(|x| x == p) { self.list.push(p.clone()) }
                self.hashed.insert(p.clone());
                self.ordered.insert(p.clone());
            }
            Action::Withdraw => {
                self.list.retain(|x| x != p);
                self.hashed.remove(p);
                self.ordered.remove(p);
            }
        }
    }
    /// `self` (what the client holds) against `want` (what the source
    /// reported): the first difference, named by the comparison that shows it.
    fn differs_from(&self, want: &[Payload]) -> Option<String> {
        use std::cmp::Ordering as O;
        let src = LibData::from_items(want);
        let show = |p: &Payload| entry_brief(&payload_entry(p));
        let pair = |what: String, x: &Payload, y: &Payload| Some(format!("{what}: the source's {} and the client's {}, which read the same [source: {x:?}; client: {y:?}]", show(x), show(y)));
        for x in want {
            // the client's item that reads the same: the comparisons are about that pair
            let Some(y) = self.list.iter().find(|y| payload_entry(y) == payload_entry(x)) else {
                return Some(format!("among the {} items the client keeps apart by == none reads as the source's {} [{x:?}]", self.list.len(), show(x)));
            };
            if !(x == y) || !(y == x) || x != y { return pair(format!("== says {} / {} (!= {})", x == y, y == x, x != y), x, y) }
            if std_hash(x) != std_hash(y) { return pair("== but Hash differs".into(), x, y) }
            if x.cmp(y) != O::Equal || y.cmp(x) != O::Equal || x.partial_cmp(y) != Some(O::Equal) { return pair(format!("== but cmp says {:?} / {:?}", x.cmp(y), y.cmp(x)), x, y) }
            if x.as_ref() != y.as_ref() || std_hash(&x.as_ref()) != std_hash(&y.as_ref()) || x.as_ref().cmp(&y.as_ref()) != O::Equal {
                return pair("equal as Payload but not as PayloadRef (== / Hash / cmp)".into(), x, y);
            }
            if !self.hashed.contains(x) { return pair("== with equal Hash, yet the source's value is not found in the client's HashSet<Payload>".into(), x, y) }
            if !self.ordered.contains(x) { return pair("== and cmp Equal, yet the source's value is not found in the client's BTreeSet<Payload>".into(), x, y) }
        }
        for y in &self.list {
            if !src.list.iter().any(|x| x == y) { return Some(format!("the client holds {}, which is == to nothing the source reported [{y:?}]", show(y))) }
            if !src.hashed.contains(y) { return Some(format!("the client holds {}: not found in a HashSet<Payload> of what the source reported [{y:?}]", show(y))) }
            if !src.ordered.contains(y) { return Some(format!("the client holds {}: not found in a BTreeSet<Payload> of what the source reported [{y:?}]", show(y))) }
        }
        let n = src.list.len();
        if self.list.len() != n || self.hashed.len() != n || self.ordered.len() != n || src.hashed.len() != n || src.ordered.len() != n {
            return Some(format!("the source reported {n} items distinct by == (HashSet {}, BTreeSet {}); the client holds {} by ==, {} in its HashSet, {} in its BTreeSet",
                src.hashed.len(), src.ordered.len(), self.list.len(), self.hashed.len(), self.ordered.len()));
        }
        None
    }
}

#[derive(Default)]
struct RtTarget { lib: LibData, model: Data, timing: Option<(u32, u32, u32)> }
struct RtUpdate { reset: bool, ops: Vec<(Action, Payload)> }
impl PayloadUpdate for RtUpdate {
    fn push_update(&mut self, action: Action, payload: Payload) -> Result<(), PayloadError> { self.ops.push((action, payload)); Ok(()) }
}
impl PayloadTarget for RtTarget {
    type Update = RtUpdate;
    fn start(&mut self, reset: bool) -> RtUpdate { RtUpdate { reset, ops: Vec::new() } }
    fn apply(&mut self, update: RtUpdate, timing: Timing) -> Result<(), PayloadError> {
        if update.reset { self.lib = LibData::default(); self.model = Data::default() }
        for (action, p) in &update.ops {
            self.lib.apply(*action, p);
            let e = payload_entry(p);
            match action { Action::Announce => { self.model.announce(e); } Action::Withdraw => { self.model.withdraw(&e); } }
        }
        self.timing = Some((timing.refresh, timing.retry, timing.expire));
        Ok(())
    }
}

const RT_SESSION: u16 = 0x0C06;
const RT_SERIAL: u32 = 7;     // state 0; state 1 is serial 8
const RT_TIMING: (u32, u32, u32) = (41, 13, 101);

struct RtInner { sets: [Vec<Payload>; 2], diff: Vec<(Payload, Action)>, cur: Mutex<usize> }
#[derive(Clone)]
struct RtSource(Arc<RtInner>);
struct RtSet { src: Arc<RtInner>, which: usize, pos: usize }
struct RtDiff { src: Arc<RtInner>, pos: usize, len: usize }

/// The ways a `PayloadRef` comes into being are routes too: `as_ref()` and
/// the `From` impls take turns.
fn payload_ref(p: &Payload, pos: usize) -> PayloadRef<'_> {
    if pos % 2 == 0 { return p.as_ref() }
    match p {
        Payload::Origin(o) => if pos % 4 == 1 { PayloadRef::from(*o) } else { PayloadRef::from(o) },
        Payload::RouterKey(k) => PayloadRef::from(k),
        Payload::Aspa(a) => PayloadRef::from(a),
    }
}

impl PayloadSet for RtSet {
    fn next(&mut self) -> Option<PayloadRef<'_>> { let p = self.src.sets[self.which].get(self.pos)?; self.pos += 1; Some(payload_ref(p, self.pos)) }
}
impl PayloadDiff for RtDiff {
    fn next(&mut self) -> Option<(PayloadRef<'_>, Action)> {
        if self.pos >= self.len { return None }
        let p = self.src.diff.get(self.pos)?; self.pos += 1; Some((payload_ref(&p.0, self.pos), p.1))
    }
}
impl RtSource {
    fn state_of(which: usize) -> State { State::from_parts(RT_SESSION, Serial(RT_SERIAL.wrapping_add(which as u32))) }
    fn cur(&self) -> usize { *self.0.cur.lock().unwrap() }
}
impl PayloadSource for RtSource {
    type Set = RtSet;
    type Diff = RtDiff;
    fn ready(&self) -> bool { true }
    fn notify(&self) -> State { Self::state_of(self.cur()) }
    fn full(&self) -> (State, RtSet) { let c = self.cur(); (Self::state_of(c), RtSet { src: self.0.clone(), which: c, pos: 0 }) }
    fn diff(&self, state: State) -> Option<(State, RtDiff)> {
        let c = self.cur();
        if state.session() != RT_SESSION { return None }
        if state.serial() == Self::state_of(c).serial() { return Some((Self::state_of(c), RtDiff { src: self.0.clone(), pos: 0, len: 0 })) }
        if c == 1 && state.serial() == Self::state_of(0).serial() { return Some((Self::state_of(1), RtDiff { src: self.0.clone(), pos: 0, len: self.0.diff.len() })) }
        None
    }
    fn timing(&self) -> Timing { Timing { refresh: RT_TIMING.0, retry: RT_TIMING.1, expire: RT_TIMING.2 } }
}

/// One scenario of the space.
#[derive(Clone, Copy, Debug, PartialEq, Eq)]
struct RtCase { route: Made, version: u8,
    /// the client starts in the source's first state, its target filled with the source's OWN values
    /// (a client whose earlier data came out of the same process: a snapshot, a shared store), and takes
    /// the diff; else it starts empty: reset query, then the diff
    preloaded: bool,
    link: Transport,
    /// the source yields its items in reverse
    rev: bool }

impl RtCase {
    fn render(&self) -> String {
        format!("routes route={} v={} client={} link={} rev={}", self.route.name(), self.version, if self.preloaded { "preloaded" } else { "empty" }, self.link.name(), self.rev as u8)
    }
    fn parse(s: &str) -> Option<RtCase> {
        let mut c = RtCase { route: Made::Ctor, version: 2, preloaded: false, link: Transport::Roomy, rev: false };
        for tok in s.split_whitespace().skip(1) {
            let (k, v) = tok.split_once('=')?;
            match k {
                "route" => c.route = MADE.iter().copied().find(|m| m.name() == v)?,
                "v" => c.version = v.parse().ok().filter(|v| *v <= 2)?,
                "client" => c.preloaded = match v { "preloaded" => true, "empty" => false, _ => return None },
                "link" => c.link = TRANSPORTS.iter().copied().find(|t| t.name() == v)?,
                "rev" => c.rev = v == "1",
                "step" => {}
                _ => return None,
            }
        }
        Some(c)
    }
}

#[derive(Default)]
struct RtOut {
    /// (step number, outcome class)
    steps: Vec<(usize, String)>,
    /// (oracle, step number, detail)
    verdicts: Vec<(&'static str, usize, String)>,
    /// items by what the route made of them
    aimed: u64, other: u64, unavailable: u64,
    /// finished steps and payload items they handed over, items with a boundary component among them
    finished: u64, handed: u64, boundary: u64,
    first_unavailable: Option<String>,
}

fn is_boundary(e: &Entry) -> bool {
    match e {
        Entry::Origin { addr, len, max, asn } => { let f = if addr.is_ipv4() { 32 } else { 128 }; *len == 0 || *len == f || *max == f || *asn == 0 || *asn == u32::MAX }
        Entry::Key { ski, asn, info } => *asn == 0 || *asn == u32::MAX || info.is_empty() || ski.iter().all(|b| *b == ski[0]),
        Entry::Aspa { customer, providers } => *customer == 0 || *customer == u32::MAX || providers.is_empty() || providers.contains(&0) || providers.contains(&u32::MAX),
    }
}

async fn routes_async(case: RtCase) -> RtOut {
    let mut out = RtOut::default();
    let universe = route_universe();
    // the source's items: universe index -> the value the route made
    let mut made: Vec<(usize, Payload)> = Vec::new();
    for (idx, e) in universe.iter().enumerate() {
        match quiet(|| make_item(case.route, idx, e)) {
            Ok(Ok(p)) => {
                let reads = payload_entry(&p);
                if reads == *e { out.aimed += 1 }
                else if case.route.is_arbitrary() { out.other += 1 }
                else {
                    out.aimed += 1;
                    out.verdicts.push(("C06.api.construction_routes", 0, format!("item #{idx}: the route was given {} and returned a value that reads {} [{p:?}]", entry_brief(e), entry_brief(&reads))));
                }
                // `Arbitrary` may return one value for two inputs; a source holds an item once
                if !made.iter().any(|(_, q)| payload_entry(q) == reads) { made.push((idx, p)) }
            }
            Ok(Err(why)) => {
                out.unavailable += 1;
                out.first_unavailable.get_or_insert_with(|| format!("item #{idx} {}: {why}", entry_brief(e)));
                // (an `Arbitrary` impl may find the octets wanting; every other route was given components its documentation admits)
                if !case.route.is_arbitrary() {
                    out.verdicts.push(("C06.api.construction_routes", 0, format!("item #{idx}: the route was given {} and refused: {why}", entry_brief(e))));
                }
            }
            Err(panic) => out.verdicts.push(("C06.api.construction_routes", 0, format!("item #{idx}: given {} the route panicked: {panic}", entry_brief(e)))),
        }
    }
    if case.rev { made.reverse() }
    // ASPA customers and (by construction) all other items are pairwise different, so the two states are plain subsets
    let in_state = |which: usize, idx: usize| if which == 0 { idx % 4 != 3 } else { idx % 4 != 0 };
    let set = |which: usize| -> Vec<Payload> { made.iter().filter(|(i, _)| in_state(which, *i)).map(|(_, p)| p.clone()).collect() };
    let mut diff: Vec<(Payload, Action)> = Vec::new();
    for (i, p) in &made {
        if in_state(0, *i) && !in_state(1, *i) { diff.push((p.clone(), Action::Withdraw)) }
        if !in_state(0, *i) && in_state(1, *i) { diff.push((p.clone(), Action::Announce)) }
    }
    let carried = |p: &Payload| entry_min_version(&payload_entry(p)) <= case.version;
    let src = RtSource(Arc::new(RtInner { sets: [set(0), set(1)], diff, cur: Mutex::new(0) }));
    let obs = Arc::new(Mutex::new(Obs::default()));
    let (c2s, s2c) = case.link.caps();
    let (c_end, s_end) = link(c2s, s2c);
    let listener = futures_util::stream::iter(vec![Ok::<Sock, std::io::Error>(Sock { io: s_end, obs })]);
    tokio::spawn(Server::new(listener, NotifySender::new(), src.clone()).run());
    let sock = CSock { io: c_end, consumed: Arc::new(AtomicU64::new(0)), sent: Arc::new(AtomicU64::new(0)) };
    let (target, state) = if case.preloaded {
        let own: Vec<Payload> = src.0.sets[0].iter().filter(|p| carried(p)).cloned().collect();
        let mut model = Data::default();
        for p in &own { model.announce(payload_entry(p)); }
        (RtTarget { lib: LibData::from_items(&own), model, timing: None }, Some(RtSource::state_of(0)))
    } else { (RtTarget::default(), None) };
    let mut client = Client::with_initial_version(case.version, sock, target, state);
    settle().await;
    let first_step = if case.preloaded { 2 } else { 1 };
    for step in first_step..=2usize {
        if step == 2 { *src.0.cur.lock().unwrap() = 1 }
        let which = step - 1;
        let res = tokio::time::timeout(HORIZON, client.step()).await;
        settle().await;
        let kind = if step == 1 { "reset-query" } else if case.preloaded { "serial-query:diff-onto-the-source's-own-values" } else { "serial-query:diff" };
        match res {
            Ok(Ok(())) => {
                out.finished += 1;
                out.steps.push((step, format!("step:ok:{kind}")));
                let want: Vec<Payload> = src.0.sets[which].iter().filter(|p| carried(p)).cloned().collect();
                out.handed += want.len() as u64;
                out.boundary += want.iter().filter(|p| is_boundary(&payload_entry(p))).count() as u64;
                let st = client.state().map(|s| (s.session(), s.serial().0));
                let named = RtSource::state_of(which);
                if st != Some((named.session(), named.serial().0)) {
                    out.verdicts.push(("C06.state.eod", step, format!("client.state() = {st:?}, the source's End of Data named {:?}", (named.session(), named.serial().0))));
                }
                let mut want_model = Data::default();
                for p in &want { want_model.announce(payload_entry(p)); }
                let t = client.target();
                if t.model != want_model {
                    let missing: Vec<String> = want_model.plain.iter().filter(|e| !t.model.plain.contains(*e)).take(3).map(entry_brief).collect();
                    let extra: Vec<String> = t.model.plain.iter().filter(|e| !want_model.plain.contains(*e)).take(3).map(entry_brief).collect();
                    out.verdicts.push(("C06.data.equals_source", step, format!(
                        "as read through the accessors the target holds {} items, the source reported {}; first missing {missing:?}, first extra {extra:?}, ASPA customers {:?} vs {:?}",
                        t.model.plain.len() + t.model.aspa.len(), want_model.plain.len() + want_model.aspa.len(),
                        t.model.aspa.keys().collect::<Vec<_>>(), want_model.aspa.keys().collect::<Vec<_>>())));
                } else if let Some(d) = t.lib.differs_from(&want) {
                    out.verdicts.push(("C06.data.equals_source", step, format!("source values made by route {}: {d}", case.route.name())));
                }
                if case.version >= 1 && t.timing != Some(RT_TIMING) {
                    out.verdicts.push(("C06.timing.equals_source", step, format!("client reports timing {:?}, source's is {RT_TIMING:?}", t.timing)));
                }
            }
            Ok(Err(e)) => { out.steps.push((step, format!("step:err:{kind}:{}", rpki_verif::trunc(&format!("{:?}: {e}", e.kind()), 50)))); break }
            Err(_) => { out.steps.push((step, format!("step:hang:{kind}"))); break }
        }
    }
    out
}

fn routes_exec(case: RtCase) -> Result<RtOut, Vec<String>> {
    PANICS.with(|p| p.borrow_mut().clear());
    let r = panic::catch_unwind(AssertUnwindSafe(move || { let _watch = rpki_verif::WatchScope::enter();
        let rt = tokio::runtime::Builder::new_current_thread().enable_time().start_paused(true).build().unwrap();
        rt.block_on(routes_async(case))
    }));
    let panics = PANICS.with(|p| std::mem::take(&mut *p.borrow_mut()));
    match r { Ok(o) if panics.is_empty() => Ok(o), Ok(_) => Err(panics), Err(_) => Err(if panics.is_empty() { vec!["panic".into()] } else { panics }) }
}

/// The scenarios (deterministic; the space is small enough for both tiers to
/// take the full product, the thorough tier adds two more transports).
fn routes_cases(thorough: bool) -> Vec<RtCase> {
    let links: &[Transport] = if thorough { &[Transport::Roomy, Transport::S16, Transport::S12, Transport::S7, Transport::C7] }
        else { &[Transport::Roomy, Transport::S16, Transport::S7] };
    let mut v = Vec::new();
    for route in MADE { for version in 0..=2u8 { for preloaded in [false, true] { for &link in links { for rev in [false, true] {
        v.push(RtCase { route, version, preloaded, link, rev });
    }}}}}
    v
}

/// `rtr.construction_routes`.
fn routes_space(ctx: &Ctx, thorough: bool) {
    let sp = ctx.space("rtr.construction_routes",
        "the route by which the SOURCE's values came into being, crossed with the crate's own equality: a universe of payload items (origins with EVERY prefix length of both families, 0..=32 and 0..=128, address bits all ones down to the prefix length and a second pattern at lengths 0, 1, maximum-1, maximum, max-len = prefix length / half-way / family maximum, AS 0 / 2^32-1 / ordinary rotating over them; router keys with SKI all zero / all ones / mixed, AS 0 / 2^32-1, key info of 0, 1, 91, 300 octets; ASPA for customers 0, 1, 2^32-2, 2^32-1 and two ordinary ones with 0, 1, 3, 5, 17 providers incl. AS 0 and 2^32-1) is made item by item by each of 12 public routes {ordinary constructors (control); family constructors + From impls + no max-len where it equals the prefix length; relaxed constructors given an address with all host bits set + saturating_new given 255 / 0 + Aspa::withdraw(); FromStr forms (a/l-m, a/l, from_str_relaxed, AS1 / as1 / 1, upper / lower case hex); Deserialize from JSON text; Deserialize from serde_json::Value incl. Asn::deserialize_from_any / _from_str; struct literals from the public fields with static / sliced Bytes and ProviderAsns::empty(); a SLURM file through SlurmFile::from_str + iter_payload(); pdu::Payload::new(..).to_payload() (a relaying cache); the Arbitrary impls of the components, of RouteOrigin / RouterKey / Aspa, and of Payload, fed octets aimed at the item: both bool octets, every multiple of the length modulus that fits, host bits set, junk above an IPv4 address, max-len absent / out of range, lengths and counts plus a modulus}; the source serves state 1 (three quarters of the items) and, after a move, state 2 (another three quarters) through the real Server, its PayloadRefs made by as_ref() and the From impls in turn; a real Client at version 0, 1, 2, over roomy pipes and server->client pipes of 16 and 7 octets [thorough: + 12 octets, + a 7-octet client->server pipe], the source iterating forwards and backwards, either starts empty (reset query, then the serial diff) or starts in state 1 with its target filled with the source's OWN values (serial diff onto them: the client's withdrawals must find them); the target keeps what it is handed the way a user of the crate does - a Vec under ==, a HashSet<Payload>, a BTreeSet<Payload>, ASPA keyed by customer - besides the model rendering of the other spaces; after every finished step C06.data.equals_source demands: read through the accessors the client's data is the source's set for the state End of Data named (restricted to the version), and every source value has a client value that is == to it both ways, as Payload and as PayloadRef, with equal Hash and cmp Equal, is found in the client's HashSet and BTreeSet, and every client value is found among the source's in all three ways, counts equal; state and timing as everywhere. What a route makes of an item is read back through the accessors: for the Arbitrary routes whatever comes out IS the source's item (Arbitrary promises no mapping; classes aimed-for / other value), for all other routes a refusal, a panic or a value that does not read back the components it was given is reported as C06.api.construction_routes. Non-trivial = finished steps of a route other than the control that handed over at least one item with a boundary component (prefix length 0 or maximum, max-len at the family maximum, AS 0 or 2^32-1, empty key info / provider set)");
    #[cfg(not(feature = "with-arbitrary"))]
    ctx.assume("rtr.construction_routes: the three Arbitrary routes are NOT covered: the harness is built without its feature `with-arbitrary`");
    let cases = routes_cases(thorough);
    let results: Vec<Result<RtOut, Vec<String>>> = cases.par_iter().map(|c| routes_exec(*c)).collect();
    let (mut finished, mut handed, mut boundary, mut items) = (0u64, 0u64, 0u64, 0u64);
    let mut by_route: BTreeMap<&'static str, (u64, u64, u64, u64)> = BTreeMap::new();
    let mut unavailable_sample: Option<String> = None;
    let mut route_faults: BTreeSet<(Made, String)> = BTreeSet::new();
    for (case, r) in cases.iter().zip(results) {
        match r {
            Err(p) => { sp.eval(); sp.outcome("step:panic"); ctx.fail("C06.step.no_panic", case.render(), p.join(" | ")) }
            Ok(out) => {
                sp.evals(out.steps.len() as u64);   // client steps executed
                for (_, class) in &out.steps { sp.outcome(class) }
                sp.outcomes_n("item:reads-as-aimed-for", out.aimed);
                if out.other > 0 { sp.outcomes_n("item:arbitrary-made-another-value(served-as-it-is)", out.other) }
                if out.unavailable > 0 { sp.outcomes_n("item:route-does-not-yield-it", out.unavailable) }
                if unavailable_sample.is_none() { unavailable_sample = out.first_unavailable.clone().map(|s| format!("{}: {s}", case.render())) }
                finished += out.finished; handed += out.handed; boundary += out.boundary; items += out.aimed + out.other;
                let e = by_route.entry(case.route.name()).or_insert((0, 0, 0, 0));
                e.0 += out.finished; e.1 += out.handed; e.2 += out.other; e.3 += out.unavailable;
                if case.route != Made::Ctor && out.boundary > 0 { sp.nontrivial(out.finished) }
                for (o, step, d) in out.verdicts {
                    // what a route makes of an item does not depend on the scenario: reported once per route
                    if step == 0 && !route_faults.insert((case.route, d.clone())) { continue }
                    ctx.fail(o, if step == 0 { case.render() } else { format!("{} step={step}", case.render()) }, d)
                }
            }
        }
    }
    if finished == 0 { ctx.machinery_error("vacuous: no client step finished in rtr.construction_routes") }
    sp.sample_str(|| format!("{} => universe of {} items, e.g. {}", cases[0].render(), route_universe().len(),
        route_universe().iter().filter(|e| is_boundary(e)).step_by(97).take(5).map(entry_brief).collect::<Vec<_>>().join(", ")));
    sp.set("routes", json!(MADE.iter().map(|m| m.name()).collect::<Vec<_>>()));
    sp.set("universe_items", json!(route_universe().len()));
    sp.set("items_made", json!(items));
    sp.set("finished_steps", json!(finished));
    sp.set("payload_items_compared(source vs client, ==/Hash/Ord/membership)", json!(handed));
    sp.set("of_which_with_a_boundary_component", json!(boundary));
    sp.set("by_route(finished steps, items compared, arbitrary made another value, route does not yield)", json!(by_route.iter().map(|(k, v)| format!("{k}: {v:?}")).collect::<Vec<_>>()));
    if let Some(s) = unavailable_sample { sp.set("route_does_not_yield(first)", json!(s)) }
    sp.set("scenarios", json!(cases.len()));
    sp.done(true, &format!("{} scenarios (12 routes x versions 0..2 x client empty / preloaded x transports x iteration order), every client step of each, every item of the universe by every route", cases.len()));
}

// ======================================================================
// The explorer
// ======================================================================

struct Node { cfg: Cfg, hist: Vec<Ev>, abs: Abs, key_hash: u64 }

/// What the sequential merge needs from one executed transition (built on
/// the worker thread so that the big `Exec` is dropped there).
struct Slim {
    /// `None` if the state was already known from an earlier level
    key: Option<HKey>,
    abs: Abs,
    panics: Vec<String>,
    machinery: Vec<String>,
    prefix_ok: bool,
    step: Option<SlimStep>,
    odd_ops: (u64, u64),
    api_faults: Vec<String>,
}

struct SlimStep {
    class: String,
    line: String,
    ok: bool,
    downgraded: bool,
    negotiated: Option<u8>,
    changed: bool,
    sim_ms: u64,
    verdicts: Vec<(&'static str, String)>,
    sample: String,
}

fn run_transition(cfg: &Cfg, hist: &[Ev], parent_hash: u64, seen: &Seen) -> Slim {
    // debugging aid: name the history before executing it (to find one that takes the process down)
    if std::env::var_os("C06_TRACE").is_some() { eprintln!("TRACE {}", witness(cfg, hist)); }
    match exec(cfg, hist) {
        Err(p) => Slim { key: None, abs: Abs { cur: 0, chain_len: 0, epoch: 0, pending: 0, established: false }, panics: p, machinery: vec![],
            prefix_ok: true, step: None, odd_ops: (0, 0), api_faults: vec![] },
        Ok(mut e) => {
            let step = if e.last_is_step {
                let (class, line) = e.label.take().unwrap();
                let s = e.steps.pop().unwrap();
                Some(SlimStep { class, line, ok: s.result == StepResult::Ok, downgraded: s.downgraded, negotiated: s.negotiated,
                    changed: s.changed, sim_ms: s.sim_ms, verdicts: s.verdicts,
                    sample: format!("{} ; data {}", s.transcript, s.data_after.render()) })
            } else { None };
            let hk = HKey { h: e.key_hash, key: e.key };
            let key = if seen.contains(&hk) { None } else { Some(hk) };
            Slim { key, abs: e.abs, panics: vec![], machinery: e.machinery, prefix_ok: e.key_before_last == Some(parent_hash),
                step, odd_ops: e.odd_ops, api_faults: e.api_faults }
        }
    }
}

struct Stats {
    transitions: u64,
    executions: u64,
    nontrivial: u64,
    outcomes: BTreeMap<String, u64>,
    transcripts: BTreeSet<String>,
    ok_by_pair: BTreeMap<String, u64>,
    downgrade_ok_by_pair: BTreeMap<String, u64>,
    negotiated: BTreeMap<String, u64>,
    ok_by_order: BTreeMap<String, u64>,
    ok_by_link: BTreeMap<String, u64>,
    violating_transitions: u64,
    max_sim_ms: u64,
    odd_withdraws: u64,
    odd_announces: u64,
}

fn bump(m: &mut BTreeMap<String, u64>, k: &str) {
    match m.get_mut(k) { Some(c) => *c += 1, None => { m.insert(k.to_string(), 1); } }
}

fn pair_name(c: &Cfg) -> String {
    format!("civ{}-limit{}-{}", c.civ, c.limit, match c.mode { ProxyMode::ErrorReply => "error", ProxyMode::AnswerLower => "lower" })
}

fn main() {
    let ctx = Ctx::new("C06", "model_checking");
    install_hook();
    ctx.assume("tokio (current-thread runtime, paused clock, io::duplex, broadcast) is trusted");
    ctx.assume("rtr.histories only: session ids and serial numbers are opaque tokens to client and server (compared and copied, never computed with); its canonical key keeps only their relations and the position relative to the 2^32 wrap. The assumption is not made by rtr.serial_distance, which enumerates the serial distance between the client's stored state and the End-of-Data state (small, half the circle, backwards, across 0 and 2^31) over three judged steps without merging states");
    ctx.assume("a connection is not used again after a step returned Err (Client::run stops there); the harness reconnects with client.state() and the target, as the Client::new documentation prescribes");
    ctx.assume("sequence spaces: a connection on which a query (or part of one) went out whose response was not consumed to its end - the step failed, or its future was dropped while Pending - is out of step with the server for good (RTR cannot tell which query a response answers). Steps that finish on such a connection are executed and counted with the verdict they would get (outcome class step:ok-on-desynchronised-connection) but not judged; judging resumes when the harness has reconnected. A step abandoned BEFORE any octet of its query went out (during the refresh wait) leaves the connection in step: the same connection is judged on");
    ctx.assume("the version-limited peer is played by a proxy in front of the real server: it answers a too-high first query with Error Report code 4 in its own version (mode error) or answers in its own lower version (mode lower)");

    let thorough = ctx.tier.is_thorough();

    // ---- replay of a single recorded case ----
    if let Some((_oracle, wit)) = ctx.replay.clone() {
        if wit.starts_with("scale ") {
            match ScaleCase::parse(&wit) {
                None => ctx.machinery_error(format!("cannot parse replay witness {wit}")),
                Some(case) => { let (class, viols) = scale_judge(&case); println!("replay: {} -> {class}", case.render()); for (o, d) in viols { ctx.fail(o, case.render(), d) } }
            }
            ctx.finish();
        }
        if wit.starts_with("routes ") {
            match RtCase::parse(&wit) {
                None => ctx.machinery_error(format!("cannot parse replay witness {wit}")),
                Some(case) => match routes_exec(case) {
                    Err(p) => ctx.fail("C06.step.no_panic", case.render(), p.join(" | ")),
                    Ok(out) => {
                        println!("replay: {} -> {:?}; items: {} as aimed for, {} other, {} not yielded", case.render(), out.steps, out.aimed, out.other, out.unavailable);
                        for (o, step, d) in out.verdicts { ctx.fail(o, if step == 0 { case.render() } else { format!("{} step={step}", case.render()) }, d) }
                    }
                },
            }
            ctx.finish();
        }
        if wit.starts_with("seq ") {
            match Scn::parse(&wit) {
                None => ctx.machinery_error(format!("cannot parse replay witness {wit}")),
                Some(scn) => match seq_exec(&scn) {
                    Err(p) => ctx.fail("C06.step.no_panic", scn.render(), p.join(" | ")),
                    Ok(out) => {
                        for m in &out.machinery { ctx.machinery_error(m.clone()) }
                        for s in &out.steps {
                            println!("replay: op #{} client {} [{}]{} {}", s.op, (b'A' + s.who) as char, s.class,
                                s.fired.as_ref().map(|f| format!(" (target rejected {f})")).unwrap_or_default(), s.transcript);
                            for (o, d) in &s.verdicts { ctx.fail(o, scn.render_upto(s.op + 1), d.clone()) }
                        }
                        for f in &out.api_faults { ctx.fail("C06.api.accessors", scn.render(), f.clone()) }
                    }
                },
            }
            ctx.finish();
        }
        match Cfg::parse(&wit) {
            None => ctx.machinery_error(format!("cannot parse replay witness {wit}")),
            Some((cfg, hist)) => match exec(&cfg, &hist) {
                Err(p) => ctx.fail("C06.step.no_panic", witness(&cfg, &hist), p.join(" | ")),
                Ok(e) => {
                    for m in &e.machinery { ctx.machinery_error(m.clone()) }
                    for (i, s) in e.steps.iter().enumerate() {
                        println!("replay: step #{i} {:?} [{}] {} -> state {:?} data {}", s.result, s.class, s.transcript, s.state_after, s.data_after.render());
                    }
                    if let Some(s) = e.steps.last().filter(|_| e.last_is_step) {
                        for (o, d) in &s.verdicts { ctx.fail(o, witness(&cfg, &hist), d.clone()) }
                    }
                    for f in &e.api_faults { ctx.fail("C06.api.accessors", witness(&cfg, &hist), f.clone()) }
                }
            },
        }
        ctx.finish();
    }

    // the scale space first: it is small and must not depend on how far the
    // wall-clock safety net lets the history exploration get
    let t_scale = WallInstant::now();
    scale_space(&ctx, thorough);
    println!("C06: scale space wall={:.1}s", t_scale.elapsed().as_secs_f64());

    // the sequence spaces (small, enumerated in full; they do not share the
    // wall-clock safety net of the history exploration either)
    let only = std::env::var("C06_ONLY").ok();   // measuring aid: run one sequence space only
    for (name, f) in [("dist", distance_space as fn(&Ctx, bool)), ("pair", pair_space), ("fail", failure_space), ("cancel", cancel_space), ("unmoved", unmoved_space)] {
        if only.as_deref().is_some_and(|o| o != name) { continue }
        let t = WallInstant::now();
        f(&ctx, thorough);
        println!("C06: sequence space {name} wall={:.1}s", t.elapsed().as_secs_f64());
    }
    if only.as_deref().is_none_or(|o| o == "routes") {
        let t = WallInstant::now();
        routes_space(&ctx, thorough);
        println!("C06: construction-route space wall={:.1}s", t.elapsed().as_secs_f64());
    }
    if only.is_some() { ctx.finish() }

    // The depth bound is far beyond the depth at which the frontier empties
    // (13 / 14 measured): both tiers run to the fixpoint; the wall-clock cap
    // is a safety net that turns the run into a non-exhaustive one.
    let depth_bound: usize = std::env::var("C06_DEPTH").ok().and_then(|s| s.parse().ok()).unwrap_or(40);
    let wall_cap = Duration::from_secs(ctx.tier.pick(33, 560));
    // update_nodiff(S) is update(S) followed by drop_diffs: it adds no
    // reachable state, only shorter paths; the quick tier leaves it out
    // (see `enabled`).

    // ---- configurations ----
    // (diff style, longest retained diff chain). Net diffs depend only on the
    // two end points, so the longer chain is spent on the chained style.
    // Iteration order of the source: `None` = all three orders for every
    // version configuration; `Some(off)` = one order per version configuration,
    // (civ + 2*limit + off) mod 3 — every negotiated version 0 and 1 then still
    // meets all three orders, version 2 (no filtering) is given all three.
    let styles: Vec<(Style, u8, Option<u8>)> = if thorough {
        vec![(Style::Chained, 2, None), (Style::Chained, 3, Some(1)), (Style::Net, 2, Some(2))]
    } else { vec![(Style::Chained, 2, Some(1))] };
    let mut vconfigs: Vec<(u8, u8, ProxyMode)> = Vec::new();
    for civ in 0..=2u8 { for limit in 0..=2u8 { vconfigs.push((civ, limit, ProxyMode::ErrorReply)) } }
    if thorough { for civ in 0..=2u8 { for limit in 0..civ { vconfigs.push((civ, limit, ProxyMode::AnswerLower)) } } }
    let mut roots: Vec<Cfg> = Vec::new();
    // The transport rotates over the (version configuration, order) groups,
    // one rotation per negotiated version, so that every version meets
    // several transports and versions 1 and 2 (router key and ASPA PDUs, the
    // ones with a variable part) start with the narrow server->client pipes.
    // A full product would multiply the space by six.
    // The 1-octet pipes cost about three times as much per execution as the
    // others and are left to the thorough tier, versions 1 and 2.
    use Transport::*;
    let rot: [Vec<Transport>; 3] = if thorough { [
        vec![Roomy, C7, S16, S7, S12],            // version 0 carries fixed-size PDUs only
        vec![S16, S1C1, S7, S12, Roomy, C7],
        vec![S12, S16, S1C1, S7, Roomy, C7],
    ] } else { [
        vec![Roomy, C7, S16, S7, S12],
        vec![S16, S7, S12],
        vec![S12, S16, S7],
    ] };
    let mut rot_at = [0usize; 3];
    for &(style, cap, ord) in &styles { for &(civ, limit, mode) in &vconfigs {
        // the answer-lower proxy is explored with 2 retained diffs (both styles); the
        // 3-diff space, the largest, keeps to the error-reply proxy
        if cap == 3 && mode == ProxyMode::AnswerLower { continue }
        let orders: Vec<Order> = match ord {
            Some(off) if civ.min(limit) < 2 => vec![ORDERS[((civ + 2 * limit + off) % 3) as usize]],
            _ => ORDERS.to_vec(),
        };
        for order in orders {
            let v = civ.min(limit) as usize;
            let link = std::env::var("C06_LINK").ok().and_then(|n| TRANSPORTS.iter().copied().find(|t| t.name() == n))
                .unwrap_or(rot[v][rot_at[v] % rot[v].len()]);   // C06_LINK: measuring aid, forces one transport everywhere
            rot_at[v] += 1;
            // the route rotates with the transport, shifted so that versions 1 and
            // 2 (the ones with timing) start with reset()+apply() / update()+apply()
            let route = [[Route::Step, Route::UpdateApply, Route::ResetApply], [Route::ResetApply, Route::Step, Route::UpdateApply],
                [Route::UpdateApply, Route::ResetApply, Route::Step]][v][(rot_at[v] - 1) % 3];
            for &init in &INITS { roots.push(Cfg { civ, limit, mode, style, cap, order, link, route, init }); }
        }
    }}

    let sp = ctx.space("rtr.histories",
        "breadth-first over event histories {update(S) [thorough: + update_nodiff(S)] for the 7 other sets of an 8-set family, drop_diffs, restart, wrap, notify, client_step, client_step with the connection dying after 1/2/3 response PDUs, client_step with the source moving to another set (quick: 2 target sets, thorough: 3) on entry to the k-th source call of the exchange, k = 1..5} from every root (7 initial client states x client initial version 0..2 x proxy limit 0..2 [thorough: + answer-lower proxy where civ > limit] x diff style [thorough: chained with 2 and 3 retained diffs, net with 2; quick: chained with 2] x iteration order of the source's sets and diff steps {grouped by type, reverse, mixed so that an unsupported-type item precedes supported ones; withdraw-first / announce-first inside a diff step} [one order per version configuration chosen so that every negotiated version meets all three; thorough: full product for chained/2] x transport {roomy pipes; server->client pipe of 16, 12, 7 octets; 1-octet pipes both ways; client->server pipe of 7 octets — a pipe of k octets delivers at most k octets per read, so router-key info (91 octets) and ASPA provider lists (4-5 providers) reach the client in pieces} [rotated over the (version configuration, order) groups, one rotation per negotiated version] x public route of the client-step events {step(); update()+apply(); reset()+apply()} [rotated likewise]), states de-duplicated by canonical key, every transition re-executed on the real Client and Server; oracles judge against the state named in End of Data, never against the source's latest state; timing is judged only when the source was asked for its timing while in that very state (the library reads timing in a separate call, so an update landing between data and timing leaves the clause undefined); the civ=2 roots with limit 0 and 2 build the client with Client::new, all others with Client::with_initial_version; every payload handed to the target or served by the source also goes through the accessor sweep (payload_type, is_v4, Aspa::key, Action predicates, into_bytes, asn_count, pdu into_key_info / into_providers, State::inc / Serial::add / State::new*), compared with sibling accessors only; non-trivial = transitions whose client step completed (Ok) AND changed the client's state or data (each (state, event) pair is executed once, so they are distinct by construction)");

    // `Afi`, the RTR address-family octet: not used by client or server, swept
    // over all 256 values against its own siblings.
    {
        use rpki::rtr::payload::Afi;
        for x in 0..=255u8 {
            let a = Afi::from_u8(x);
            let ok = a.into_u8() == x && a.is_ipv4() != a.is_ipv6() && (a == Afi::ipv4()) == (x == Afi::ipv4().into_u8())
                && (a == Afi::ipv6()) == (x == Afi::ipv6().into_u8()) && Afi::ipv4().is_ipv4() && Afi::ipv6().is_ipv6()
                && (a.is_ipv4() == Afi::ipv4().is_ipv4() || a.is_ipv6() == Afi::ipv6().is_ipv6());
            if !ok { ctx.fail("C06.api.afi", format!("afi={x}"), "Afi::from_u8 / into_u8 / is_ipv4 / is_ipv6 / ipv4() / ipv6() disagree") }
        }
    }

    let start = WallInstant::now();
    let mut st = Stats { transitions: 0, executions: 0, nontrivial: 0, outcomes: BTreeMap::new(),
        transcripts: BTreeSet::new(), ok_by_pair: BTreeMap::new(), downgrade_ok_by_pair: BTreeMap::new(),
        negotiated: BTreeMap::new(), ok_by_order: BTreeMap::new(), ok_by_link: BTreeMap::new(), violating_transitions: 0, max_sim_ms: 0, odd_withdraws: 0, odd_announces: 0 };
    let mut seen: Seen = Seen::default();
    let mut frontier: Vec<Node> = Vec::new();

    // depth 0: the roots
    let root_runs: Vec<(Cfg, Result<Exec, Vec<String>>)> = roots.par_iter().map(|c| (*c, exec(c, &[]))).collect();
    for (cfg, r) in root_runs {
        st.executions += 1;
        match r {
            Err(p) => ctx.machinery_error(format!("root {} panicked: {}", cfg.render(), p.join(" | "))),
            Ok(e) => {
                for m in &e.machinery { ctx.machinery_error(format!("{}: {m}", cfg.render())) }
                let h = e.key_hash;
                if seen.insert(HKey { h, key: e.key }) { frontier.push(Node { cfg, hist: vec![], abs: e.abs, key_hash: h }); }
            }
        }
    }
    sp.sample_str(|| format!("root: {}", roots[2].render()));

    let (mut diverged, mut thread_dependent) = (0u64, 0u64);
    let mut max_depth = 0usize;
    let mut completed_depth = 0usize;
    let mut cut = "depth bound";
    let mut exhausted = false;
    let mut level_sizes: Vec<(usize, usize, usize)> = Vec::new();
    let mut last_new_node: Option<(Cfg, Vec<Ev>)> = None;
    let mut first_step_node: Option<(Cfg, Vec<Ev>)> = None;

    for depth in 1..=depth_bound {
        if frontier.is_empty() { exhausted = true; break }
        let tasks: Vec<(usize, Ev)> = frontier.iter().enumerate()
            .flat_map(|(i, n)| enabled(&n.abs, thorough).into_iter().map(move |e| (i, e))).collect();
        // a level is only started if the time used so far leaves room for it
        // (safety net; deeper levels replay longer histories, hence the factor)
        if depth > 1 {
            let per = start.elapsed().as_secs_f64() / (st.executions.max(1) as f64);
            let est = per * tasks.len() as f64 * 1.6;
            if start.elapsed().as_secs_f64() + est > wall_cap.as_secs_f64() {
                cut = "wall-clock budget (level not started)";
                break;
            }
        }
        let results: Vec<Slim> = tasks.par_iter().map(|(i, ev)| {
            let n = &frontier[*i];
            let mut h = Vec::with_capacity(n.hist.len() + 1);
            h.extend_from_slice(&n.hist); h.push(*ev);
            run_transition(&n.cfg, &h, n.key_hash, &seen)
        }).collect();

        let mut next: Vec<Node> = Vec::new();
        for ((i, ev), r) in tasks.iter().zip(results) {
            let n = &frontier[*i];
            let hist = || { let mut h = n.hist.clone(); h.push(*ev); h };
            st.executions += 1; st.transitions += 1;
            let ev_class = match ev { Ev::Update(_) => "event:update", Ev::UpdateNoDiff(_) => "event:update_nodiff", Ev::DropDiffs => "event:drop_diffs",
                Ev::Restart => "event:restart", Ev::Wrap => "event:wrap", Ev::Notify => "event:notify", Ev::Step => "event:client_step",
                Ev::StepCut(_) => "event:client_step_with_connection_cut",
                Ev::StepMid(..) => "event:client_step_with_source_update_in_flight",
                Ev::Run(_) => "event:client_run_two_updates", Ev::ErrorReport => "event:client_error_report" };
            bump(&mut st.outcomes, ev_class);
            if !r.panics.is_empty() {
                bump(&mut st.outcomes, "step:panic");
                st.violating_transitions += 1;
                ctx.fail("C06.step.no_panic", witness(&n.cfg, &hist()), r.panics.join(" | "));
                continue;
            }
            for m in &r.machinery { ctx.machinery_error(format!("{}: {m}", witness(&n.cfg, &hist()))) }
            if !r.prefix_ok {
                // The prefix was executed before, on some other worker thread, and
                // reached another state then. Referee: the prefix twice more, each
                // on a fresh OS thread. If those two agree, the executions are
                // deterministic and the difference comes from what the worker
                // threads had executed before: the library keeps state outside
                // client, server and their arguments — a violation, not a fault of
                // the machinery. (Refereed for the first few; the rest follow.)
                diverged += 1;
                if diverged <= 5 {
                    let a = exec_fresh(&n.cfg, &n.hist).map(|e| e.key_hash);
                    let b = exec_fresh(&n.cfg, &n.hist).map(|e| e.key_hash);
                    st.executions += 2;
                    if a == b { thread_dependent += 1 }
                    else { ctx.machinery_error(format!("replay diverged: prefix of {} does not reach the recorded state, and does not reach one state on fresh threads either", witness(&n.cfg, &hist()))) }
                }
                if thread_dependent > 0 && thread_dependent == diverged.min(5) {
                    ctx.fail("C06.history.independent", witness(&n.cfg, &n.hist), format!("this history reached different client/source states in two executions although each execution builds all its objects anew; on fresh OS threads it is deterministic: the outcome depends on what the executing thread ran before (state kept outside the client, the server and their arguments)"));
                } else if diverged > 5 {
                    ctx.machinery_error(format!("replay diverged: prefix of {} does not reach the recorded state", witness(&n.cfg, &hist())));
                }
            }
            let mut violated = false;
            for f in &r.api_faults {
                violated = true;
                ctx.fail("C06.api.accessors", witness(&n.cfg, &hist()), f.clone());
            }
            if let Some(s) = &r.step {
                st.max_sim_ms = st.max_sim_ms.max(s.sim_ms);
                bump(&mut st.outcomes, &s.class);
                if !st.transcripts.contains(s.line.as_str()) { st.transcripts.insert(s.line.clone()); }
                if s.ok {
                    let pair = pair_name(&n.cfg);
                    bump(&mut st.ok_by_pair, &pair);
                    if s.downgraded { bump(&mut st.downgrade_ok_by_pair, &pair); }
                    if let Some(v) = s.negotiated {
                        bump(&mut st.negotiated, &format!("v{v}"));
                        bump(&mut st.ok_by_order, &format!("{}/v{v}", n.cfg.order.name()));
                        bump(&mut st.ok_by_link, &format!("{}/v{v}", n.cfg.link.name()));
                    }
                    if s.changed {
                        st.nontrivial += 1;
                        if st.nontrivial <= 3 { sp.sample_str(|| format!("{} => {}", witness(&n.cfg, &hist()), s.sample)); }
                        if first_step_node.is_none() && n.hist.len() >= 2 { first_step_node = Some((n.cfg, hist())) }
                    }
                }
                for (o, d) in &s.verdicts {
                    violated = true;
                    ctx.fail(o, witness(&n.cfg, &hist()), d.clone());
                }
            }
            if violated { st.violating_transitions += 1; continue }   // a violating state is not expanded
            st.odd_withdraws = st.odd_withdraws.max(r.odd_ops.0);
            st.odd_announces = st.odd_announces.max(r.odd_ops.1);
            if let Some(hk) = r.key {
                let kh = hk.h;
                if seen.insert(hk) {
                    max_depth = depth;
                    let h = hist();
                    last_new_node = Some((n.cfg, h.clone()));
                    next.push(Node { cfg: n.cfg, hist: h, abs: r.abs, key_hash: kh });
                }
            }
        }
        level_sizes.push((depth, tasks.len(), next.len()));
        completed_depth = depth;
        frontier = next;
        if frontier.is_empty() { exhausted = true; break }
    }
    let n_states = seen.len() as u64;

    // ---- replay-determinism self check: two histories, each executed twice more ----
    let mut det_checked = 0;
    let mut det_ok = true;
    // (if the exploration was stopped very early, two fixed histories stand in)
    let first_step_node = first_step_node.or_else(|| roots.first().map(|c| (*c, vec![Ev::Step, Ev::Update(0), Ev::Step])));
    let last_new_node = last_new_node.or_else(|| roots.last().map(|c| (*c, vec![Ev::Update(6), Ev::Notify, Ev::Step])));
    for cand in [first_step_node.clone(), last_new_node.clone()].into_iter().flatten() {
        let a = exec_fresh(&cand.0, &cand.1);
        let b = exec_fresh(&cand.0, &cand.1);
        st.executions += 2;
        det_checked += 1;
        if a != b {
            det_ok = false;
            ctx.machinery_error(format!("nondeterministic replay of {}", witness(&cand.0, &cand.1)));
        }
    }
    if det_checked < 2 { ctx.machinery_error("replay-determinism check found fewer than two histories to replay") }

    // ---- vacuity guards ----
    let total_ok: u64 = st.ok_by_pair.values().sum();
    if total_ok == 0 { ctx.machinery_error("vacuous: no client step succeeded anywhere") }
    for &(civ, limit, mode) in &vconfigs {
        let c = Cfg { civ, limit, mode, style: styles[0].0, cap: styles[0].1, order: Order::Grouped, link: Transport::Roomy, route: Route::Step, init: Init::NoState };
        let p = pair_name(&c);
        if st.ok_by_pair.get(&p).copied().unwrap_or(0) == 0 {
            ctx.machinery_error(format!("vacuous: no client step succeeded for {p}"));
        }
        if civ > limit && st.downgrade_ok_by_pair.get(&p).copied().unwrap_or(0) == 0 {
            ctx.machinery_error(format!("vacuous: no completed exchange with a version downgrade for {p}"));
        }
    }

    for v in [1u8, 2] {
        let narrow: u64 = TRANSPORTS.iter().filter(|t| t.narrow_s2c())
            .map(|t| st.ok_by_link.get(&format!("{}/v{v}", t.name())).copied().unwrap_or(0)).sum();
        if narrow == 0 { ctx.machinery_error(format!("vacuous: no completed version-{v} exchange over a narrow server->client pipe")) }
    }

    // ---- evidence ----
    sp.evals(st.executions);
    sp.nontrivial(st.nontrivial);
    sp.states(n_states);
    sp.transitions(st.transitions);
    sp.traces(st.transitions);
    for (k, v) in &st.outcomes { sp.outcomes_n(k, *v) }
    sp.set("max_depth_reached", json!(max_depth));
    sp.set("depth_bound", json!(depth_bound));
    sp.set("completed_depth", json!(completed_depth));
    sp.set("frontier", json!(if exhausted { "exhausted (fixpoint: no unexplored state left)".to_string() }
        else { format!("cut by {cut}: {} states at depth {completed_depth} not expanded", frontier.len()) }));
    sp.set("levels(depth,transitions,new_states)", json!(level_sizes));
    sp.set("roots", json!(roots.len()));
    sp.set("version_configs", json!(vconfigs.iter().map(|(c, l, m)| format!("{c}/{l}/{m:?}")).collect::<Vec<_>>()));
    sp.set("diff_styles(style, retained chain, orders)", json!(styles.iter().map(|s| format!("{:?}/{}/{}", s.0, s.1,
        if s.2.is_none() { "all 3 iteration orders" } else { "1 iteration order per version configuration (all 3 at version 2)" })).collect::<Vec<_>>()));
    sp.set("iteration_orders", json!({"grouped": format!("{UNIVERSE:?}; diff steps in item order"), "reverse": "the reverse of grouped; withdrawals of a step first",
        "mixed": format!("{MIXED:?}; announcements of a step first")}));
    sp.set("payload_sets", json!(SETS.iter().enumerate().map(|(i, s)| format!("#{i} {s:?} timing {:?}", timing_of(i as u8))).collect::<Vec<_>>()));
    sp.set("ok_steps_by_iteration_order_and_version", json!(st.ok_by_order));
    sp.set("transports(client->server capacity, server->client capacity)", json!(TRANSPORTS.iter().map(|t| format!("{}: {:?}", t.name(), t.caps())).collect::<Vec<_>>()));
    sp.set("ok_steps_by_transport_and_version", json!(st.ok_by_link));
    sp.set("events", json!(["U<S> update (diff retained)", "X<S> update (diff history dropped)", "D drop diffs", "R restart (new session)", "W serial := 2^32-1", "N notify", "S client step", "C<k> client step, connection dies after k PDUs of the response", "M<k>:<S> client step, source moves to set S on entry to the k-th call the server makes on it (ready/notify/full/diff/timing)",
        "L<S> Client::run until the peer closes the connection after two completed updates, source moves to set S between them; every completed update judged",
        "E Client::send_error(e) and Client::apply(update rejected with e) on a connection each: same Error Report on the wire, data unchanged, state unchanged or forgotten"]));
    sp.set("bounds", json!({"pending_notifies": MAX_PENDING_NOTIFY, "connection_cut_after_pdus": CUTS, "mid_step_update_at_source_call": MID_CALLS, "simulated_horizon_s": HORIZON.as_secs()}));
    sp.set("distinct_outcomes(step transcripts)", json!(st.transcripts.len()));
    sp.set("ok_steps_by_version_config", json!(st.ok_by_pair));
    sp.set("ok_steps_with_downgrade", json!(st.downgrade_ok_by_pair));
    sp.set("ok_steps_by_negotiated_version", json!(st.negotiated));
    sp.set("violating_transitions_not_expanded", json!(st.violating_transitions));
    sp.set("max_simulated_ms_in_one_step", json!(st.max_sim_ms));
    sp.set("replay_determinism", json!({"histories_replayed_twice": det_checked, "identical": det_ok, "prefix_checks": st.transitions}));
    sp.set("updates_with_withdraw_of_absent_or_reannounce_of_identical(max per history)", json!([st.odd_withdraws, st.odd_announces]));
    sp.set("transcript_samples", json!(st.transcripts.iter().filter(|t| t.starts_with("ok")).step_by((st.transcripts.len() / 12).max(1)).take(12).collect::<Vec<_>>()));
    let complete = exhausted || completed_depth == depth_bound;
    sp.done(complete, &if exhausted { format!("fixpoint at depth {completed_depth}: every reachable canonical state expanded with every enabled event") }
        else if complete { format!("all histories up to depth {completed_depth} from every root") }
        else { format!("all histories up to depth {completed_depth} from every root; stopped by {cut}") });

    println!("C06: states={} transitions={} max_depth={} frontier={} ok_steps={} nontrivial={} distinct_transcripts={} wall={:.1}s",
        n_states, st.transitions, max_depth, if exhausted { "exhausted" } else { "cut" }, total_ok, st.nontrivial, st.transcripts.len(),
        start.elapsed().as_secs_f64());
    ctx.finish();
}
