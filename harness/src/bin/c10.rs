//! C10 — a signed provisioning / publication message validates against a
//! peer's identity key exactly when the digest attribute matches the content,
//! the signature verifies over the DER encoding of all signed attributes under
//! the embedded EE certificate, that certificate is signed by the peer key,
//! current and not a CA, and the embedded CRL is signed by the peer key,
//! current and does not list the EE certificate.
//!
//! Spaces (all enumerated completely, nothing sampled):
//!  (a) library-created messages (`SignedMessage::create`,
//!      `ProvisioningCms::create`, `PublicationCms::create`): content sizes,
//!      validity windows over the UTCTime/GeneralizedTime switch instants,
//!      5 evaluation instants, the signing key and 2 other keys;
//!  (b) foreign messages from the independent encoder (`engine::der` + the
//!      small X.509 / CRL writers below, signatures by aws-lc directly):
//!      benign variations (6 attribute orders, 0-3 extra signed attributes
//!      crossing 128 and 256 octets, EE / CRL spellings, boundary instants)
//!      must validate; every single violation and all pairs must not;
//!      the full product of composable EE-certificate and CRL options (benign
//!      spellings and violations alike) x 9 evaluation instants around a narrow
//!      and a wide window, and attribute settings x those options;
//!      fields the verdict must ignore (revocation dates, entry extensions, CRL
//!      number, names, signing times, algorithm spellings) x listing state x instants;
//!      repeated validate_at calls on one decoded value over all pairs / triples of
//!      (key, instant) settings (history independence); instants down to 1 ns;
//!  (c) every single-bit flip of one library-created and two foreign messages.
//!
//! Reference model: the condition vector itself (valid <=> all true).

use std::collections::{BTreeMap, BTreeSet};
use std::str::FromStr;
use std::sync::Mutex;
use bytes::Bytes;
use rayon::prelude::*;
use rpki::ca::idcert::IdCert;
use rpki::ca::idexchange::{RecipientHandle, SenderHandle};
use rpki::ca::provisioning::{self, ProvisioningCms, RevocationRequest};
use rpki::ca::publication::{self, Base64, Publish, PublishDelta, PublicationCms};
use rpki::ca::sigmsg::SignedMessage;
use rpki::crypto::PublicKey;
use rpki::repository::x509::{Time, Validity};
use rpki_verif::engine::der::{self, Civil, SignedDataParts};
use rpki_verif::engine::enumerate::permutations;
use rpki_verif::engine::pki::{self, T0};
use rpki_verif::engine::signer::{sha256, PoolSigner};
use rpki_verif::{guard, hex, trunc, Ctx};

//------------ keys and instants ------------------------------------------------------

const K_PEER: usize = 0;
const K_OTHER: usize = 1;
const K_THIRD: usize = 2;
const K_EE: usize = 3;
const K_EE2: usize = 4;

const W: i64 = 300;

fn civil(secs: i64) -> Civil {
    use chrono::{Datelike, Timelike};
    let d = chrono::DateTime::from_timestamp(secs, 0).unwrap();
    Civil { y: d.year(), mo: d.month(), d: d.day(), h: d.hour(), mi: d.minute(), s: d.second() }
}
fn x509_time(secs: i64) -> Vec<u8> { der::time_auto(civil(secs)) }

/// Evaluation instants for a window [nb, na] (whole seconds): (seconds, nanoseconds); index MID is the midpoint.
const MID: usize = 4;
fn window_instants(nb: i64, na: i64) -> Vec<(i64, u32)> {
    vec![(nb - 1, 0), (nb - 1, 999_999_999), (nb, 0), (nb, 1), (nb + (na - nb) / 2, 0), (na - 1, 999_999_999), (na, 0), (na, 1), (na, 500_000_000), (na + 1, 0)]
}

//------------ verdicts ------------------------------------------------------------------

#[derive(Clone, Debug, PartialEq, Eq)]
enum Verdict { Accept, Decode(String), Invalid(String), Panic(String) }

impl Verdict {
    fn accepted(&self) -> bool { matches!(self, Verdict::Accept) }
    fn class(&self) -> &'static str {
        match self { Verdict::Accept => "validated", Verdict::Decode(_) => "rejected-at-decode", Verdict::Invalid(_) => "rejected-at-validation", Verdict::Panic(_) => "panic" }
    }
    fn show(&self) -> String {
        match self { Verdict::Accept => "validated".into(), Verdict::Decode(e) => format!("decode error: {e}"), Verdict::Invalid(e) => format!("validation error: {e}"), Verdict::Panic(e) => e.clone() }
    }
}

#[derive(Clone, Copy, Debug, PartialEq, Eq)]
enum Via { Strict, Relaxed, Publication, Provisioning }

fn at(secs: i64, nanos: u32) -> Time { Time::new(chrono::DateTime::from_timestamp(secs, nanos).unwrap()) }

fn run(bytes: &[u8], key: &PublicKey, when: i64, via: Via) -> Verdict { run_ns(bytes, key, when, 0, via) }

fn run_ns(bytes: &[u8], key: &PublicKey, when: i64, nanos: u32, via: Via) -> Verdict {
    let t = at(when, nanos);
    let r = guard(|| match via {
        Via::Strict | Via::Relaxed => match SignedMessage::decode(Bytes::copy_from_slice(bytes), via == Via::Strict) {
            Err(e) => Verdict::Decode(e.to_string()),
            Ok(m) => match m.validate_at(key, t) { Ok(()) => Verdict::Accept, Err(e) => Verdict::Invalid(e.to_string()) },
        },
        Via::Publication => match PublicationCms::decode(bytes) {
            Err(e) => Verdict::Decode(e.to_string()),
            Ok(m) => match m.validate_at(key, t) { Ok(()) => Verdict::Accept, Err(e) => Verdict::Invalid(e.to_string()) },
        },
        Via::Provisioning => match ProvisioningCms::decode(bytes) {
            Err(e) => Verdict::Decode(e.to_string()),
            Ok(m) => match m.validate_at(key, t) { Ok(()) => Verdict::Accept, Err(e) => Verdict::Invalid(e.to_string()) },
        },
    });
    match r { Ok(v) => v, Err(p) => Verdict::Panic(p) }
}

//------------ independent X.509 / CRL writers ---------------------------------------------

const OID_CN: &[u64] = &[2, 5, 4, 3];
const OID_BASIC_CONSTRAINTS: &[u64] = &[2, 5, 29, 19];
const OID_SKI: &[u64] = &[2, 5, 29, 14];
const OID_AKI: &[u64] = &[2, 5, 29, 35];
const OID_KEY_USAGE: &[u64] = &[2, 5, 29, 15];
const OID_CRL_NUMBER: &[u64] = &[2, 5, 29, 20];
const OID_CRL_REASON: &[u64] = &[2, 5, 29, 21];
const OID_ISSUING_DP: &[u64] = &[2, 5, 29, 28];
const OID_PRIVATE: &[u64] = &[1, 3, 6, 1, 4, 1, 99999, 2, 1];

fn name(cn: &str) -> Vec<u8> { der::seq(&[der::set_unsorted(&[der::seq(&[der::oid(OID_CN), der::printable(cn)])])]) }

/// 0 = CN only, 1 = another CN, 2 = two RDNs (CN + serialNumber) with a UTF8String CN.
fn name_variant(cn: &str, v: u8) -> Vec<u8> {
    match v {
        0 => name(cn),
        1 => name("Somebody Else 0123456789"),
        _ => der::seq(&[der::set_unsorted(&[der::seq(&[der::oid(OID_CN), der::utf8(cn)])]),
                        der::set_unsorted(&[der::seq(&[der::oid(&[2, 5, 4, 5]), der::printable("0A1B2C")])])]),
    }
}

/// Fields of a CRL that the acceptance predicate must not consult.
/// dates: 0 = long before thisUpdate, 1 = thisUpdate, 2 = T0+150 s (inside both windows, after the
/// earlier evaluation instants), 3 = nextUpdate, 4 = a day after nextUpdate, 5 = year 2052
/// (GeneralizedTime), 6 = year 1949 (GeneralizedTime).
/// entry_ext: 0 = as the shape says, 1 = reasonCode on every entry, 2 = reasonCode + invalidityDate + critical private extension.
/// number: 0 = as given, 1 = 0, 2 = 2^64, 3 = 2^159-1.
#[derive(Clone, Copy, Debug, PartialEq, Eq, PartialOrd, Ord)]
struct CrlIgn { ee_date: u8, other_date: u8, entry_ext: u8, number: u8, issuer: u8, ee_leading_zero: bool }

impl CrlIgn { const DEFAULT: CrlIgn = CrlIgn { ee_date: 0, other_date: 0, entry_ext: 0, number: 0, issuer: 0, ee_leading_zero: false }; }

const N_DATES: u8 = 7;

fn entry_date(v: u8, this: i64, next: i64) -> i64 {
    match v { 0 => this - 1000, 1 => this, 2 => T0 + 150, 3 => next, 4 => next + 86_400, 5 => 2_600_000_000, _ => -631_152_001 }
}

fn ext(oid: &[u64], critical: bool, value: &[u8]) -> Vec<u8> {
    let mut v = vec![der::oid(oid)];
    if critical { v.push(der::boolean(true)) }
    v.push(der::octets(value));
    der::seq(&v)
}

#[derive(Clone, Debug, PartialEq, Eq, PartialOrd, Ord)]
enum Basic { Absent, EmptySeq, CaTrue }

#[derive(Clone, Debug)]
struct EeSpec {
    serial: Vec<u8>,
    nb: i64, na: i64,
    subject_key: usize,
    sign_key: usize,
    /// SKI extension value (None = SHA-1 of the subject key)
    ski: Option<Vec<u8>>,
    aki: Option<Vec<u8>>,
    basic: Basic,
    key_usage_ext: bool,
    /// spelling of the issuer / subject names (see `name_variant`); not consulted by validation
    issuer: u8,
    subject: u8,
}

fn ee_cert(s: &PoolSigner, e: &EeSpec) -> Vec<u8> {
    let mut exts = Vec::new();
    match e.basic {
        Basic::Absent => {}
        Basic::EmptySeq => exts.push(ext(OID_BASIC_CONSTRAINTS, true, &der::seq(&[]))),
        Basic::CaTrue => exts.push(ext(OID_BASIC_CONSTRAINTS, true, &der::seq(&[der::boolean(true)]))),
    }
    let ski = e.ski.clone().unwrap_or_else(|| s.key(e.subject_key).ski.to_vec());
    exts.push(ext(OID_SKI, false, &der::octets(&ski)));
    if let Some(a) = &e.aki { exts.push(ext(OID_AKI, false, &der::seq(&[der::ctx(0, false, a)]))) }
    if e.key_usage_ext { exts.push(ext(OID_KEY_USAGE, true, &der::bitstring(7, &[0x80]))) }
    let tbs = der::seq(&[
        der::ctx(0, true, &der::int_u(2)),
        der::int_bytes(&e.serial),
        der::alg_sha256_with_rsa(),
        name_variant("peer-ta", e.issuer),
        der::seq(&[x509_time(e.nb), x509_time(e.na)]),
        name_variant("one-off-ee", e.subject),
        s.key(e.subject_key).spki_der.clone(),
        der::ctx(3, true, &der::seq(&exts)),
    ]);
    pki::sign_tbs(s, e.sign_key, &tbs)
}

#[derive(Clone, Debug)]
struct CrlSpec {
    this: i64, next: i64,
    sign_key: usize,
    /// None = field absent; entries: (serial magnitude, with entry extensions)
    revoked: Option<Vec<(Vec<u8>, bool)>>,
    aki: Option<Vec<u8>>,
    number: Option<u128>,
    unknown_ext: bool,
    /// false = no crlExtensions block at all
    ext_block: bool,
    ign: CrlIgn,
    /// which entry is "the EE's" (only to tell ee_date from other_date)
    ee_serial: Vec<u8>,
}

fn crl(s: &PoolSigner, c: &CrlSpec) -> Vec<u8> {
    let mut items = vec![der::int_u(1), der::alg_sha256_with_rsa(), name_variant("peer-ta", c.ign.issuer), x509_time(c.this), x509_time(c.next)];
    if let Some(list) = &c.revoked {
        let entries: Vec<Vec<u8>> = list.iter().map(|(ser, with_ext)| {
            let is_ee = *ser == c.ee_serial;
            let date = entry_date(if is_ee { c.ign.ee_date } else { c.ign.other_date }, c.this, c.next);
            let serial = if is_ee && c.ign.ee_leading_zero { let mut v = vec![0u8]; v.extend_from_slice(ser); der::tlv(der::T_INT, &v) } else { der::int_bytes(ser) };
            let mut e = vec![serial, x509_time(date)];
            let reason = ext(OID_CRL_REASON, false, &der::tlv(0x0a, &[1]));
            match (c.ign.entry_ext, *with_ext) {
                (0, false) => {}
                (0, true) | (1, _) => e.push(der::seq(&[reason])),
                _ => e.push(der::seq(&[reason, ext(&[2, 5, 29, 24], false, &der::gentime(civil(c.this - 5000))), ext(OID_PRIVATE, true, &der::seq(&[der::int_u(1)]))])),
            }
            der::seq(&e)
        }).collect();
        items.push(der::seq(&entries));
    }
    if c.ext_block {
        let mut exts = Vec::new();
        if let Some(a) = &c.aki { exts.push(ext(OID_AKI, false, &der::seq(&[der::ctx(0, false, a)]))) }
        if let Some(n) = c.number {
            let v = match c.ign.number { 0 => der::int_u(n), 1 => der::int_u(0), 2 => der::int_u(1u128 << 64), _ => { let mut b = vec![0x7fu8]; b.extend([0xffu8; 19]); der::int_bytes(&b) } };
            exts.push(ext(OID_CRL_NUMBER, false, &v))
        }
        if c.unknown_ext {
            exts.push(ext(OID_PRIVATE, false, &der::seq(&[der::utf8("hello"), der::int_u(7)])));
            exts.push(ext(OID_ISSUING_DP, true, &der::seq(&[])));
        }
        items.push(der::ctx(0, true, &der::seq(&exts)));
    }
    pki::sign_tbs(s, c.sign_key, &der::seq(&items))
}

//------------ foreign message plan -----------------------------------------------------------

#[derive(Clone, Copy, Debug, PartialEq, Eq, PartialOrd, Ord)]
enum Extra { Bst, Unk1, Unk100, Unk200 }
const EXTRAS: [Extra; 4] = [Extra::Bst, Extra::Unk1, Extra::Unk100, Extra::Unk200];

fn extra_attr(e: Extra, bst_secs: i64) -> Vec<u8> {
    let unk = |n: usize, arc: u64| der::attribute(&[1, 3, 6, 1, 4, 1, 99999, 3, arc], &[der::octets(&(0..n).map(|i| (i * 5 + 1) as u8).collect::<Vec<_>>())]);
    match e {
        Extra::Bst => der::attr_binary_signing_time(bst_secs as u64),
        Extra::Unk1 => unk(1, 1),
        Extra::Unk100 => unk(100, 2),
        Extra::Unk200 => unk(200, 3),
    }
}

#[derive(Clone, Copy, Debug, PartialEq, Eq, PartialOrd, Ord)]
enum DigestV { Ok, FlipFirst, FlipLast, Short31, OfOtherContent }
#[derive(Clone, Copy, Debug, PartialEq, Eq, PartialOrd, Ord)]
enum SigV { Ok, OtherKey, OverImplicitTag, OverMandatoryOnly, FlipLastBit }
/// EE certificate spelling; the first group is benign, the second violates a stated condition.
#[derive(Clone, Copy, Debug, PartialEq, Eq, PartialOrd, Ord)]
enum EeV {
    Plain, NoAki, BasicNotCa, KeyUsage, NbEqualsNow, NaEqualsNow, BigSerial,
    SignedByOther, CaTrue, Expired, NotYetValid,
}
#[derive(Clone, Copy, Debug, PartialEq, Eq, PartialOrd, Ord)]
enum CrlV {
    Plain, RevokedAbsent, ListsOthers, ListsOthersWithExt, NoAki, NoNumber, UnknownExt, ThisEqualsNow, NextEqualsNow,
    SignedByOther, Stale, Future, ListsEeOnly, ListsEeFirst, ListsEeMiddle, ListsEeLast,
}
/// Requirements of the CMS profile the anchored mechanism enforces but the
/// property sentence does not spell out (RFC 6488 s.3 1c, RFC 5652 s.11.1,
/// key identifiers).
#[derive(Clone, Copy, Debug, PartialEq, Eq, PartialOrd, Ord)]
enum ProfV { Ok, SidOther, SkiExtOther, EeAkiWrong, CrlAkiWrong, CtAttrOther, CtBothOther }

impl EeV { fn ok(self) -> bool { self < EeV::SignedByOther } }
impl CrlV { fn ok(self) -> bool { self < CrlV::SignedByOther } }

#[derive(Clone, Debug)]
struct Plan {
    order: [usize; 3],
    extras: Vec<Extra>,
    extras_first: bool,
    st_gen: bool,
    digest: DigestV,
    sig: SigV,
    ee: EeV,
    crl: CrlV,
    prof: ProfV,
    /// values the acceptance predicate must not consult
    st_secs: i64,
    bst_secs: i64,
    sig_alg: u8,
    /// one more unknown signed attribute with a value of this many octets, and whether it is written first
    sized_extra: Option<(usize, bool)>,
    /// this many further unknown signed attributes (distinct OIDs, one-octet values)
    many_extras: usize,
    /// NULL parameters of the digest algorithm: bit 0 in SignedData.digestAlgorithms, bit 1 in SignerInfo.digestAlgorithm
    digest_null: u8,
}

const ATTR_NAMES: [&str; 3] = ["ct", "md", "st"];

impl Plan {
    fn base() -> Plan {
        Plan { order: [0, 1, 2], extras: vec![], extras_first: false, st_gen: false, digest: DigestV::Ok, sig: SigV::Ok, ee: EeV::Plain, crl: CrlV::Plain, prof: ProfV::Ok, st_secs: T0 - 60, bst_secs: T0 - 60, sig_alg: 0, sized_extra: None, many_extras: 0, digest_null: 0 }
    }
    fn stated_ok(&self) -> bool { self.digest == DigestV::Ok && self.sig == SigV::Ok && self.ee.ok() && self.crl.ok() }
    fn all_ok(&self) -> bool { self.stated_ok() && self.prof == ProfV::Ok }
    fn violated(&self) -> Vec<String> {
        let mut v = Vec::new();
        if self.digest != DigestV::Ok { v.push(format!("digest:{:?}", self.digest)) }
        if self.sig != SigV::Ok { v.push(format!("signature:{:?}", self.sig)) }
        if !self.ee.ok() { v.push(format!("ee:{:?}", self.ee)) }
        if !self.crl.ok() { v.push(format!("crl:{:?}", self.crl)) }
        if self.prof != ProfV::Ok { v.push(format!("profile:{:?}", self.prof)) }
        v
    }
    fn witness(&self, via: Via) -> String {
        format!("foreign order={} extras={:?}{} st={} ee={:?} crl={:?} violated=[{}] via={:?} when=T0",
            self.order.iter().map(|&i| ATTR_NAMES[i]).collect::<Vec<_>>().join(","), self.extras, if self.extras_first { "(first)" } else { "" },
            if self.st_gen { "generalized" } else { "utc" }, self.ee, self.crl, self.violated().join(" "), via)
    }
}

struct Fx {
    s: PoolSigner,
    content: Vec<u8>,
    peer: PublicKey,
}

const EE_SERIAL: &[u8] = &[0x12, 0x34, 0x56];

fn ee_serial(v: EeV) -> Vec<u8> {
    if v == EeV::BigSerial { let mut b = vec![0x7f]; b.extend([0xffu8; 19]); b } else { EE_SERIAL.to_vec() }
}

fn plan_ee(fx: &Fx, p: &Plan) -> Vec<u8> {
    let mut e = EeSpec { serial: ee_serial(p.ee), nb: T0 - W, na: T0 + W, subject_key: K_EE, sign_key: K_PEER, ski: None,
                         aki: Some(fx.s.key(K_PEER).ski.to_vec()), basic: Basic::Absent, key_usage_ext: false, issuer: 0, subject: 0 };
    match p.ee {
        EeV::Plain | EeV::BigSerial => {}
        EeV::NoAki => e.aki = None,
        EeV::BasicNotCa => e.basic = Basic::EmptySeq,
        EeV::KeyUsage => e.key_usage_ext = true,
        EeV::NbEqualsNow => e.nb = T0,
        EeV::NaEqualsNow => e.na = T0,
        EeV::SignedByOther => e.sign_key = K_OTHER,
        EeV::CaTrue => e.basic = Basic::CaTrue,
        EeV::Expired => e.na = T0 - 1,
        EeV::NotYetValid => e.nb = T0 + 1,
    }
    match p.prof {
        ProfV::SkiExtOther => e.ski = Some(fx.s.key(K_EE2).ski.to_vec()),
        ProfV::EeAkiWrong => e.aki = Some(fx.s.key(K_OTHER).ski.to_vec()),
        _ => {}
    }
    ee_cert(&fx.s, &e)
}

fn plan_crl(fx: &Fx, p: &Plan) -> Vec<u8> {
    let ee = ee_serial(p.ee);
    let others: Vec<(Vec<u8>, bool)> = vec![
        (vec![0x12, 0x34, 0x55], false), (vec![0x12, 0x34, 0x57], false), (vec![0x12, 0x34], false), (vec![0x12, 0x34, 0x56, 0x00], false),
        (vec![0x34, 0x56], false), (vec![0x01], false), { let mut b = vec![0x7f]; b.extend([0xffu8; 18]); b.push(0xfe); (b, false) },
    ];
    let mut c = CrlSpec { this: T0 - W, next: T0 + W, sign_key: K_PEER, revoked: Some(vec![]), aki: Some(fx.s.key(K_PEER).ski.to_vec()),
                          number: Some(42), unknown_ext: false, ext_block: true, ign: CrlIgn::DEFAULT, ee_serial: EE_SERIAL.to_vec() };
    match p.crl {
        CrlV::Plain => {}
        CrlV::RevokedAbsent => c.revoked = None,
        CrlV::ListsOthers => c.revoked = Some(others.clone()),
        CrlV::ListsOthersWithExt => c.revoked = Some(others.iter().map(|(s, _)| (s.clone(), true)).collect()),
        CrlV::NoAki => c.aki = None,
        CrlV::NoNumber => c.number = None,
        CrlV::UnknownExt => c.unknown_ext = true,
        CrlV::ThisEqualsNow => c.this = T0,
        CrlV::NextEqualsNow => c.next = T0,
        CrlV::SignedByOther => c.sign_key = K_OTHER,
        CrlV::Stale => c.next = T0 - 1,
        CrlV::Future => c.this = T0 + 1,
        CrlV::ListsEeOnly => c.revoked = Some(vec![(ee.clone(), false)]),
        CrlV::ListsEeFirst => { let mut l = vec![(ee.clone(), true)]; l.extend(others.clone()); c.revoked = Some(l) }
        CrlV::ListsEeMiddle => { let mut l = others.clone(); l.insert(3, (ee.clone(), false)); c.revoked = Some(l) }
        CrlV::ListsEeLast => { let mut l: Vec<_> = others.iter().map(|(s, _)| (s.clone(), true)).collect(); l.push((ee.clone(), false)); c.revoked = Some(l) }
    }
    if p.prof == ProfV::CrlAkiWrong { c.aki = Some(fx.s.key(K_OTHER).ski.to_vec()) }
    crl(&fx.s, &c)
}

fn plan_attrs(fx: &Fx, p: &Plan) -> (Vec<Vec<u8>>, Vec<Vec<u8>>) {
    let good = sha256(&fx.content);
    let dg: Vec<u8> = match p.digest {
        DigestV::Ok => good,
        DigestV::FlipFirst => { let mut d = good; d[0] ^= 0x80; d }
        DigestV::FlipLast => { let mut d = good; d[31] ^= 1; d }
        DigestV::Short31 => good[..31].to_vec(),
        DigestV::OfOtherContent => { let mut c = fx.content.clone(); c.push(b' '); sha256(&c) }
    };
    let ct: &[u64] = if p.prof == ProfV::CtAttrOther || p.prof == ProfV::CtBothOther { der::OID_CT_ROA } else { der::OID_CT_PROTOCOL };
    let t = if p.st_gen { der::gentime(civil(p.st_secs)) } else { der::time_auto(civil(p.st_secs)) };
    let base = [der::attr_content_type(ct), der::attr_message_digest(&dg), der::attr_signing_time(t)];
    let mandatory: Vec<Vec<u8>> = p.order.iter().map(|&i| base[i].clone()).collect();
    let extras: Vec<Vec<u8>> = p.extras.iter().map(|e| extra_attr(*e, p.bst_secs)).collect();
    let mut all = Vec::new();
    if p.extras_first { all.extend(extras.clone()); all.extend(mandatory.clone()) } else { all.extend(mandatory.clone()); all.extend(extras) }
    for i in 0..p.many_extras { all.push(der::attribute(&[1, 3, 6, 1, 4, 1, 99999, 4, 100 + i as u64], &[der::octets(&[i as u8])])) }
    if let Some((n, first)) = p.sized_extra {
        let a = der::attribute(&[1, 3, 6, 1, 4, 1, 99999, 3, 9], &[der::octets(&(0..n).map(|i| (i * 3 + 2) as u8).collect::<Vec<_>>())]);
        if first { all.insert(0, a) } else { all.push(a) }
    }
    (all, mandatory)
}

/// The signed attributes of a plan and the signature over them (independent of certificate and CRL).
struct Presigned { attrs: Vec<Vec<u8>>, signature: Vec<u8> }

fn presign(fx: &Fx, p: &Plan) -> Presigned {
    let (attrs, mandatory) = plan_attrs(fx, p);
    let tbs = match p.sig {
        SigV::OverImplicitTag => der::tlv(0xA0, &der::cat(&attrs)),
        SigV::OverMandatoryOnly => der::signed_attrs_tbs(&mandatory),
        _ => der::signed_attrs_tbs(&attrs),
    };
    let mut signature = fx.s.sign_raw(if p.sig == SigV::OtherKey { K_EE2 } else { K_EE }, &tbs);
    if p.sig == SigV::FlipLastBit { let n = signature.len(); signature[n - 1] ^= 1 }
    Presigned { attrs, signature }
}

fn wrap(fx: &Fx, p: &Plan, ps: &Presigned, sid_other: bool, ee: &[u8], crl: &[u8]) -> Vec<u8> {
    let sid = if sid_other || p.prof == ProfV::SidOther || p.prof == ProfV::SkiExtOther { fx.s.key(K_EE2).ski.to_vec() } else { fx.s.key(K_EE).ski.to_vec() };
    der::signed_data(&SignedDataParts {
        version: 3,
        digest_alg_set: der::set_unsorted(&[der::alg_sha256(p.digest_null & 1 != 0)]),
        econtent_type: if p.prof == ProfV::CtBothOther { der::OID_CT_ROA.to_vec() } else { der::OID_CT_PROTOCOL.to_vec() },
        econtent: fx.content.clone(),
        certificates: vec![ee.to_vec()],
        crls: vec![crl.to_vec()],
        si_version: 3,
        sid,
        si_digest_alg: der::alg_sha256(p.digest_null & 2 != 0),
        signed_attrs: ps.attrs.clone(),
        sig_alg: match p.sig_alg { 0 => der::alg_rsa_encryption(), 1 => der::alg_sha256_with_rsa(), 2 => der::seq(&[der::oid(der::OID_RSA_ENCRYPTION)]), _ => der::seq(&[der::oid(der::OID_SHA256_WITH_RSA)]) },
        signature: ps.signature.clone(),
    })
}

fn assemble(fx: &Fx, p: &Plan, ee: &[u8], crl: &[u8]) -> Vec<u8> { wrap(fx, p, &presign(fx, p), false, ee, crl) }

//------------ composable certificate / CRL options (product space) --------------------------------

const NARROW: i64 = 300;
const WIDE: i64 = 1000;

/// aki: 0 = issuer's key identifier, 1 = extension absent, 2 = another key's identifier.
/// basic: 0 = extension absent, 1 = present without cA, 2 = cA TRUE.
#[derive(Clone, Copy, Debug, PartialEq, Eq, PartialOrd, Ord)]
struct EeO { aki: u8, basic: u8, key_usage: bool, big_serial: bool, other_key: bool, wide: bool, ski_other: bool }

/// revoked: 0 empty list, 1 field absent, 2 other serials, 3 other serials with entry extensions,
/// 4 only the EE serial, 5 EE serial first, 6 in the middle, 7 last.
#[derive(Clone, Copy, Debug, PartialEq, Eq, PartialOrd, Ord)]
struct CrlO { aki: u8, number: bool, unknown_ext: bool, revoked: u8, other_key: bool, wide: bool }

const EE_BASE: EeO = EeO { aki: 0, basic: 0, key_usage: false, big_serial: false, other_key: false, wide: false, ski_other: false };
const CRL_BASE: CrlO = CrlO { aki: 0, number: true, unknown_ext: false, revoked: 0, other_key: false, wide: false };

fn ee_full() -> Vec<EeO> {
    let mut v = Vec::new();
    for aki in 0..3 { for basic in 0..3 { for key_usage in [false, true] { for big_serial in [false, true] { for other_key in [false, true] { for wide in [false, true] { for ski_other in [false, true] {
        v.push(EeO { aki, basic, key_usage, big_serial, other_key, wide, ski_other })
    }}}}}}}
    v
}
fn ee_reduced() -> Vec<EeO> {
    let b = EE_BASE;
    vec![b, EeO { aki: 1, ..b }, EeO { aki: 2, ..b }, EeO { basic: 1, ..b }, EeO { basic: 2, ..b }, EeO { key_usage: true, ..b }, EeO { big_serial: true, ..b },
         EeO { other_key: true, ..b }, EeO { wide: true, ..b }, EeO { ski_other: true, ..b }]
}
fn crl_full() -> Vec<CrlO> {
    let mut v = Vec::new();
    for aki in 0..3 { for number in [true, false] { for unknown_ext in [false, true] { for revoked in 0..8 { for other_key in [false, true] { for wide in [false, true] {
        v.push(CrlO { aki, number, unknown_ext, revoked, other_key, wide })
    }}}}}}
    v
}
fn crl_reduced() -> Vec<CrlO> {
    let b = CRL_BASE;
    let mut v = vec![b, CrlO { aki: 1, ..b }, CrlO { aki: 2, ..b }, CrlO { number: false, ..b }, CrlO { unknown_ext: true, ..b }, CrlO { other_key: true, ..b }, CrlO { wide: true, ..b }];
    for r in 1..8 { v.push(CrlO { revoked: r, ..b }) }
    v
}

fn aki_value(s: &PoolSigner, n: u8) -> Option<Vec<u8>> {
    match n { 0 => Some(s.key(K_PEER).ski.to_vec()), 1 => None, _ => Some(s.key(K_OTHER).ski.to_vec()) }
}

fn big_or_small_serial(big: bool) -> Vec<u8> { ee_serial(if big { EeV::BigSerial } else { EeV::Plain }) }

fn ee_from(s: &PoolSigner, o: &EeO) -> Vec<u8> {
    let w = if o.wide { WIDE } else { NARROW };
    ee_cert(s, &EeSpec { serial: big_or_small_serial(o.big_serial), nb: T0 - w, na: T0 + w, subject_key: K_EE, sign_key: if o.other_key { K_OTHER } else { K_PEER },
        ski: if o.ski_other { Some(s.key(K_EE2).ski.to_vec()) } else { None }, aki: aki_value(s, o.aki),
        basic: match o.basic { 0 => Basic::Absent, 1 => Basic::EmptySeq, _ => Basic::CaTrue }, key_usage_ext: o.key_usage, issuer: 0, subject: 0 })
}

fn other_serials() -> Vec<Vec<u8>> {
    vec![vec![0x12, 0x34, 0x55], vec![0x12, 0x34, 0x57], vec![0x12, 0x34], vec![0x12, 0x34, 0x56, 0x00], vec![0x34, 0x56], vec![0x01],
         { let mut b = vec![0x7f]; b.extend([0xffu8; 18]); b.push(0xfe); b }]
}

fn crl_from(s: &PoolSigner, o: &CrlO, big_serial: bool) -> Vec<u8> { crl_from_ign(s, o, big_serial, CrlIgn::DEFAULT) }

fn crl_from_ign(s: &PoolSigner, o: &CrlO, big_serial: bool, ign: CrlIgn) -> Vec<u8> {
    let w = if o.wide { WIDE } else { NARROW };
    let ee = big_or_small_serial(big_serial);
    let others = other_serials();
    let revoked: Option<Vec<(Vec<u8>, bool)>> = match o.revoked {
        0 => Some(vec![]),
        1 => None,
        2 => Some(others.iter().map(|x| (x.clone(), false)).collect()),
        3 => Some(others.iter().map(|x| (x.clone(), true)).collect()),
        4 => Some(vec![(ee, false)]),
        5 => { let mut l = vec![(ee, true)]; l.extend(others.iter().map(|x| (x.clone(), false))); Some(l) }
        6 => { let mut l: Vec<_> = others.iter().map(|x| (x.clone(), false)).collect(); l.insert(3, (ee, false)); Some(l) }
        _ => { let mut l: Vec<_> = others.iter().map(|x| (x.clone(), true)).collect(); l.push((ee, false)); Some(l) }
    };
    crl(s, &CrlSpec { this: T0 - w, next: T0 + w, sign_key: if o.other_key { K_OTHER } else { K_PEER }, revoked, aki: aki_value(s, o.aki),
        number: if o.number { Some(42) } else { None }, unknown_ext: o.unknown_ext, ext_block: true, ign, ee_serial: big_or_small_serial(big_serial) })
}

fn show_ee(o: &EeO) -> String {
    format!("ee{{aki={} basic={} keyUsage={} serial={} signed-by={} window={} ski={}}}", ["right", "absent", "wrong"][o.aki as usize], ["absent", "empty", "cA"][o.basic as usize],
        o.key_usage as u8, if o.big_serial { "20-octet" } else { "small" }, if o.other_key { "other" } else { "peer" }, if o.wide { "wide" } else { "narrow" }, if o.ski_other { "other" } else { "key-hash" })
}
fn show_crl(o: &CrlO) -> String {
    format!("crl{{aki={} number={} unknown-ext={} revoked={} signed-by={} window={}}}", ["right", "absent", "wrong"][o.aki as usize], o.number as u8, o.unknown_ext as u8,
        ["empty", "absent", "others", "others+ext", "ee-only", "ee-first", "ee-middle", "ee-last"][o.revoked as usize], if o.other_key { "other" } else { "peer" }, if o.wide { "wide" } else { "narrow" })
}

fn within(wide: bool, off: i64) -> bool { let w = if wide { WIDE } else { NARROW }; -w <= off && off <= w }

/// Certificates and CRLs are pure functions of a few plan fields: build each once.
struct Cache { ee: Mutex<BTreeMap<(EeV, ProfV), Vec<u8>>>, crl: Mutex<BTreeMap<(CrlV, ProfV, bool), Vec<u8>>> }

impl Cache {
    fn new() -> Cache { Cache { ee: Mutex::new(BTreeMap::new()), crl: Mutex::new(BTreeMap::new()) } }
    fn ee(&self, fx: &Fx, p: &Plan) -> Vec<u8> {
        let pk = match p.prof { ProfV::SkiExtOther | ProfV::EeAkiWrong => p.prof, _ => ProfV::Ok };
        if let Some(v) = self.ee.lock().unwrap().get(&(p.ee, pk)) { return v.clone() }
        let v = plan_ee(fx, p);
        self.ee.lock().unwrap().insert((p.ee, pk), v.clone());
        v
    }
    fn crl(&self, fx: &Fx, p: &Plan) -> Vec<u8> {
        let pk = if p.prof == ProfV::CrlAkiWrong { p.prof } else { ProfV::Ok };
        let big = p.ee == EeV::BigSerial;
        if let Some(v) = self.crl.lock().unwrap().get(&(p.crl, pk, big)) { return v.clone() }
        let v = plan_crl(fx, p);
        self.crl.lock().unwrap().insert((p.crl, pk, big), v.clone());
        v
    }
    fn build(&self, fx: &Fx, p: &Plan) -> Vec<u8> { assemble(fx, p, &self.ee(fx, p), &self.crl(fx, p)) }
}

#[derive(Clone, Copy, Debug)]
enum Viol { D(DigestV), S(SigV), E(EeV), C(CrlV), P(ProfV) }

impl Viol {
    /// Conditions: 0 digest, 1 signature, 2 EE issuer, 3 EE current, 4 EE not CA, 5 CRL issuer, 6 CRL current, 7 CRL does not list, 8.. profile
    fn cond(self) -> u8 {
        match self {
            Viol::D(_) => 0, Viol::S(_) => 1,
            Viol::E(EeV::SignedByOther) => 2, Viol::E(EeV::Expired) | Viol::E(EeV::NotYetValid) => 3, Viol::E(_) => 4,
            Viol::C(CrlV::SignedByOther) => 5, Viol::C(CrlV::Stale) | Viol::C(CrlV::Future) => 6, Viol::C(_) => 7,
            Viol::P(x) => 8 + x as u8,
        }
    }
    /// Which plan field it occupies (two violations in the same field cannot be combined).
    fn field(self) -> u8 { match self { Viol::D(_) => 0, Viol::S(_) => 1, Viol::E(_) => 2, Viol::C(_) => 3, Viol::P(_) => 4 } }
    fn apply(self, p: &mut Plan) { match self { Viol::D(x) => p.digest = x, Viol::S(x) => p.sig = x, Viol::E(x) => p.ee = x, Viol::C(x) => p.crl = x, Viol::P(x) => p.prof = x } }
}

fn all_violations() -> Vec<Viol> {
    let mut v = Vec::new();
    v.extend([DigestV::FlipFirst, DigestV::FlipLast, DigestV::Short31, DigestV::OfOtherContent].map(Viol::D));
    v.extend([SigV::OtherKey, SigV::OverImplicitTag, SigV::OverMandatoryOnly, SigV::FlipLastBit].map(Viol::S));
    v.extend([EeV::SignedByOther, EeV::CaTrue, EeV::Expired, EeV::NotYetValid].map(Viol::E));
    v.extend([CrlV::SignedByOther, CrlV::Stale, CrlV::Future, CrlV::ListsEeOnly, CrlV::ListsEeFirst, CrlV::ListsEeMiddle, CrlV::ListsEeLast].map(Viol::C));
    v.extend([ProfV::SidOther, ProfV::SkiExtOther, ProfV::EeAkiWrong, ProfV::CrlAkiWrong, ProfV::CtAttrOther, ProfV::CtBothOther].map(Viol::P));
    v
}

fn extras_subsets() -> Vec<Vec<Extra>> {
    let mut v = Vec::new();
    for m in 0..16u32 { if m.count_ones() <= 3 { v.push((0..4).filter(|i| m >> i & 1 == 1).map(|i| EXTRAS[i]).collect()) } }
    v
}

fn expect(_ctx: &Ctx, oa: &str, or: &str, want: bool, v: &Verdict, witness: impl FnOnce() -> String) {
    if let Verdict::Panic(p) = v { fail("C10.no_panic", witness(), p.clone()); return }
    if want && !v.accepted() {
        fail(oa, witness(), format!("all conditions hold but the message was rejected: {}", trunc(&v.show(), 200)));
    } else if !want && v.accepted() {
        fail(or, witness(), "a condition is violated but the message validated");
    }
}

//------------ reading the validity of a library-created message (TLV reader, own time parser) ---

fn parse_x509_time(tag: u8, txt: &[u8]) -> i64 {
    let s = std::str::from_utf8(txt).unwrap();
    let (y, rest) = if tag == der::T_UTCTIME {
        let yy: i32 = s[0..2].parse().unwrap();
        (if yy < 50 { 2000 + yy } else { 1900 + yy }, &s[2..])
    } else { (s[0..4].parse().unwrap(), &s[4..]) };
    let n = |i: usize| rest[i..i + 2].parse::<u32>().unwrap();
    chrono::NaiveDate::from_ymd_opt(y, n(0), n(2)).unwrap().and_hms_opt(n(4), n(6), n(8)).unwrap().and_utc().timestamp()
}

/// (notBefore, notAfter) of the embedded EE certificate and (thisUpdate, nextUpdate) of the CRL.
fn embedded_windows(cms: &[u8]) -> ((i64, i64), (i64, i64)) {
    let root = der::parse_one(cms, false).expect("cms parses");
    let sd = &root.children[1].children[0];
    let certs = sd.children.iter().find(|n| n.tag == 0xA0).expect("certificates");
    let tbs = &certs.children[0].children[0];
    let val = &tbs.children[4];
    let t = |n: &der::Node| parse_x509_time(n.tag, n.content(cms));
    let crls = sd.children.iter().find(|n| n.tag == 0xA1).expect("crls");
    let ctbs = &crls.children[0].children[0];
    ((t(&val.children[0]), t(&val.children[1])), (t(&ctbs.children[3]), t(&ctbs.children[4])))
}

//------------ BER respelling of one field of a DER object ----------------------------------------------

#[derive(Clone, Debug, PartialEq, Eq, PartialOrd, Ord)]
enum Spell {
    /// definite length with one superfluous length octet
    NonMinimal,
    /// definite length written as 0x84 + four octets
    Long4,
    /// indefinite length + end-of-contents (constructed values only)
    Indefinite,
    /// primitive string written constructed, cut at these positions into OCTET STRING segments
    Segments(Vec<usize>),
}

impl Spell {
    fn name(&self) -> String {
        match self { Spell::NonMinimal => "non-minimal-length".into(), Spell::Long4 => "4-octet-length".into(), Spell::Indefinite => "indefinite-length".into(),
            Spell::Segments(c) => format!("constructed-{}-segments-cut-at-{:?}", c.len() + 1, c) }
    }
}

/// Re-writes `node` (and nothing else) of the DER object `buf` in another BER spelling.
fn respell(buf: &[u8], node: &der::Node, path: &mut Vec<usize>, target: &[usize], sp: &Spell) -> Vec<u8> {
    if !target.starts_with(path) { return node.whole(buf).to_vec() }
    let is_target = path.as_slice() == target;
    let content: Vec<u8> = if node.constructed() {
        let mut c = Vec::new();
        for (i, ch) in node.children.iter().enumerate() { path.push(i); c.extend(respell(buf, ch, path, target, sp)); path.pop(); }
        c
    } else { node.content(buf).to_vec() };
    if !is_target { return der::tlv(node.tag, &content) }
    let n = content.len();
    let mut out = Vec::new();
    match sp {
        Spell::NonMinimal => {
            out.push(node.tag);
            if n < 128 { out.extend([0x81, n as u8]) } else { let l = der::len_octets(n); out.push(l[0] + 1); out.push(0); out.extend(&l[1..]) }
            out.extend(content);
        }
        Spell::Long4 => { out.push(node.tag); out.push(0x84); out.extend((n as u32).to_be_bytes()); out.extend(content) }
        Spell::Indefinite => { out.push(node.tag); out.push(0x80); out.extend(content); out.extend([0, 0]) }
        Spell::Segments(cuts) => {
            let mut segs = Vec::new();
            let mut prev = 0;
            for &c in cuts.iter().chain(std::iter::once(&n)) { segs.extend(der::tlv(der::T_OCTSTR, &content[prev..c])); prev = c }
            out = der::tlv(node.tag | 0x20, &segs);
        }
    }
    out
}

/// All ways to cut `n` octets into `k` non-empty segments (cut positions).
fn cuts_into(n: usize, k: usize) -> Vec<Vec<usize>> {
    fn rec(start: usize, n: usize, left: usize, cur: &mut Vec<usize>, out: &mut Vec<Vec<usize>>) {
        if left == 0 { out.push(cur.clone()); return }
        for c in start..n { cur.push(c); rec(c + 1, n, left - 1, cur, out); cur.pop(); }
    }
    let mut out = Vec::new();
    rec(1, n, k - 1, &mut Vec::new(), &mut out);
    out
}

/// (field name, path, spellings) for a CMS SignedData object.
fn cms_fields(buf: &[u8], full_sid: bool) -> Vec<(&'static str, Vec<usize>, Vec<Spell>)> {
    let root = der::parse_one(buf, false).expect("object of the independent encoder parses");
    let sd = &root.children[1].children[0];
    let si_idx = sd.children.len() - 1;
    let si = vec![1, 0, si_idx, 0];
    let hdr = || vec![Spell::NonMinimal, Spell::Long4, Spell::Indefinite];
    let with = |p: &[usize], i: usize| { let mut v = p.to_vec(); v.push(i); v };
    let mut f: Vec<(&'static str, Vec<usize>, Vec<Spell>)> = vec![
        ("ContentInfo", vec![], hdr()), ("content[0]", vec![1], hdr()), ("SignedData", vec![1, 0], hdr()), ("version", vec![1, 0, 0], vec![Spell::NonMinimal, Spell::Long4]),
        ("digestAlgorithms", vec![1, 0, 1], hdr()), ("digestAlgorithm", vec![1, 0, 1, 0], hdr()), ("encapContentInfo", vec![1, 0, 2], hdr()),
        ("eContentType", vec![1, 0, 2, 0], vec![Spell::NonMinimal, Spell::Long4]), ("eContent[0]", vec![1, 0, 2, 1], hdr()),
        ("certificates[0]", vec![1, 0, 3], hdr()), ("Certificate", vec![1, 0, 3, 0], hdr()),
        ("signerInfos", vec![1, 0, si_idx], hdr()), ("SignerInfo", si.clone(), hdr()), ("SignerInfo.version", with(&si, 0), vec![Spell::NonMinimal, Spell::Long4]),
        ("SignerInfo.digestAlgorithm", with(&si, 2), hdr()), ("signedAttrs[0]", with(&si, 3), hdr()), ("signatureAlgorithm", with(&si, 4), hdr()),
    ];
    if si_idx == 5 { f.push(("crls[1]", vec![1, 0, 4], hdr())); f.push(("CertificateList", vec![1, 0, 4, 0], hdr())) }
    // eContent OCTET STRING
    let ec = &sd.children[2].children[1].children[0];
    let mut sp = vec![Spell::NonMinimal, Spell::Long4];
    for k in [1usize, 2, 3, 4, 17] { if ec.len >= k { sp.push(Spell::Segments((1..k).map(|i| i * ec.len / k).collect())) } }
    f.push(("eContent", vec![1, 0, 2, 1, 0], sp));
    // sid [0]: every split into 1..=4 segments (full) or a few, and 20 segments
    let mut sp = vec![Spell::NonMinimal, Spell::Long4, Spell::Segments(vec![])];
    if full_sid { for k in 2..=4 { sp.extend(cuts_into(20, k).into_iter().map(Spell::Segments)) } }
    else { sp.extend([vec![1], vec![10], vec![19], vec![1, 2], vec![7, 14], vec![5, 10, 15]].map(Spell::Segments)) }
    sp.push(Spell::Segments((1..20).collect()));
    f.push(("sid[0]", with(&si, 1), sp));
    // signature OCTET STRING
    let mut sp = vec![Spell::NonMinimal, Spell::Long4];
    for k in [1usize, 2, 3, 4, 16, 256] { sp.push(Spell::Segments((1..k).collect::<Vec<_>>().iter().map(|i| i * 256 / k).collect())) }
    f.push(("signature", with(&si, 5), sp));
    f
}


//------------ deterministic failure reporting ---------------------------------------------
// Failures found on worker threads are collected and handed to the report in
// sorted order, so that the (at most three) printed witnesses per oracle do
// not depend on thread timing.

static FAILS: Mutex<Vec<(String, String, String)>> = Mutex::new(Vec::new());

fn fail(oracle: &str, witness: impl Into<String>, detail: impl Into<String>) {
    FAILS.lock().unwrap().push((oracle.to_string(), witness.into(), detail.into()));
}

fn flush_fails(ctx: &Ctx) {
    let mut v = std::mem::take(&mut *FAILS.lock().unwrap());
    v.sort();
    for (o, w, d) in v { ctx.fail(&o, w, d) }
}

//------------ main -------------------------------------------------------------------------------

fn main() {
    let ctx = Ctx::new("C10", "exploration");
    ctx.assume("aws-lc RSA PKCS#1 v1.5 / SHA-256 / SHA-1 are correct (used by both the library and the independent signer)");
    ctx.assume("keys are the 8 fixed pool keys; the library's one-off key is pool key 7");
    ctx.assume("ProvisioningCms::create / PublicationCms::create take their window from the wall clock; the evaluation instants are derived from the window read back out of the message");
    let s = PoolSigner::load();
    let peer = s.public(K_PEER);
    let fx = Fx { content: publication::Message::list_query().to_xml_bytes().to_vec(), peer: peer.clone(), s };
    let s = &fx.s;
    let thorough = ctx.tier.is_thorough();
    let perms: Vec<[usize; 3]> = permutations(3).into_iter().map(|p| [p[0], p[1], p[2]]).collect();
    let keys = [(K_PEER, "signing"), (K_OTHER, "other-1"), (K_THIRD, "other-2")];
    // the peer's identity certificate, as a relying party would hold it
    let peer_cert = IdCert::new_ta(Validity::new(pki::time(T0 - 86_400), pki::time(T0 + 86_400)), &s.kid(K_PEER), s).expect("id ta");
    if peer_cert.public_key() != &peer { ctx.machinery_error("peer IdCert does not carry pool key 0") }

    //--- (a1) SignedMessage::create --------------------------------------------------------------
    {
        let sp = ctx.space("created.signed_message",
            "SignedMessage::create for content sizes {0,1,1000,4095,4096,4097,65535,65536,65537,100000} x all validity windows (nb <= na) over 8 instants around the UTCTime/GeneralizedTime switches (1949/1950, 2049/2050), the epoch, T0, T0+600 and year 9999 x 10 evaluation instants (nb-1s, nb-1ns, nb, nb+1ns, midpoint, na-1ns, na, na+1ns, na+0.5s, na+1s) x 3 keys x {as created, re-decoded strict, re-decoded relaxed}: validates <=> signing key and nb <= t <= na; non-trivial = evaluations at a window boundary or under another key");
        let dom: Vec<i64> = vec![-631_152_001, -631_152_000, 0, T0, T0 + 600, 2_524_607_999, 2_524_608_000, 253_402_300_799];
        let sizes: Vec<usize> = vec![0, 1, 1000, 4095, 4096, 4097, 65_535, 65_536, 65_537, 100_000];
        let mut jobs = Vec::new();
        for (i, &nb) in dom.iter().enumerate() { for &na in &dom[i..] { for &n in &sizes { jobs.push((nb, na, n)) } } }
        let oc: Mutex<BTreeMap<&'static str, u64>> = Mutex::new(BTreeMap::new());
        let nt = Mutex::new(0u64);
        jobs.par_iter().for_each(|&(nb, na, n)| {
            let data: Vec<u8> = (0..n).map(|i| b"<msg/>\n"[i % 7]).collect();
            let w = |extra: &str| format!("SignedMessage::create content={n}B window=[{nb},{na}] (unix seconds) {extra}");
            let made = guard(|| SignedMessage::create(Bytes::from(data.clone()), Validity::new(pki::time(nb), pki::time(na)), &s.kid(K_PEER), s));
            let msg = match made {
                Ok(Ok(m)) => m,
                Ok(Err(e)) => { fail("C10.created.valid_within", w("create"), format!("create failed: {e}")); return }
                Err(p) => { fail("C10.no_panic", w("create"), p); return }
            };
            let bytes = match guard(|| msg.to_captured().into_bytes()) { Ok(b) => b, Err(p) => { fail("C10.no_panic", w("encode"), p); return } };
            for (ti, (t, ns)) in window_instants(nb, na).into_iter().enumerate() {
                for (k, kname) in keys {
                    let want = k == K_PEER && (nb, 0) <= (t, ns) && (t, ns) <= (na, 0);
                    let key = s.public(k);
                    let direct = match guard(|| msg.validate_at(&key, at(t, ns))) { Ok(Ok(())) => Verdict::Accept, Ok(Err(e)) => Verdict::Invalid(e.to_string()), Err(p) => Verdict::Panic(p) };
                    let results = [("as-created", direct), ("strict", run_ns(&bytes, &key, t, ns, Via::Strict)), ("relaxed", run_ns(&bytes, &key, t, ns, Via::Relaxed))];
                    for (how, v) in results {
                        sp.eval();
                        *oc.lock().unwrap().entry(v.class()).or_insert(0) += 1;
                        if ti != MID || k != K_PEER { *nt.lock().unwrap() += 1 }
                        let (oa, or) = ("C10.created.valid_within", if k != K_PEER { "C10.created.other_key" } else { "C10.created.invalid_outside" });
                        expect(&ctx, oa, or, want, &v, || w(&format!("t={t}s+{ns}ns key={kname} {how}")));
                    }
                }
            }
        });
        sp.merge_outcomes(&oc.lock().unwrap());
        sp.nontrivial(*nt.lock().unwrap());
        sp.set("instants", serde_json::json!(dom));
        sp.sample_str(|| "SignedMessage::create content=1000B window=[2524607999,2524608000] t=2524608000 key=signing strict -> validated".to_string());
        sp.done(true, "36 windows x 10 sizes x 10 instants x 3 keys x 3 routes");
    }

    //--- (a2) ProvisioningCms::create / PublicationCms::create ---------------------------------------
    {
        let sp = ctx.space("created.protocol_cms",
            "ProvisioningCms::create for {list, revoke} and PublicationCms::create for {list query, publish of 1 / 700 / 75000 octets, delta with publish + update + withdraw, empty delta, list reply with 0 / 2 elements, success} (XML content from ~100 to ~100000 octets); window read back from the embedded EE certificate; 10 instants (down to 1 ns around both bounds) x 3 keys through the typed decoder and SignedMessage::decode strict/relaxed; EE and CRL windows must coincide and span 10 minutes. For every message also the sibling sweep: validate(key) == validate_at(key, Time::now()) for the CMS and for the unpacked SignedMessage; decode().message() / into_message() / unpack() give back the message that went in, the unpacked SignedMessage carries exactly its XML and validates like the CMS; the message's accessors (sender, recipient, unpack, is_list_response, request key / class; as_query / as_reply, delta len / is_empty / elements, publish / update / withdraw / list element tag, uri, content, hash, unpack, into_elements, into_withdraw_delta, Base64 as_str / to_bytes / size_approx) return what was put in; non-trivial = evaluations at a boundary or under another key, and every sibling comparison");
        let sender = SenderHandle::from_str("child").unwrap();
        let recipient = RecipientHandle::from_str("parent").unwrap();
        #[derive(Clone)]
        enum Orig { Prov(provisioning::Message), Pub(publication::Message) }
        /// what went into a publication message: (kind, tag, uri, content, hash)
        type Elem = (&'static str, Option<String>, String, Vec<u8>, Vec<u8>);
        let mut made: Vec<(String, Via, Vec<u8>, usize, Orig, Vec<Elem>)> = Vec::new();
        let prov = vec![
            ("provisioning list", provisioning::Message::list(sender.clone(), recipient.clone())),
            ("provisioning revoke", provisioning::Message::revoke(sender.clone(), recipient.clone(), RevocationRequest::new("rc0".into(), s.ski(K_THIRD)))),
        ];
        for (nm, m) in prov {
            let n = m.to_xml_bytes().len();
            let orig = Orig::Prov(m.clone());
            match guard(|| ProvisioningCms::create(m, &s.kid(K_PEER), s).map(|c| c.to_bytes().to_vec())) {
                Ok(Ok(b)) => made.push((nm.to_string(), Via::Provisioning, b, n, orig, vec![])),
                Ok(Err(e)) => fail("C10.created.valid_within", nm, format!("create failed: {e}")),
                Err(p) => fail("C10.no_panic", nm, p),
            }
        }
        let body = |n: usize, k: usize| -> Vec<u8> { (0..n).map(|i| (i * 31 + 7 + k) as u8).collect() };
        let uri = |k: usize| format!("rsync://example.net/repo/ca/obj{k}.roa");
        let mut pubs: Vec<(String, publication::Message, Vec<Elem>)> = vec![("publication list query".to_string(), publication::Message::list_query(), vec![])];
        for n in [1usize, 700, 75_000] {
            let mut d = PublishDelta::empty();
            let c = body(n, 0);
            let p = Publish::with_hash_tag(pki::rsync(&uri(0)), Base64::from_content(&c));
            let tag = p.tag().cloned();
            d.add_publish(p);
            pubs.push((format!("publication publish {n}B"), publication::Message::delta(d), vec![("publish", tag, uri(0), c, vec![])]));
        }
        {
            let mut d = PublishDelta::empty();
            let (c1, c2, old, gone) = (body(10, 1), body(33, 2), body(5, 3), body(7, 4));
            d.add_publish(Publish::new(Some("tag-1".into()), pki::rsync(&uri(1)), Base64::from_content(&c1)));
            d.add_update(publication::Update::new(None, pki::rsync(&uri(2)), Base64::from_content(&c2), rpki::rrdp::Hash::from_data(&old)));
            d.add_withdraw(publication::Withdraw::new(Some("tag-3".into()), pki::rsync(&uri(3)), rpki::rrdp::Hash::from_data(&gone)));
            pubs.push(("publication delta publish+update+withdraw".into(), publication::Message::delta(d), vec![
                ("publish", Some("tag-1".into()), uri(1), c1, vec![]), ("update", None, uri(2), c2, sha256(&old)), ("withdraw", Some("tag-3".into()), uri(3), vec![], sha256(&gone))]));
            pubs.push(("publication empty delta".into(), publication::Message::delta(PublishDelta::empty()), vec![]));
            let els: Vec<Elem> = (5..7).map(|k| ("list", None, uri(k), vec![], sha256(&body(20, k)))).collect();
            let lr = publication::ListReply::new((5..7).map(|k| publication::ListElement::new(pki::rsync(&uri(k)), rpki::rrdp::Hash::from_data(&body(20, k)))).collect());
            pubs.push(("publication list reply 2".into(), publication::Message::list_reply(lr), els));
            pubs.push(("publication list reply 0".into(), publication::Message::list_reply(publication::ListReply::empty()), vec![]));
            pubs.push(("publication success".into(), publication::Message::success(), vec![]));
        }
        for (nm, m, els) in pubs {
            let n = m.to_xml_bytes().len();
            let orig = Orig::Pub(m.clone());
            match guard(|| PublicationCms::create(m, &s.kid(K_PEER), s).map(|c| c.to_bytes().to_vec())) {
                Ok(Ok(b)) => made.push((nm, Via::Publication, b, n, orig, els)),
                Ok(Err(e)) => fail("C10.created.valid_within", nm, format!("create failed: {e}")),
                Err(p) => fail("C10.no_panic", nm, p),
            }
        }
        let mut sizes = Vec::new();
        for (nm, via, bytes, n, orig, els) in &made {
            sizes.push(format!("{nm}: {n}B"));
            let ((nb, na), (tu, nu)) = embedded_windows(bytes);
            if (nb, na) != (tu, nu) || na - nb != 600 {
                fail("C10.created.window", nm.clone(), format!("EE window [{nb},{na}] (relative: {} s), CRL window [{tu},{nu}]", na - nb));
            }
            for (ti, (t, ns)) in window_instants(nb, na).into_iter().enumerate() {
                for (k, kname) in keys {
                    let want = k == K_PEER && (nb, 0) <= (t, ns) && (t, ns) <= (na, 0);
                    for v in [*via, Via::Strict, Via::Relaxed] {
                        let r = run_ns(bytes, &s.public(k), t, ns, v);
                        sp.eval(); sp.outcome(r.class());
                        if ti != MID || k != K_PEER { sp.nontrivial(1) }
                        let or = if k != K_PEER { "C10.created.other_key" } else { "C10.created.invalid_outside" };
                        expect(&ctx, "C10.created.valid_within", or, want, &r, || format!("{nm} ({n}B XML) t=notBefore{:+}s+{ns}ns key={kname} via={v:?}", t - nb));
                    }
                }
            }
            // sibling sweep
            let mid = pki::time(nb + 300);
            let bad: Result<Vec<String>, String> = guard(|| {
                let mut bad: Vec<String> = Vec::new();
                let mut chk = |ok: bool, what: &str| if !ok { bad.push(what.to_string()) };
                match orig {
                    Orig::Prov(m) => {
                        let cms = match ProvisioningCms::decode(bytes) { Ok(c) => c, Err(e) => return vec![format!("typed decode failed: {e}")] };
                        chk(cms.message() == m, "decode().message() != message given to create");
                        chk(&cms.clone().into_message() == m, "into_message() != message given to create");
                        let (signed, msg) = cms.clone().unpack();
                        chk(&msg == m, "unpack().1 != message given to create");
                        chk(signed.content().to_bytes() == m.to_xml_bytes(), "unpack().0 does not carry the message's XML");
                        for (k, _) in keys {
                            let key = s.public(k);
                            chk(cms.validate(&key).is_ok() == cms.validate_at(&key, Time::now()).is_ok(), "ProvisioningCms::validate != validate_at(now)");
                            chk(signed.validate(&key).is_ok() == signed.validate_at(&key, Time::now()).is_ok(), "SignedMessage::validate != validate_at(now)");
                            chk(signed.validate_at(&key, mid).is_ok() == cms.validate_at(&key, mid).is_ok(), "unpacked SignedMessage validates differently from the CMS");
                            chk(cms.validate_at(&key, mid).is_ok() == (k == K_PEER), "typed CMS verdict at mid-window");
                        }
                        chk(msg.sender() == &sender && msg.recipient() == &recipient, "sender() / recipient() differ from what was put in");
                        chk(msg.is_list_response() == matches!(msg.payload(), provisioning::Payload::ListResponse(_)), "is_list_response() disagrees with payload()");
                        let payload = msg.payload().clone();
                        let (us, ur, up) = msg.clone().unpack();
                        chk(us == sender && ur == recipient && up == payload, "Message::unpack() disagrees with the accessors");
                        if let provisioning::Payload::Revoke(req) = &payload {
                            chk(req.key() == s.ski(K_THIRD) && req.class_name().as_ref() == "rc0", "RevocationRequest key() / class_name() differ from what was put in");
                            let (c, k) = req.clone().unpack();
                            chk(k == req.key() && &c == req.class_name(), "RevocationRequest::unpack() disagrees with the accessors");
                        }
                    }
                    Orig::Pub(m) => {
                        let cms = match PublicationCms::decode(bytes) { Ok(c) => c, Err(e) => return vec![format!("typed decode failed: {e}")] };
                        chk(&cms.clone().into_message() == m, "into_message() != message given to create");
                        let (signed, msg) = cms.clone().unpack();
                        chk(&msg == m, "unpack().1 != message given to create");
                        chk(signed.content().to_bytes() == m.to_xml_bytes(), "unpack().0 does not carry the message's XML");
                        for (k, _) in keys {
                            let key = s.public(k);
                            chk(cms.validate(&key).is_ok() == cms.validate_at(&key, Time::now()).is_ok(), "PublicationCms::validate != validate_at(now)");
                            chk(signed.validate(&key).is_ok() == signed.validate_at(&key, Time::now()).is_ok(), "SignedMessage::validate != validate_at(now)");
                            chk(signed.validate_at(&key, mid).is_ok() == cms.validate_at(&key, mid).is_ok(), "unpacked SignedMessage validates differently from the CMS");
                            chk(cms.validate_at(&key, mid).is_ok() == (k == K_PEER), "typed CMS verdict at mid-window");
                        }
                        let is_query = matches!(msg, publication::Message::Query(_));
                        chk(msg.clone().as_query().is_ok() == is_query && msg.clone().as_reply().is_ok() == !is_query, "as_query() / as_reply() disagree with the variant");
                        let b64 = |c: &Base64, want: &[u8]| -> bool {
                            use base64::Engine;
                            c.as_str() == base64::engine::general_purpose::STANDARD.encode(want) && c.to_bytes().as_ref() == want
                                && (c.size_approx() as i64 - want.len() as i64).abs() <= 3 && c.to_hash().as_slice() == sha256(want).as_slice()
                        };
                        match msg.clone() {
                            publication::Message::Query(publication::Query::Delta(d)) => {
                                chk(d.len() == els.len() && d.is_empty() == els.is_empty(), "PublishDelta len() / is_empty() differ from the number of elements added");
                                let got = d.clone().into_elements();
                                chk(got.len() == d.len(), "into_elements().len() != len()");
                                for (g, (kind, tag, u, content, hash)) in got.into_iter().zip(els.iter()) {
                                    match g {
                                        publication::PublishDeltaElement::Publish(p) => {
                                            chk(*kind == "publish" && p.tag() == tag.as_ref() && p.uri().to_string() == *u && b64(p.content(), content), "Publish accessors differ from what was put in");
                                            let (t, uu, c) = p.clone().unpack();
                                            chk(t.as_ref() == p.tag() && &uu == p.uri() && &c == p.content(), "Publish::unpack() disagrees with the accessors");
                                        }
                                        publication::PublishDeltaElement::Update(p) => {
                                            chk(*kind == "update" && p.tag() == tag.as_ref() && p.uri().to_string() == *u && b64(p.content(), content) && p.hash().as_slice() == hash.as_slice(), "Update accessors differ from what was put in");
                                            let (t, uu, c, h) = p.clone().unpack();
                                            chk(t.as_ref() == p.tag() && &uu == p.uri() && &c == p.content() && &h == p.hash(), "Update::unpack() disagrees with the accessors");
                                        }
                                        publication::PublishDeltaElement::Withdraw(p) => {
                                            chk(*kind == "withdraw" && p.tag() == tag.as_ref() && p.uri().to_string() == *u && p.hash().as_slice() == hash.as_slice(), "Withdraw accessors differ from what was put in");
                                            let (t, uu, h) = p.clone().unpack();
                                            chk(t.as_ref() == p.tag() && &uu == p.uri() && &h == p.hash(), "Withdraw::unpack() disagrees with the accessors");
                                        }
                                    }
                                }
                            }
                            publication::Message::Reply(publication::Reply::List(l)) => {
                                chk(l.elements().len() == els.len() && l.clone().into_elements() == *l.elements(), "ListReply elements() / into_elements() differ");
                                for (e, (_, _, u, _, hash)) in l.elements().iter().zip(els.iter()) {
                                    chk(e.uri().to_string() == *u && e.hash().as_slice() == hash.as_slice(), "ListElement uri() / hash() differ from what was put in");
                                    let (uu, h) = e.clone().unpack();
                                    chk(&uu == e.uri() && &h == e.hash(), "ListElement::unpack() disagrees with the accessors");
                                }
                                let wd = l.clone().into_withdraw_delta();
                                chk(wd.len() == l.elements().len(), "into_withdraw_delta() has another number of elements");
                                for (w, e) in wd.into_elements().into_iter().zip(l.elements().iter()) {
                                    chk(matches!(&w, publication::PublishDeltaElement::Withdraw(x) if x.uri() == e.uri() && x.hash() == e.hash()), "into_withdraw_delta() element differs from the list element");
                                }
                            }
                            _ => {}
                        }
                    }
                }
                bad
            });
            sp.eval(); sp.nontrivial(1);
            match bad {
                Err(p) => fail("C10.no_panic", format!("{nm} sibling sweep"), p),
                Ok(list) => { sp.outcome(if list.is_empty() { "siblings-agree" } else { "siblings-differ" }); for b in list { fail("C10.api.siblings", format!("{nm} ({n}B XML)"), b) } }
            }
        }
        sp.set("content_sizes", serde_json::json!(sizes));
        sp.sample_str(|| sizes.join("; "));
        sp.done(true, &format!("{} messages x 10 instants x 3 keys x 3 routes + one sibling sweep each", made.len()));
    }

    //--- (b1) foreign: benign variations must validate -------------------------------------------------
    let cache = Cache::new();
    {
        let sp = ctx.space("foreign.accept",
            "independent encoder: 6 orders of the mandatory attributes x every set of 0-3 extra signed attributes out of {binary-signing-time, unknown OID with 1 / 100 / 200-octet value} placed after or before x UTCTime/GeneralizedTime x every benign EE spelling (AKI present/absent, basicConstraints absent/empty, critical keyUsage, notBefore = now, notAfter = now, 20-octet serial) x every benign CRL spelling (revoked list empty/absent/other serials with and without entry extensions, AKI absent, CRL number absent, unknown and critical extensions, thisUpdate = now, nextUpdate = now); each dimension crossed with orders x extras, EE x CRL crossed at order ct,md,st; all must validate; non-trivial = distinct total lengths of the signed attributes x distinct (EE, CRL) spellings");
        let ee_ok = [EeV::Plain, EeV::NoAki, EeV::BasicNotCa, EeV::KeyUsage, EeV::NbEqualsNow, EeV::NaEqualsNow, EeV::BigSerial];
        let crl_ok = [CrlV::Plain, CrlV::RevokedAbsent, CrlV::ListsOthers, CrlV::ListsOthersWithExt, CrlV::NoAki, CrlV::NoNumber, CrlV::UnknownExt, CrlV::ThisEqualsNow, CrlV::NextEqualsNow];
        let subsets = extras_subsets();
        let mut jobs: Vec<Plan> = Vec::new();
        for o in &perms { for ex in &subsets { for first in [false, true] { for st_gen in [false, true] {
            if ex.is_empty() && first { continue }
            let mut p = Plan::base(); p.order = *o; p.extras = ex.clone(); p.extras_first = first; p.st_gen = st_gen;
            jobs.push(p.clone());
            if !st_gen && !first {
                for e in ee_ok { if e != EeV::Plain { let mut q = p.clone(); q.ee = e; jobs.push(q) } }
                for c in crl_ok { if c != CrlV::Plain { let mut q = p.clone(); q.crl = c; jobs.push(q) } }
            }
        }}}}
        for e in ee_ok { for c in crl_ok { for ex in [vec![], vec![Extra::Bst, Extra::Unk200]] {
            let mut p = Plan::base(); p.ee = e; p.crl = c; p.extras = ex; jobs.push(p);
        }}}
        let oc: Mutex<BTreeMap<&'static str, u64>> = Mutex::new(BTreeMap::new());
        let lens: Mutex<BTreeSet<usize>> = Mutex::new(BTreeSet::new());
        let spell: Mutex<BTreeSet<(EeV, CrlV)>> = Mutex::new(BTreeSet::new());
        jobs.par_iter().for_each(|p| {
            let bytes = cache.build(&fx, p);
            let alen = der::cat(&plan_attrs(&fx, p).0).len();
            lens.lock().unwrap().insert(alen);
            spell.lock().unwrap().insert((p.ee, p.crl));
            for via in [Via::Strict, Via::Relaxed, Via::Publication] {
                let v = run(&bytes, &fx.peer, T0, via);
                sp.eval(); *oc.lock().unwrap().entry(v.class()).or_insert(0) += 1;
                expect(&ctx, "C10.foreign.accept", "-", true, &v, || format!("{} attrs_len={alen}", p.witness(via)));
            }
        });
        // the same messages under another key and one second outside: the negative twin of the space
        for (k, t, label) in [(K_OTHER, T0, "other key"), (K_PEER, T0 + W + 1, "after notAfter"), (K_PEER, T0 - W - 1, "before notBefore")] {
            let p = Plan::base();
            let v = run(&cache.build(&fx, &p), &s.public(k), t, Via::Strict);
            sp.eval(); sp.outcome(v.class());
            expect(&ctx, "-", "C10.foreign.single.reject", false, &v, || format!("{} evaluated: {label}", p.witness(Via::Strict)));
        }
        let lens = lens.into_inner().unwrap();
        sp.merge_outcomes(&oc.lock().unwrap());
        sp.nontrivial(lens.len() as u64 * spell.lock().unwrap().len() as u64);
        sp.set("attrs_lengths", serde_json::json!(lens));
        if !(lens.iter().any(|&l| l < 128) && lens.iter().any(|&l| (128..256).contains(&l)) && lens.iter().any(|&l| l >= 256)) {
            ctx.machinery_error("foreign.accept does not cross 128 and 256 octets of signed attributes");
        }
        let mut p = Plan::base(); p.extras = vec![Extra::Bst, Extra::Unk100];
        sp.sample_str(|| format!("{} -> signed attributes ({} octets) {}", p.witness(Via::Strict), der::cat(&plan_attrs(&fx, &p).0).len(), trunc(&hex(&der::cat(&plan_attrs(&fx, &p).0)), 160)));
        sp.sample_str(|| format!("signed-attribute lengths reached: {:?}", lens));
        sp.done(true, "6 orders x 15 extra sets x 2 placements x 2 time forms; x 7 EE + 9 CRL spellings; 7 x 9 EE x CRL");
    }

    //--- (b1b) total size of the signed attributes, every length ------------------------------------------------------
    {
        let sp = ctx.space("attrs.size",
            "foreign message with the three mandatory attributes plus one unknown attribute whose value is sized so that the signed attributes total exactly L octets: every L reachable in 100..=300 (two signing-time forms, with / without a second small unknown attribute), order ct,md,st; all 6 orders x sized attribute first / last for L in {127,128,129,255,256,257}; L in {65534, 65535}; correctly signed over the DER SET OF encoding: must validate (strict, relaxed, PublicationCms). Twins signed over the [0]-tagged encoding for the boundary lengths: rejected. L in {65536, 65537}: beyond the documented 65535 limit, the outcome is counted, not judged - except that nothing may panic; non-trivial = distinct total lengths reached (gaps in 100..=300 reported)");
        // candidate settings -> total length
        let total = |p: &Plan| der::cat(&plan_attrs(&fx, p).0).len();
        let mut by_len: BTreeMap<usize, Plan> = BTreeMap::new();
        for with_small in [false, true] { for st_gen in [false, true] { for n in 0..=260usize {
            let mut p = Plan::base(); p.st_gen = st_gen; p.sized_extra = Some((n, false));
            if with_small { p.extras = vec![Extra::Unk1] }
            let l = total(&p);
            if (100..=300).contains(&l) { by_len.entry(l).or_insert(p); }
        }}}
        for st_gen in [false, true] { let mut p = Plan::base(); p.st_gen = st_gen; by_len.entry(total(&p)).or_insert(p); }
        let gaps: Vec<usize> = (100..=300).filter(|l| !by_len.contains_key(l)).collect();
        // (plan, expectation: Some(valid) / None = counted only)
        let mut jobs: Vec<(Plan, Option<bool>)> = by_len.values().map(|p| (p.clone(), Some(true))).collect();
        for l in [127usize, 128, 129, 255, 256, 257] {
            let Some(b) = by_len.get(&l) else { ctx.machinery_error(format!("attrs.size cannot reach {l} octets")); continue };
            for o in &perms { for first in [false, true] {
                let mut p = b.clone(); p.order = *o; if let Some((n, _)) = p.sized_extra { p.sized_extra = Some((n, first)) }
                jobs.push((p.clone(), Some(true)));
                if !first { p.sig = SigV::OverImplicitTag; jobs.push((p, Some(false))) }
            }}
        }
        for target in [65534usize, 65535, 65536, 65537] {
            let mut found = None;
            for n in (target - 200)..target { let mut p = Plan::base(); p.sized_extra = Some((n, false)); if total(&p) == target { found = Some(p); break } }
            match found { Some(p) => jobs.push((p, if target <= 65535 { Some(true) } else { None })), None => ctx.machinery_error(format!("attrs.size cannot reach {target} octets")) }
        }
        let oc: Mutex<BTreeMap<&'static str, u64>> = Mutex::new(BTreeMap::new());
        let lens: Mutex<BTreeSet<usize>> = Mutex::new(BTreeSet::new());
        let ee = cache.ee(&fx, &Plan::base());
        let crl_der = cache.crl(&fx, &Plan::base());
        jobs.par_iter().for_each(|(p, want)| {
            let l = total(p);
            let bytes = assemble(&fx, p, &ee, &crl_der);
            lens.lock().unwrap().insert(l);
            for via in [Via::Strict, Via::Relaxed, Via::Publication] {
                let v = run(&bytes, &fx.peer, T0, via);
                sp.eval();
                let wit = || format!("foreign attrs_len={l} order={} sized-unknown-attribute={:?} extras={:?} st={} signed-over={} via={via:?} when=T0", p.order.iter().map(|&i| ATTR_NAMES[i]).collect::<Vec<_>>().join(","),
                    p.sized_extra, p.extras, if p.st_gen { "generalized" } else { "utc" }, if p.sig == SigV::Ok { "SET OF" } else { "[0]-tagged" });
                match want {
                    Some(w) => { *oc.lock().unwrap().entry(v.class()).or_insert(0) += 1; expect(&ctx, "C10.attrs.size.accept", "C10.attrs.size.reject", *w, &v, wit) }
                    None => {
                        *oc.lock().unwrap().entry(match &v { Verdict::Accept => "over-limit-validated", Verdict::Panic(_) => "panic", _ => "over-limit-rejected" }).or_insert(0) += 1;
                        if let Verdict::Panic(pn) = &v { fail("C10.no_panic", wit(), pn.clone()) }
                    }
                }
            }
        });
        let lens = lens.into_inner().unwrap();
        sp.merge_outcomes(&oc.lock().unwrap());
        sp.nontrivial(lens.len() as u64);
        sp.set("unreached_lengths_100_300", serde_json::json!(gaps));
        sp.set("lengths", serde_json::json!(format!("{} distinct, {}..={}", lens.len(), lens.iter().next().unwrap(), lens.iter().last().unwrap())));
        sp.sample_str(|| format!("{} distinct lengths, unreached in 100..=300: {:?}", lens.len(), gaps));
        for l in [127usize, 128, 129, 255, 256, 257, 65534, 65535] { if !lens.contains(&l) { ctx.machinery_error(format!("attrs.size does not reach {l}")) } }
        sp.done(true, "every reachable total in 100..=300; 6 orders x 2 placements at 127/128/129/255/256/257 (+ twins); 65534..=65537; x 3 decoders");
    }

    //--- (b2) foreign: violations ---------------------------------------------------------------------------
    {
        let sp = ctx.space("foreign.violations",
            "every single violation (digest 4, signature 4, EE 4, CRL 7, profile 6 variants) x 6 orders x extras {none, bst+unk100 (>=128), bst+unk100+unk200 (>=256)}; all pairs of violations of two different conditions x 6 orders x the three extras settings; strict, relaxed and typed decoders; none may validate; non-trivial = distinct messages");
        let viols = all_violations();
        let ex_menu: Vec<Vec<Extra>> = vec![vec![], vec![Extra::Bst, Extra::Unk100], vec![Extra::Bst, Extra::Unk100, Extra::Unk200]];
        let mut jobs: Vec<(Plan, usize)> = Vec::new();
        for v in &viols { for o in &perms { for ex in &ex_menu {
            // "signed over the mandatory attributes only" differs from a correct signature only when there are extras
            if matches!(v, Viol::S(SigV::OverMandatoryOnly)) && ex.is_empty() { continue }
            let mut p = Plan::base(); p.order = *o; p.extras = ex.clone(); v.apply(&mut p); jobs.push((p, 1));
        }}}
        let pair_orders: Vec<[usize; 3]> = perms.clone();
        let mut npairs = 0;
        for (i, a) in viols.iter().enumerate() { for b in viols.iter().skip(i + 1) {
            if a.cond() == b.cond() || a.field() == b.field() { continue }
            npairs += 1;
            for o in &pair_orders { for ex in &ex_menu {
                if (matches!(a, Viol::S(SigV::OverMandatoryOnly)) || matches!(b, Viol::S(SigV::OverMandatoryOnly))) && ex.is_empty() { continue }
                let mut p = Plan::base(); p.order = *o; p.extras = ex.clone(); a.apply(&mut p); b.apply(&mut p); jobs.push((p, 2));
            }}
        }}
        // pairs inside one plan field (EE issuer + EE validity, ...) need combined spellings; covered by dedicated certificates below
        let oc: Mutex<BTreeMap<&'static str, u64>> = Mutex::new(BTreeMap::new());
        let distinct: Mutex<BTreeSet<[u8; 8]>> = Mutex::new(BTreeSet::new());
        jobs.par_iter().for_each(|(p, n)| {
            let bytes = cache.build(&fx, p);
            { let h = sha256(&bytes); let mut k = [0u8; 8]; k.copy_from_slice(&h[..8]); distinct.lock().unwrap().insert(k); }
            for via in [Via::Strict, Via::Relaxed, Via::Publication] {
                let v = run(&bytes, &fx.peer, T0, via);
                sp.eval(); *oc.lock().unwrap().entry(v.class()).or_insert(0) += 1;
                let or = if *n == 2 { "C10.foreign.pair.reject" } else if p.stated_ok() { "C10.foreign.profile.reject" } else { "C10.foreign.single.reject" };
                expect(&ctx, "-", or, false, &v, || p.witness(via));
            }
        });
        // same-field pairs: EE signed by other key AND expired / cA; CRL by other key AND stale / listing
        {
            let base_ee = EeSpec { serial: EE_SERIAL.to_vec(), nb: T0 - W, na: T0 + W, subject_key: K_EE, sign_key: K_PEER, ski: None, aki: Some(s.key(K_PEER).ski.to_vec()), basic: Basic::Absent, key_usage_ext: false, issuer: 0, subject: 0 };
            let base_crl = CrlSpec { this: T0 - W, next: T0 + W, sign_key: K_PEER, revoked: Some(vec![]), aki: Some(s.key(K_PEER).ski.to_vec()), number: Some(1), unknown_ext: false, ext_block: true, ign: CrlIgn::DEFAULT, ee_serial: EE_SERIAL.to_vec() };
            let mut combos: Vec<(String, EeSpec, CrlSpec)> = Vec::new();
            let mut e = base_ee.clone(); e.sign_key = K_OTHER; e.na = T0 - 1; combos.push(("ee: other key + expired".into(), e, base_crl.clone()));
            let mut e = base_ee.clone(); e.sign_key = K_OTHER; e.basic = Basic::CaTrue; combos.push(("ee: other key + cA".into(), e, base_crl.clone()));
            let mut e = base_ee.clone(); e.nb = T0 + 1; e.basic = Basic::CaTrue; combos.push(("ee: not yet valid + cA".into(), e, base_crl.clone()));
            let mut c = base_crl.clone(); c.sign_key = K_OTHER; c.next = T0 - 1; combos.push(("crl: other key + stale".into(), base_ee.clone(), c));
            let mut c = base_crl.clone(); c.sign_key = K_OTHER; c.revoked = Some(vec![(EE_SERIAL.to_vec(), false)]); combos.push(("crl: other key + lists ee".into(), base_ee.clone(), c));
            let mut c = base_crl.clone(); c.this = T0 + 1; c.revoked = Some(vec![(EE_SERIAL.to_vec(), false)]); combos.push(("crl: future + lists ee".into(), base_ee.clone(), c));
            for (label, e, c) in combos {
                let bytes = assemble(&fx, &Plan::base(), &ee_cert(s, &e), &crl(s, &c));
                for via in [Via::Strict, Via::Relaxed] {
                    let v = run(&bytes, &fx.peer, T0, via);
                    sp.eval(); *oc.lock().unwrap().entry(v.class()).or_insert(0) += 1;
                    expect(&ctx, "-", "C10.foreign.pair.reject", false, &v, || format!("foreign order=ct,md,st extras=[] {label} via={via:?} when=T0"));
                }
            }
        }
        // informational only (no oracle): a CRL without any crlExtensions block
        {
            let c = CrlSpec { this: T0 - W, next: T0 + W, sign_key: K_PEER, revoked: None, aki: None, number: None, unknown_ext: false, ext_block: false, ign: CrlIgn::DEFAULT, ee_serial: EE_SERIAL.to_vec() };
            let bytes = assemble(&fx, &Plan::base(), &cache.ee(&fx, &Plan::base()), &crl(s, &c));
            let v = run(&bytes, &fx.peer, T0, Via::Relaxed);
            if let Verdict::Panic(pn) = &v { fail("C10.no_panic", "foreign order=ct,md,st extras=[] crl without crlExtensions via=Relaxed when=T0", pn.clone()) }
            sp.set("crl_without_extension_block", serde_json::json!(v.show()));
        }
        // BER spelling inside the revoked list (non-minimal length of the revocation date): DER decoding must refuse it,
        // relaxed decoding may do either, nothing may panic
        {
            let ser = |b: &[u8]| der::seq(&[der::int_bytes(b), { let t = x509_time(T0 - 1000); let mut v = vec![t[0], 0x81, t[1]]; v.extend_from_slice(&t[2..]); v }]);
            for (label, listed) in [("other serial", vec![0x01u8]), ("ee serial", EE_SERIAL.to_vec())] {
                let tbs = der::seq(&[der::int_u(1), der::alg_sha256_with_rsa(), name("peer-ta"), x509_time(T0 - W), x509_time(T0 + W),
                    der::seq(&[ser(&[0x55]), ser(&listed)]),
                    der::ctx(0, true, &der::seq(&[ext(OID_CRL_NUMBER, false, &der::int_u(9))]))]);
                let bytes = assemble(&fx, &Plan::base(), &cache.ee(&fx, &Plan::base()), &pki::sign_tbs(s, K_PEER, &tbs));
                for via in [Via::Strict, Via::Relaxed, Via::Provisioning] {
                    let v = run(&bytes, &fx.peer, T0, via);
                    sp.eval(); *oc.lock().unwrap().entry(v.class()).or_insert(0) += 1;
                    let w = || format!("foreign order=ct,md,st extras=[] crl revoked list with BER long-form length on revocationDate, lists {label} via={via:?} when=T0");
                    match &v {
                        Verdict::Panic(pn) => fail("C10.no_panic", w(), pn.clone()),
                        Verdict::Accept if via == Via::Strict || label == "ee serial" => fail("C10.foreign.single.reject", w(), "validated"),
                        _ => {}
                    }
                }
            }
        }
        // the all-satisfied twin
        let v = run(&cache.build(&fx, &Plan::base()), &fx.peer, T0, Via::Strict);
        sp.eval(); *oc.lock().unwrap().entry(v.class()).or_insert(0) += 1;
        expect(&ctx, "C10.foreign.accept", "-", true, &v, || Plan::base().witness(Via::Strict));
        sp.merge_outcomes(&oc.lock().unwrap());
        sp.nontrivial(distinct.lock().unwrap().len() as u64);
        sp.set("single_variants", serde_json::json!(viols.len()));
        sp.set("pairs", serde_json::json!(npairs));
        let mut p = Plan::base(); p.crl = CrlV::ListsEeMiddle; p.sig = SigV::OverMandatoryOnly; p.extras = vec![Extra::Bst, Extra::Unk100];
        sp.sample_str(|| p.witness(Via::Relaxed));
        sp.done(true, &format!("{} single variants x 6 orders x 3 extras settings + {} pairs x {} orders x 3 + 6 same-field pairs, x 3 decoders", viols.len(), npairs, pair_orders.len()));
    }

    //--- (b3) foreign: product of composable spellings and violations ----------------------------------------------
    {
        let sp = ctx.space("foreign.product",
            "EE certificate options {AKI right/absent/wrong, basicConstraints absent/empty/cA, critical keyUsage, 20-octet serial, signed by peer/other key, window T0+-300 / T0+-1000 s, SKI extension right/other} (288) and CRL options {AKI right/absent/wrong, CRL number, unknown extensions, 8 revoked-list shapes (4 without, 4 with the EE serial), signed by peer/other key, window T0+-300 / T0+-1000 s} (384), benign spellings and violations alike: quick = (all EE x CRL base-and-single-deviations) + (EE base-and-single-deviations x all CRL), thorough = all EE x all CRL; each message evaluated at T0 + {-1001,-1000,-301,-300,0,300,301,1000,1001} s (inside one window and outside the other included), strict and relaxed. Second part: 6 orders x 3 extras settings x 2 time forms x {no, each digest, each signature, sid, content-type violation} x EE and CRL base-and-single-deviations at T0. Third part: 10 benign EE x 10 benign CRL spellings (each window narrow or wide) x 20 instants at -1 ns, 0, +1 ns, +0.5 s, +0.999999999 s around each of the four window bounds, compared exactly. Model: validates <=> every condition holds (signature, digest; EE signed by peer, not a CA, window contains t; CRL signed by peer, window contains t, EE serial not listed; profile: key identifiers, sid, content type); non-trivial = cases where at least one condition is violated");
        let offsets: [i64; 9] = [-1001, -1000, -301, -300, 0, 300, 301, 1000, 1001];
        let (ee_all, crl_all, ee_red, crl_red) = (ee_full(), crl_full(), ee_reduced(), crl_reduced());
        let ee_certs: BTreeMap<EeO, Vec<u8>> = ee_all.par_iter().map(|o| (*o, ee_from(s, o))).collect();
        let crl_keys: Vec<(CrlO, bool)> = crl_all.iter().flat_map(|o| [(*o, false), (*o, true)]).collect();
        let crls: BTreeMap<(CrlO, bool), Vec<u8>> = crl_keys.par_iter().map(|k| (*k, crl_from(s, &k.0, k.1))).collect();
        let mut pairs: BTreeSet<(EeO, CrlO)> = BTreeSet::new();
        if thorough { for e in &ee_all { for c in &crl_all { pairs.insert((*e, *c)); } } }
        else {
            for e in &ee_all { for c in &crl_red { pairs.insert((*e, *c)); } }
            for e in &ee_red { for c in &crl_all { pairs.insert((*e, *c)); } }
        }
        let pairs: Vec<(EeO, CrlO)> = pairs.into_iter().collect();
        let base = Plan::base();
        let base_signed = presign(&fx, &base);
        let oc: Mutex<BTreeMap<&'static str, u64>> = Mutex::new(BTreeMap::new());
        let nt = Mutex::new(0u64);
        let judge = |e: &EeO, c: &CrlO, off: i64, attrs_stated: bool, attrs_prof: bool| -> (bool, bool) {
            let stated = attrs_stated && !e.other_key && e.basic != 2 && within(e.wide, off) && !c.other_key && within(c.wide, off) && c.revoked < 4;
            let prof = attrs_prof && e.aki != 2 && c.aki != 2 && !e.ski_other;
            (stated, prof)
        };
        pairs.par_iter().for_each(|(e, c)| {
            let bytes = wrap(&fx, &base, &base_signed, e.ski_other, &ee_certs[e], &crls[&(*c, e.big_serial)]);
            let mut local: BTreeMap<&'static str, u64> = BTreeMap::new();
            let mut n = 0u64;
            for off in offsets { for via in [Via::Strict, Via::Relaxed] {
                let v = run(&bytes, &fx.peer, T0 + off, via);
                *local.entry(v.class()).or_insert(0) += 1;
                let (stated, prof) = judge(e, c, off, true, true);
                if !(stated && prof) { n += 1 }
                let or = if stated { "C10.foreign.profile.reject" } else { "C10.foreign.product.reject" };
                expect(&ctx, "C10.foreign.accept", or, stated && prof, &v, || format!("foreign order=ct,md,st extras=[] {} {} via={via:?} when=T0{off:+}s (narrow=T0+-300s wide=T0+-1000s)", show_ee(e), show_crl(c)));
            }}
            sp.evals(18);
            *nt.lock().unwrap() += n;
            let mut g = oc.lock().unwrap(); for (k, v) in local { *g.entry(k).or_insert(0) += v }
        });
        // second part: attribute settings x reduced certificate / CRL menus at T0
        let mut aplans: Vec<Plan> = Vec::new();
        let ex_menu: Vec<Vec<Extra>> = vec![vec![], vec![Extra::Bst, Extra::Unk100], vec![Extra::Bst, Extra::Unk100, Extra::Unk200]];
        let mut aviols: Vec<Option<Viol>> = vec![None];
        aviols.extend([DigestV::FlipFirst, DigestV::FlipLast, DigestV::Short31, DigestV::OfOtherContent].map(|x| Some(Viol::D(x))));
        aviols.extend([SigV::OtherKey, SigV::OverImplicitTag, SigV::OverMandatoryOnly, SigV::FlipLastBit].map(|x| Some(Viol::S(x))));
        aviols.extend([ProfV::SidOther, ProfV::CtAttrOther, ProfV::CtBothOther].map(|x| Some(Viol::P(x))));
        for o in &perms { for ex in &ex_menu { for st_gen in [false, true] { for av in &aviols {
            if matches!(av, Some(Viol::S(SigV::OverMandatoryOnly))) && ex.is_empty() { continue }
            let mut p = Plan::base(); p.order = *o; p.extras = ex.clone(); p.st_gen = st_gen;
            if let Some(v) = av { v.apply(&mut p) }
            aplans.push(p);
        }}}}
        let asigned: Vec<Presigned> = aplans.par_iter().map(|p| presign(&fx, p)).collect();
        (0..aplans.len()).into_par_iter().for_each(|ai| {
            let p = &aplans[ai];
            let mut local: BTreeMap<&'static str, u64> = BTreeMap::new();
            let mut n = 0u64;
            for e in &ee_red { for c in &crl_red {
                let bytes = wrap(&fx, p, &asigned[ai], e.ski_other, &ee_certs[e], &crls[&(*c, e.big_serial)]);
                for via in [Via::Strict, Via::Relaxed] {
                    let v = run(&bytes, &fx.peer, T0, via);
                    *local.entry(v.class()).or_insert(0) += 1;
                    let (stated, prof) = judge(e, c, 0, p.digest == DigestV::Ok && p.sig == SigV::Ok, p.prof == ProfV::Ok);
                    if !(stated && prof) { n += 1 }
                    let or = if stated { "C10.foreign.profile.reject" } else { "C10.foreign.product.reject" };
                    expect(&ctx, "C10.foreign.accept", or, stated && prof, &v, || format!("foreign order={} extras={:?} st={} attrs-violated=[{}] {} {} via={via:?} when=T0",
                        p.order.iter().map(|&i| ATTR_NAMES[i]).collect::<Vec<_>>().join(","), p.extras, if p.st_gen { "generalized" } else { "utc" }, p.violated().join(" "), show_ee(e), show_crl(c)));
                }
            }}
            sp.evals((ee_red.len() * crl_red.len() * 2) as u64);
            *nt.lock().unwrap() += n;
            let mut g = oc.lock().unwrap(); for (k, v) in local { *g.entry(k).or_insert(0) += v }
        });
        // third part: instants a fraction of a second around every window bound, one window at a time narrower than the other
        let ns_menu: [(i64, u32); 5] = [(-1, 999_999_999), (0, 0), (0, 1), (0, 500_000_000), (0, 999_999_999)];
        let mut sub: Vec<(i64, u32)> = Vec::new();
        for b in [-WIDE, -NARROW, NARROW, WIDE] { for (ds, ns) in ns_menu { sub.push((b + ds, ns)) } }
        let within_ns = |wide: bool, off: i64, ns: u32| { let w = if wide { WIDE } else { NARROW }; (-w, 0) <= (off, ns) && (off, ns) <= (w, 0) };
        let mut ee_sub: Vec<EeO> = Vec::new();
        for wide in [false, true] { for b in [EE_BASE, EeO { aki: 1, ..EE_BASE }, EeO { basic: 1, ..EE_BASE }, EeO { key_usage: true, ..EE_BASE }, EeO { big_serial: true, ..EE_BASE }] { ee_sub.push(EeO { wide, ..b }) } }
        let mut crl_sub: Vec<CrlO> = Vec::new();
        for wide in [false, true] { for b in [CRL_BASE, CrlO { aki: 1, ..CRL_BASE }, CrlO { number: false, ..CRL_BASE }, CrlO { unknown_ext: true, ..CRL_BASE }, CrlO { revoked: 2, ..CRL_BASE }] { crl_sub.push(CrlO { wide, ..b }) } }
        let sub_pairs: Vec<(EeO, CrlO)> = ee_sub.iter().flat_map(|e| crl_sub.iter().map(move |c| (*e, *c))).collect();
        sub_pairs.par_iter().for_each(|(e, c)| {
            let bytes = wrap(&fx, &base, &base_signed, false, &ee_certs[e], &crls[&(*c, e.big_serial)]);
            let mut local: BTreeMap<&'static str, u64> = BTreeMap::new();
            let mut n = 0u64;
            for &(off, ns) in &sub { for via in [Via::Strict, Via::Relaxed] {
                let v = run_ns(&bytes, &fx.peer, T0 + off, ns, via);
                *local.entry(v.class()).or_insert(0) += 1;
                let want = within_ns(e.wide, off, ns) && within_ns(c.wide, off, ns);
                if !want { n += 1 }
                expect(&ctx, "C10.foreign.accept", "C10.foreign.product.reject", want, &v, || format!("foreign order=ct,md,st extras=[] {} {} via={via:?} when=T0{off:+}s+{ns}ns (narrow=T0+-300s wide=T0+-1000s, compared exactly)", show_ee(e), show_crl(c)));
            }}
            sp.evals((sub.len() * 2) as u64);
            *nt.lock().unwrap() += n;
            let mut g = oc.lock().unwrap(); for (k, v) in local { *g.entry(k).or_insert(0) += v }
        });
        sp.merge_outcomes(&oc.lock().unwrap());
        sp.nontrivial(*nt.lock().unwrap());
        sp.set("sub_second_instants", serde_json::json!(sub.iter().map(|(o, n)| format!("T0{o:+}s+{n}ns")).collect::<Vec<_>>()));
        sp.set("ee_option_sets", serde_json::json!(ee_all.len()));
        sp.set("crl_option_sets", serde_json::json!(crl_all.len()));
        sp.set("certificate_crl_pairs", serde_json::json!(pairs.len()));
        sp.set("attribute_settings", serde_json::json!(aplans.len()));
        sp.sample_str(|| format!("foreign order=ct,md,st extras=[] {} {} via=Strict when=T0+301s -> rejected (CRL stale, EE certificate still valid)", show_ee(&EeO { wide: true, ..EE_BASE }), show_crl(&CrlO { aki: 1, ..CRL_BASE })));
        sp.done(true, &format!("{} (EE, CRL) option pairs x 9 instants x 2 decoders; {} attribute settings x {} x {} reduced menus x 2 decoders; {} benign (EE, CRL) pairs x {} sub-second instants x 2 decoders", pairs.len(), aplans.len(), ee_red.len(), crl_red.len(), sub_pairs.len(), sub.len()));
    }

    //--- (b4) foreign: fields the acceptance predicate must ignore -------------------------------------------------
    {
        let sp = ctx.space("foreign.ignored",
            "fields that must not influence the verdict, varied against listing state, windows and evaluation instants. Part A: revocation date of the entry listing the EE serial x revocation date of all other entries, each in {long before thisUpdate, = thisUpdate, T0+150 s (inside the window, after the earlier instants), = nextUpdate, a day after nextUpdate, year 2052 (GeneralizedTime), year 1949 (GeneralizedTime)} x revoked-list shape {others, others+ext, ee-only, ee-first, ee-middle, ee-last, ee-only with a leading-zero INTEGER} x CRL window narrow/wide x EE window narrow/wide x 9 instants x strict/relaxed. Part B: base and every single deviation (thorough: every pair) of {entry extensions 2, CRL number value 3, CRL issuer name 2, EE issuer name 2, EE subject name 2, signing-time value 3 (future, epoch, 2052), binary-signing-time value 2, signature-algorithm spelling 3, digest-algorithm NULL parameters in SignedData only / SignerInfo only / both} x shape {empty, others, others+ext, ee-only, ee-middle, ee-last} x CRL AKI right/absent x the 10 EE base-and-single-deviation options x 9 instants x 2 decoders. Model: exactly the product-space model, blind to all of these fields (the leading-zero spelling may be refused at decode but must never validate); non-trivial = cases in which a listed EE serial carries a revocation date after the evaluation instant, or an ignored field deviates");
        let offsets: [i64; 9] = [-1001, -1000, -301, -300, 0, 300, 301, 1000, 1001];
        let judge = |e: &EeO, c: &CrlO, off: i64| -> (bool, bool) {
            let stated = !e.other_key && e.basic != 2 && within(e.wide, off) && !c.other_key && within(c.wide, off) && c.revoked < 4;
            let prof = e.aki != 2 && c.aki != 2 && !e.ski_other;
            (stated, prof)
        };
        let oc: Mutex<BTreeMap<&'static str, u64>> = Mutex::new(BTreeMap::new());
        let nt = Mutex::new(0u64);
        let base = Plan::base();
        let base_signed = presign(&fx, &base);
        // Part A
        let mut a_jobs: Vec<(CrlO, CrlIgn)> = Vec::new();
        for wide in [false, true] { for shape in [2u8, 3, 4, 5, 6, 7, 8] { for ee_date in 0..N_DATES { for other_date in 0..N_DATES {
            if shape < 4 && ee_date != 0 { continue }          // no EE entry: its date does not exist
            if (shape == 4 || shape == 8) && other_date != 0 { continue } // no other entries
            let c = CrlO { revoked: if shape == 8 { 4 } else { shape }, wide, ..CRL_BASE };
            a_jobs.push((c, CrlIgn { ee_date, other_date, ee_leading_zero: shape == 8, ..CrlIgn::DEFAULT }));
        }}}}
        let ee_narrow = ee_from(s, &EE_BASE);
        let ee_wide = ee_from(s, &EeO { wide: true, ..EE_BASE });
        a_jobs.par_iter().for_each(|(c, ign)| {
            let crl_der = crl_from_ign(s, c, false, *ign);
            let mut local: BTreeMap<&'static str, u64> = BTreeMap::new();
            let mut n = 0u64;
            for (e, ee_der) in [(EE_BASE, &ee_narrow), (EeO { wide: true, ..EE_BASE }, &ee_wide)] {
                let bytes = wrap(&fx, &base, &base_signed, false, ee_der, &crl_der);
                for off in offsets { for via in [Via::Strict, Via::Relaxed] {
                    let v = run(&bytes, &fx.peer, T0 + off, via);
                    *local.entry(v.class()).or_insert(0) += 1;
                    let (stated, prof) = judge(&e, c, off);
                    let w = if c.wide { WIDE } else { NARROW };
                    if c.revoked >= 4 && entry_date(ign.ee_date, T0 - w, T0 + w) > T0 + off { n += 1 }
                    let wit = || format!("foreign order=ct,md,st extras=[] {} {} ee-entry-date={} other-entries-date={} ee-serial-leading-zero={} via={via:?} when=T0{off:+}s (dates: 0 thisUpdate-1000s, 1 thisUpdate, 2 T0+150s, 3 nextUpdate, 4 nextUpdate+1d, 5 year 2052, 6 year 1949)",
                        show_ee(&e), show_crl(c), ign.ee_date, ign.other_date, ign.ee_leading_zero);
                    // the non-minimal INTEGER may be refused outright; demanding acceptance of an unrelated-date CRL stays in force otherwise
                    if ign.ee_leading_zero { expect(&ctx, "-", "C10.foreign.ignored.reject", false, &v, wit) }
                    else { expect(&ctx, "C10.foreign.ignored.accept", "C10.foreign.ignored.reject", stated && prof, &v, wit) }
                }}
            }
            sp.evals(36);
            *nt.lock().unwrap() += n;
            let mut g = oc.lock().unwrap(); for (k, v) in local { *g.entry(k).or_insert(0) += v }
        });
        // Part B
        #[derive(Clone, Copy, Debug, PartialEq, Eq)]
        struct Ign { crl: CrlIgn, ee_issuer: u8, ee_subject: u8, st: u8, bst: u8, sig_alg: u8, digest_null: u8 }
        let ign0 = Ign { crl: CrlIgn::DEFAULT, ee_issuer: 0, ee_subject: 0, st: 0, bst: 0, sig_alg: 0, digest_null: 0 };
        // (field number, setter)
        let mut devs: Vec<(u8, Box<dyn Fn(&mut Ign) + Sync>)> = Vec::new();
        for v in 1..3u8 { devs.push((0, Box::new(move |i: &mut Ign| i.crl.entry_ext = v))) }
        for v in 1..4u8 { devs.push((1, Box::new(move |i: &mut Ign| i.crl.number = v))) }
        for v in 1..3u8 { devs.push((2, Box::new(move |i: &mut Ign| i.crl.issuer = v))) }
        for v in 1..3u8 { devs.push((3, Box::new(move |i: &mut Ign| i.ee_issuer = v))) }
        for v in 1..3u8 { devs.push((4, Box::new(move |i: &mut Ign| i.ee_subject = v))) }
        for v in 1..4u8 { devs.push((5, Box::new(move |i: &mut Ign| i.st = v))) }
        for v in 1..3u8 { devs.push((6, Box::new(move |i: &mut Ign| i.bst = v))) }
        for v in 1..4u8 { devs.push((7, Box::new(move |i: &mut Ign| i.sig_alg = v))) }
        for v in 1..4u8 { devs.push((8, Box::new(move |i: &mut Ign| i.digest_null = v))) }
        let mut igns: Vec<Ign> = vec![ign0];
        for (_, f) in &devs { let mut i = ign0; f(&mut i); igns.push(i) }
        if thorough {
            for (a, (fa, f)) in devs.iter().enumerate() { for (fb, g) in devs.iter().skip(a + 1) { if fa != fb { let mut i = ign0; f(&mut i); g(&mut i); igns.push(i) } } }
        }
        let ee_red = ee_reduced();
        let mut b_jobs: Vec<(Ign, CrlO, EeO)> = Vec::new();
        for i in &igns { for shape in [0u8, 2, 3, 4, 6, 7] { for aki in [0u8, 1] { for e in &ee_red {
            b_jobs.push((*i, CrlO { revoked: shape, aki, ..CRL_BASE }, *e));
        }}}}
        let st_value = |v: u8| match v { 0 => T0 - 60, 1 => T0 + 1_000_000, 2 => 0, _ => 2_600_000_000i64 };
        b_jobs.par_iter().for_each(|(ign, c, e)| {
            let mut p = Plan::base();
            p.st_secs = st_value(ign.st); p.sig_alg = ign.sig_alg; p.digest_null = ign.digest_null;
            if ign.bst != 0 { p.extras = vec![Extra::Bst]; p.bst_secs = if ign.bst == 1 { T0 + 1_000_000 } else { 1 } }
            let ps = presign(&fx, &p);
            let w = if e.wide { WIDE } else { NARROW };
            let ee_der = ee_cert(s, &EeSpec { serial: big_or_small_serial(e.big_serial), nb: T0 - w, na: T0 + w, subject_key: K_EE, sign_key: if e.other_key { K_OTHER } else { K_PEER },
                ski: if e.ski_other { Some(s.key(K_EE2).ski.to_vec()) } else { None }, aki: aki_value(s, e.aki),
                basic: match e.basic { 0 => Basic::Absent, 1 => Basic::EmptySeq, _ => Basic::CaTrue }, key_usage_ext: e.key_usage, issuer: ign.ee_issuer, subject: ign.ee_subject });
            let crl_der = crl_from_ign(s, c, e.big_serial, ign.crl);
            let bytes = wrap(&fx, &p, &ps, e.ski_other, &ee_der, &crl_der);
            let mut local: BTreeMap<&'static str, u64> = BTreeMap::new();
            for off in offsets { for via in [Via::Strict, Via::Relaxed] {
                let v = run(&bytes, &fx.peer, T0 + off, via);
                *local.entry(v.class()).or_insert(0) += 1;
                let (stated, prof) = judge(e, c, off);
                expect(&ctx, "C10.foreign.ignored.accept", "C10.foreign.ignored.reject", stated && prof, &v,
                    || format!("foreign order=ct,md,st {} {} ignored-fields={{entry-ext={} crl-number={} crl-issuer={} ee-issuer={} ee-subject={} signing-time={} binary-signing-time={} sig-alg={} digest-null={}}} via={via:?} when=T0{off:+}s",
                        show_ee(e), show_crl(c), ign.crl.entry_ext, ign.crl.number, ign.crl.issuer, ign.ee_issuer, ign.ee_subject, ign.st, ign.bst, ign.sig_alg, ign.digest_null));
            }}
            sp.evals(18);
            if *ign != ign0 { *nt.lock().unwrap() += 18 }
            let mut g = oc.lock().unwrap(); for (k, v) in local { *g.entry(k).or_insert(0) += v }
        });
        sp.merge_outcomes(&oc.lock().unwrap());
        sp.nontrivial(*nt.lock().unwrap());
        sp.set("date_crls", serde_json::json!(a_jobs.len()));
        sp.set("ignored_field_settings", serde_json::json!(igns.len()));
        sp.sample_str(|| format!("{} ee-entry-date=2 (T0+150s) when=T0-300s -> rejected: the EE serial is listed, whatever the entry's date", show_crl(&CrlO { revoked: 6, ..CRL_BASE })));
        sp.done(true, &format!("{} dated CRLs x 2 EE windows x 9 instants x 2 decoders; {} ignored-field settings x 6 shapes x 2 x 10 EE options x 9 instants x 2 decoders", a_jobs.len(), igns.len()));
    }

    //--- (b5) history independence: repeated validation of one decoded value -------------------------------------------
    {
        let sp = ctx.space("history.independence",
            "16 foreign messages (EE AKI right/absent x CRL AKI right/absent x {EE narrow + CRL wide, EE wide + CRL narrow} x revoked list {empty, lists the EE}) and one library-created message; each decoded ONCE (SignedMessage strict, relaxed, PublicationCms; the created message also as created) and validate_at called on that same value over all ordered pairs and triples of the 6 settings {peer key, other key} x {T0, T0+301 s, T0-1001 s}: every verdict must equal that of a freshly decoded value under the same setting, which must equal the model; non-trivial = steps that follow a step with a different verdict");
        let settings: Vec<(usize, i64)> = [K_PEER, K_OTHER].into_iter().flat_map(|k| [0i64, 301, -1001].into_iter().map(move |o| (k, o))).collect();
        let mut seqs: Vec<Vec<usize>> = Vec::new();
        for a in 0..settings.len() { for b in 0..settings.len() { seqs.push(vec![a, b]); for c in 0..settings.len() { seqs.push(vec![a, b, c]) } } }
        // (label, bytes, model per setting)
        let mut msgs: Vec<(String, Vec<u8>, Vec<bool>)> = Vec::new();
        let base = Plan::base();
        let ps = presign(&fx, &base);
        for eaki in [0u8, 1] { for caki in [0u8, 1] { for ee_wide in [false, true] { for revoked in [0u8, 4] {
            let e = EeO { aki: eaki, wide: ee_wide, ..EE_BASE };
            let c = CrlO { aki: caki, wide: !ee_wide, revoked, ..CRL_BASE };
            let bytes = wrap(&fx, &base, &ps, false, &ee_from(s, &e), &crl_from(s, &c, false));
            let model = settings.iter().map(|&(k, off)| k == K_PEER && within(e.wide, off) && within(c.wide, off) && revoked < 4).collect();
            msgs.push((format!("foreign {} {}", show_ee(&e), show_crl(&c)), bytes, model));
        }}}}
        let created = guard(|| SignedMessage::create(Bytes::from(fx.content.clone()), Validity::new(pki::time(T0 - NARROW), pki::time(T0 + NARROW)), &s.kid(K_PEER), s));
        let created = match created { Ok(Ok(m)) => Some(m), Ok(Err(e)) => { fail("C10.created.valid_within", "history seed", format!("create failed: {e}")); None } Err(p) => { fail("C10.no_panic", "history seed", p); None } };
        if let Some(m) = &created {
            let model = settings.iter().map(|&(k, off)| k == K_PEER && within(false, off)).collect();
            msgs.push(("library-created window=T0+-300s".to_string(), m.to_captured().into_bytes().to_vec(), model));
        }
        enum Dec { Msg(SignedMessage), Pub(PublicationCms) }
        let oc: Mutex<BTreeMap<&'static str, u64>> = Mutex::new(BTreeMap::new());
        let show = |si: usize| format!("({}, T0{:+}s)", if settings[si].0 == K_PEER { "peer key" } else { "other key" }, settings[si].1);
        msgs.par_iter().enumerate().for_each(|(mi, (label, bytes, model))| {
            let mut routes: Vec<&str> = vec!["strict", "relaxed", "publication-cms"];
            if mi == msgs.len() - 1 && created.is_some() { routes.push("as-created") }
            for route in routes {
                let decode = || -> Option<Dec> {
                    match route {
                        "strict" => SignedMessage::decode(Bytes::copy_from_slice(bytes), true).ok().map(Dec::Msg),
                        "relaxed" => SignedMessage::decode(Bytes::copy_from_slice(bytes), false).ok().map(Dec::Msg),
                        "publication-cms" => PublicationCms::decode(bytes).ok().map(Dec::Pub),
                        _ => created.clone().map(Dec::Msg),
                    }
                };
                let step = |d: &Dec, si: usize| -> Result<bool, String> {
                    let key = s.public(settings[si].0);
                    let t = pki::time(T0 + settings[si].1);
                    guard(|| match d { Dec::Msg(m) => m.validate_at(&key, t).is_ok(), Dec::Pub(m) => m.validate_at(&key, t).is_ok() })
                };
                let mut local: BTreeMap<&'static str, u64> = BTreeMap::new();
                let mut fresh = Vec::new();
                let mut ok = true;
                for si in 0..settings.len() {
                    let Some(d) = decode() else { fail("C10.history.fresh", format!("{label} route={route}"), "valid message does not decode"); ok = false; break };
                    sp.eval();
                    match step(&d, si) {
                        Err(pn) => { fail("C10.no_panic", format!("{label} route={route} fresh {}", show(si)), pn); fresh.push(false) }
                        Ok(a) => {
                            *local.entry(if a { "validated" } else { "rejected" }).or_insert(0) += 1;
                            if a != model[si] { fail("C10.history.fresh", format!("{label} route={route} fresh {}", show(si)), format!("validated={a}, model says {}", model[si])) }
                            fresh.push(a)
                        }
                    }
                }
                if !ok { continue }
                let Some(shared) = decode() else { continue };
                for sq in &seqs {
                    let mut prev: Option<bool> = None;
                    for (pos, &si) in sq.iter().enumerate() {
                        sp.eval();
                        let a = match step(&shared, si) { Ok(a) => a, Err(pn) => { fail("C10.no_panic", format!("{label} route={route} sequence {}", sq.iter().map(|&i| show(i)).collect::<Vec<_>>().join(" -> ")), pn); break } };
                        *local.entry(if a { "validated" } else { "rejected" }).or_insert(0) += 1;
                        if prev.is_some() && prev != Some(fresh[si]) { sp.nontrivial(1) }
                        if a != fresh[si] {
                            fail("C10.history.independent", format!("{label} route={route} same decoded value, sequence {} (step {})", sq.iter().map(|&i| show(i)).collect::<Vec<_>>().join(" -> "), pos + 1),
                                format!("step {} gave validated={a}, a freshly decoded value gives validated={}", pos + 1, fresh[si]));
                        }
                        prev = Some(a);
                    }
                }
                let mut g = oc.lock().unwrap(); for (k, v) in local { *g.entry(k).or_insert(0) += v }
            }
        });
        sp.merge_outcomes(&oc.lock().unwrap());
        sp.set("messages", serde_json::json!(msgs.len()));
        sp.set("sequences_per_value", serde_json::json!(seqs.len()));
        sp.sample_str(|| "foreign ee{aki=absent ...} crl{aki=absent ...} sequence (peer key, T0+0s) -> (other key, T0+0s): validated, rejected".to_string());
        sp.done(true, &format!("{} messages x 3-4 decoded values x {} sequences (all ordered pairs and triples of 6 settings)", msgs.len(), seqs.len()));
    }

    //--- (b6) wall-clock variants against their timed siblings ------------------------------------------------------
    {
        let sp = ctx.space("api.wallclock",
            "windows decades wide around the real now: {2000..2100 current, 2000..2001 expired, 2100..2101 future}. IdCert::validate_ee(key) against validate_ee_at(key, Time::now()) for the 144 EE option sets x 3 windows x {peer, other key}; IdCert::validate_ta() against validate_ta_at(Time::now()) for new_ta certificates (3 keys x 3 windows) and own-encoder self-issued certificates (basicConstraints absent/empty/cA x AKI right/absent/wrong x signed by own/other key x 3 windows); SignedMessage::validate, PublicationCms::validate, ProvisioningCms::validate against validate_at(Time::now()) for EE window x CRL window (9) x EE AKI x CRL AKI x revoked {empty, lists EE} x cA x {peer, other key}: the two verdicts of a pair must be equal; non-trivial = all");
        const CUR: (i64, i64) = (946_684_800, 4_102_444_800);
        const EXP: (i64, i64) = (946_684_800, 978_307_200);
        const FUT: (i64, i64) = (4_102_444_800, 4_133_980_800);
        let wins = [("2000..2100", CUR), ("2000..2001", EXP), ("2100..2101", FUT)];
        let ee_spec = |o: &EeO, w: (i64, i64)| EeSpec { serial: big_or_small_serial(o.big_serial), nb: w.0, na: w.1, subject_key: K_EE, sign_key: if o.other_key { K_OTHER } else { K_PEER },
            ski: if o.ski_other { Some(s.key(K_EE2).ski.to_vec()) } else { None }, aki: aki_value(s, o.aki),
            basic: match o.basic { 0 => Basic::Absent, 1 => Basic::EmptySeq, _ => Basic::CaTrue }, key_usage_ext: o.key_usage, issuer: 0, subject: 0 };
        let oc: Mutex<BTreeMap<&'static str, u64>> = Mutex::new(BTreeMap::new());
        let tally = |k: &'static str| *oc.lock().unwrap().entry(k).or_insert(0) += 1;
        // IdCert as EE
        let ee_opts: Vec<EeO> = ee_full().into_iter().filter(|o| !o.wide).collect();
        ee_opts.par_iter().for_each(|o| { for (wn, w) in wins {
            let der = ee_cert(s, &ee_spec(o, w));
            for k in [K_PEER, K_OTHER] {
                sp.eval(); sp.nontrivial(1);
                let key = s.public(k);
                let wit = || format!("IdCert {} window={wn} key={}", show_ee(o), if k == K_PEER { "peer" } else { "other" });
                match guard(|| IdCert::decode(Bytes::copy_from_slice(&der)).map(|c| (c.validate_ee(&key).is_ok(), c.validate_ee_at(&key, Time::now()).is_ok()))) {
                    Err(p) => fail("C10.no_panic", wit(), p),
                    Ok(Err(e)) => fail("C10.api.wallclock", wit(), format!("certificate of the independent encoder does not decode: {e}")),
                    Ok(Ok((wall, at))) => { tally(if wall { "validated" } else { "rejected" }); if wall != at { fail("C10.api.wallclock", wit(), format!("validate_ee() ok={wall}, validate_ee_at(Time::now()) ok={at}")) } }
                }
            }
        }});
        // IdCert as TA
        let mut tas: Vec<(String, Vec<u8>)> = Vec::new();
        for (wn, w) in wins {
            for k in 0..3usize {
                match guard(|| IdCert::new_ta(Validity::new(pki::time(w.0), pki::time(w.1)), &s.kid(k), s).map(|c| c.to_bytes().to_vec())) {
                    Ok(Ok(b)) => tas.push((format!("IdCert::new_ta key={k} window={wn}"), b)),
                    Ok(Err(e)) => fail("C10.api.wallclock", format!("new_ta key={k} window={wn}"), format!("new_ta failed: {e}")),
                    Err(p) => fail("C10.no_panic", format!("new_ta key={k} window={wn}"), p),
                }
            }
            for basic in 0..3u8 { for aki in 0..3u8 { for other in [false, true] {
                let e = EeSpec { serial: vec![1], nb: w.0, na: w.1, subject_key: K_PEER, sign_key: if other { K_OTHER } else { K_PEER }, ski: None, aki: aki_value(s, aki),
                    basic: match basic { 0 => Basic::Absent, 1 => Basic::EmptySeq, _ => Basic::CaTrue }, key_usage_ext: false, issuer: 0, subject: 0 };
                tas.push((format!("self-issued basic={} aki={} signed-by={} window={wn}", ["absent", "empty", "cA"][basic as usize], ["own", "absent", "other"][aki as usize], if other { "other" } else { "own" }), ee_cert(s, &e)));
            }}}
        }
        for (label, der) in &tas {
            sp.eval(); sp.nontrivial(1);
            match guard(|| IdCert::decode(Bytes::copy_from_slice(der)).map(|c| (c.validate_ta().is_ok(), c.validate_ta_at(Time::now()).is_ok()))) {
                Err(p) => fail("C10.no_panic", label.clone(), p),
                Ok(Err(e)) => fail("C10.api.wallclock", label.clone(), format!("certificate does not decode: {e}")),
                Ok(Ok((wall, at))) => { tally(if wall { "validated" } else { "rejected" }); if wall != at { fail("C10.api.wallclock", label.clone(), format!("validate_ta() ok={wall}, validate_ta_at(Time::now()) ok={at}")) } }
            }
        }
        // messages
        let prov_xml = provisioning::Message::list(SenderHandle::from_str("child").unwrap(), RecipientHandle::from_str("parent").unwrap()).to_xml_bytes().to_vec();
        let fx_prov = Fx { s: PoolSigner::load(), content: prov_xml, peer: fx.peer.clone() };
        let base = Plan::base();
        let (ps_pub, ps_prov) = (presign(&fx, &base), presign(&fx_prov, &base));
        let mut jobs = Vec::new();
        for (en, ew) in wins { for (cn, cw) in wins { for eaki in [0u8, 1] { for caki in [0u8, 1] { for revoked in [0u8, 4] { for basic in [0u8, 2] { jobs.push((en, ew, cn, cw, eaki, caki, revoked, basic)) } } } } } }
        jobs.par_iter().for_each(|&(en, ew, cn, cw, eaki, caki, revoked, basic)| {
            let eo = EeO { aki: eaki, basic, ..EE_BASE };
            let ee_der = ee_cert(s, &ee_spec(&eo, ew));
            let list = if revoked == 4 { Some(vec![(EE_SERIAL.to_vec(), false)]) } else { Some(vec![]) };
            let crl_der = crl(s, &CrlSpec { this: cw.0, next: cw.1, sign_key: K_PEER, revoked: list, aki: aki_value(s, caki), number: Some(7), unknown_ext: false, ext_block: true, ign: CrlIgn::DEFAULT, ee_serial: EE_SERIAL.to_vec() });
            let (m_pub, m_prov) = (wrap(&fx, &base, &ps_pub, false, &ee_der, &crl_der), wrap(&fx_prov, &base, &ps_prov, false, &ee_der, &crl_der));
            for k in [K_PEER, K_OTHER] {
                let key = s.public(k);
                for route in ["strict", "relaxed", "publication-cms", "provisioning-cms"] {
                    sp.eval(); sp.nontrivial(1);
                    let wit = || format!("foreign {} ee-window={en} crl-window={cn} crl-aki={} revoked={} key={} route={route}", show_ee(&eo), ["right", "absent"][caki as usize], if revoked == 4 { "ee-only" } else { "empty" }, if k == K_PEER { "peer" } else { "other" });
                    let r = guard(|| -> Result<(bool, bool), String> { Ok(match route {
                        "strict" => { let m = SignedMessage::decode(Bytes::copy_from_slice(&m_pub), true).map_err(|e| e.to_string())?; (m.validate(&key).is_ok(), m.validate_at(&key, Time::now()).is_ok()) }
                        "relaxed" => { let m = SignedMessage::decode(Bytes::copy_from_slice(&m_pub), false).map_err(|e| e.to_string())?; (m.validate(&key).is_ok(), m.validate_at(&key, Time::now()).is_ok()) }
                        "publication-cms" => { let m = PublicationCms::decode(&m_pub).map_err(|e| e.to_string())?; (m.validate(&key).is_ok(), m.validate_at(&key, Time::now()).is_ok()) }
                        _ => { let m = ProvisioningCms::decode(&m_prov).map_err(|e| e.to_string())?; (m.validate(&key).is_ok(), m.validate_at(&key, Time::now()).is_ok()) }
                    })});
                    match r {
                        Err(p) => fail("C10.no_panic", wit(), p),
                        Ok(Err(e)) => fail("C10.api.wallclock", wit(), format!("message of the independent encoder does not decode: {e}")),
                        Ok(Ok((wall, at))) => {
                            tally(if wall { "validated" } else { "rejected" });
                            if wall != at { fail("C10.api.wallclock", wit(), format!("validate() ok={wall}, validate_at(Time::now()) ok={at}")) }
                            let model = k == K_PEER && en == "2000..2100" && cn == "2000..2100" && revoked == 0 && basic == 0;
                            if at != model { fail("C10.api.wallclock", wit(), format!("validate_at(Time::now()) ok={at}, the conditions say {model}")) }
                        }
                    }
                }
            }
        });
        sp.merge_outcomes(&oc.lock().unwrap());
        sp.sample_str(|| "foreign ee-window=2000..2100 crl-window=2000..2001 key=peer: validate() and validate_at(now) both reject".to_string());
        sp.done(true, &format!("{} EE option sets x 3 windows x 2 keys; {} TA certificates; {} messages x 2 keys x 4 routes", ee_opts.len(), tas.len(), jobs.len()));
    }

    //--- (b7) BER respellings of the CMS wrapper --------------------------------------------------------------------
    {
        let sp = ctx.space("ber.respelling",
            "every field of the CMS wrapper of a DER message re-written in another BER spelling, one field at a time: non-minimal length, 4-octet length, indefinite length at ContentInfo, content [0], SignedData, version, digestAlgorithms, its member, encapContentInfo, eContentType, eContent [0], certificates [0], Certificate, crls [1], CertificateList, signerInfos, SignerInfo, its version, digestAlgorithm, signedAttrs [0], signatureAlgorithm; eContent and signature as constructed OCTET STRINGs of 1,2,3,4,16/17,256 segments; sid [0] constructed in every split into 1..=4 segments and in 20 segments (all-satisfied messages; a selection for violated ones). Messages: {all satisfied (3 and 6 signed attributes), every single violation}. Relaxed decoding: if the decoder admits the spelling the verdict must be the condition vector's (a validation error on an all-satisfied message is a violation, a decode error is counted per field); strict decoding: nothing with a violated condition may validate; nothing may panic; non-trivial = admitted respellings");
        let mut plans: Vec<Plan> = vec![Plan::base()];
        { let mut p = Plan::base(); p.extras = vec![Extra::Bst, Extra::Unk100, Extra::Unk200]; p.order = [2, 0, 1]; plans.push(p) }
        for v in all_violations() { let mut p = Plan::base(); v.apply(&mut p); if p.sig == SigV::OverMandatoryOnly { p.extras = vec![Extra::Bst] } plans.push(p) }
        let admitted: Mutex<BTreeMap<String, (u64, u64)>> = Mutex::new(BTreeMap::new());
        let oc: Mutex<BTreeMap<&'static str, u64>> = Mutex::new(BTreeMap::new());
        let nt = Mutex::new(0u64);
        plans.par_iter().for_each(|p| {
            let bytes = cache.build(&fx, p);
            let Some(root) = der::parse_one(&bytes, false) else { return };
            let mut local: BTreeMap<String, (u64, u64)> = BTreeMap::new();
            let mut lo: BTreeMap<&'static str, u64> = BTreeMap::new();
            let mut n_adm = 0u64;
            for (fname, path, spells) in cms_fields(&bytes, p.all_ok()) { for spl in &spells {
                let m = respell(&bytes, &root, &mut Vec::new(), &path, spl);
                for via in [Via::Relaxed, Via::Strict] {
                    let v = run(&m, &fx.peer, T0, via);
                    sp.eval();
                    let strict = via == Via::Strict;
                    *lo.entry(match (&v, strict) { (Verdict::Accept, _) => "validated", (Verdict::Decode(_), false) => "not-admitted-relaxed", (Verdict::Decode(_), true) => "refused-strict", (Verdict::Panic(_), _) => "panic", _ => "rejected-at-validation" }).or_insert(0) += 1;
                    let wit = || format!("{} field={fname} spelling={} (message of {} octets -> {})", p.witness(via), spl.name(), bytes.len(), m.len());
                    match &v {
                        Verdict::Panic(pn) => fail("C10.no_panic", wit(), pn.clone()),
                        Verdict::Accept if !p.all_ok() => fail("C10.ber.reject", wit(), "a condition is violated but the respelled message validated"),
                        Verdict::Invalid(e) if p.all_ok() && !strict => fail("C10.ber.accept", wit(), format!("all conditions hold and the decoder admitted the spelling, yet validation failed: {}", trunc(e, 160))),
                        _ => {}
                    }
                    if !strict && p.all_ok() {
                        let e = local.entry(fname.to_string()).or_insert((0, 0));
                        if matches!(v, Verdict::Decode(_)) { e.1 += 1 } else { e.0 += 1; n_adm += 1 }
                    }
                }
            }}
            *nt.lock().unwrap() += n_adm;
            let mut g = admitted.lock().unwrap();
            for (k, (a, r)) in local { let e = g.entry(k).or_insert((0, 0)); e.0 += a; e.1 += r }
            let mut g = oc.lock().unwrap(); for (k, v) in lo { *g.entry(k).or_insert(0) += v }
        });
        sp.merge_outcomes(&oc.lock().unwrap());
        sp.nontrivial(*nt.lock().unwrap());
        let adm = admitted.into_inner().unwrap();
        sp.set("all_satisfied_relaxed_admitted_vs_refused_per_field", serde_json::json!(adm.iter().map(|(k, (a, r))| format!("{k}: {a} admitted, {r} refused at decode")).collect::<Vec<_>>()));
        sp.sample_str(|| "all satisfied field=sid[0] spelling=constructed-3-segments-cut-at-[5, 10] relaxed -> validated".to_string());
        sp.done(true, &format!("{} messages x 24 fields x their spellings (sid: 1162 splits for all-satisfied messages) x 2 decoders", plans.len()));
    }

    //--- (b8) the scale dimension: counts ----------------------------------------------------------------------------------
    {
        let sp = ctx.space("scale.counts",
            "CRLs with N revoked entries (distinct serials 1000, 1001, ...; every third entry with extensions), N in 0..=40 and the neighbourhoods of 64, 128, 256, 1024, 4096, with the EE serial absent / first / in the middle / last: validates <=> absent; messages with K further unknown signed attributes, K in 0..=40, 63..=65, 127..=129, 255..=257 (attributes from 107 to ~5000 octets): validate, and with a wrong digest do not; strict and relaxed; non-trivial = all");
        let counts: Vec<usize> = { let mut v: Vec<usize> = (0..=40).collect(); for p in [64usize, 128, 256, 1024, 4096] { v.extend([p - 1, p, p + 1]) } v };
        let oc: Mutex<BTreeMap<&'static str, u64>> = Mutex::new(BTreeMap::new());
        let base = Plan::base();
        let ps = presign(&fx, &base);
        let ee = cache.ee(&fx, &base);
        let mut jobs: Vec<(usize, Option<usize>)> = Vec::new();
        for &n in &counts { jobs.push((n, None)); for pos in [0, n / 2, n] { jobs.push((n, Some(pos))) } }
        jobs.sort(); jobs.dedup();
        jobs.par_iter().for_each(|&(n, ee_pos)| {
            let mut list: Vec<(Vec<u8>, bool)> = (0..n).map(|i| (((1000 + i) as u32).to_be_bytes()[1..].to_vec(), i % 3 == 0)).collect();
            if let Some(pos) = ee_pos { list.insert(pos, (EE_SERIAL.to_vec(), false)) }
            let c = CrlSpec { this: T0 - W, next: T0 + W, sign_key: K_PEER, revoked: Some(list), aki: Some(s.key(K_PEER).ski.to_vec()), number: Some(3), unknown_ext: false, ext_block: true, ign: CrlIgn::DEFAULT, ee_serial: EE_SERIAL.to_vec() };
            let bytes = wrap(&fx, &base, &ps, false, &ee, &crl(s, &c));
            for via in [Via::Strict, Via::Relaxed] {
                let v = run(&bytes, &fx.peer, T0, via);
                sp.eval(); sp.nontrivial(1); *oc.lock().unwrap().entry(v.class()).or_insert(0) += 1;
                expect(&ctx, "C10.foreign.accept", "C10.foreign.product.reject", ee_pos.is_none(), &v, || format!("foreign order=ct,md,st extras=[] crl with {n} other revoked entries (serials 1000..), EE serial {} via={via:?} when=T0",
                    ee_pos.map(|p| format!("inserted at position {p}")).unwrap_or("absent".into())));
            }
        });
        let mut kjobs: Vec<(usize, bool)> = Vec::new();
        for k in (0..=40usize).chain([63, 64, 65, 127, 128, 129, 255, 256, 257]) { kjobs.push((k, true)); kjobs.push((k, false)) }
        let crl_der = cache.crl(&fx, &base);
        kjobs.par_iter().for_each(|&(k, good)| {
            let mut p = Plan::base(); p.many_extras = k; if !good { p.digest = DigestV::FlipLast }
            let bytes = assemble(&fx, &p, &ee, &crl_der);
            for via in [Via::Strict, Via::Relaxed] {
                let v = run(&bytes, &fx.peer, T0, via);
                sp.eval(); sp.nontrivial(1); *oc.lock().unwrap().entry(v.class()).or_insert(0) += 1;
                expect(&ctx, "C10.attrs.size.accept", "C10.foreign.single.reject", good, &v, || format!("{} with {k} further unknown signed attributes", p.witness(via)));
            }
        });
        sp.merge_outcomes(&oc.lock().unwrap());
        sp.set("revoked_entry_counts", serde_json::json!(counts));
        sp.sample_str(|| "crl with 17 other revoked entries, EE serial inserted at position 17 -> rejected".to_string());
        sp.done(true, &format!("{} list lengths x 4 placements x 2 decoders; 50 attribute counts x 2 x 2 decoders", counts.len()));
    }

    //--- (c) every single-bit flip -------------------------------------------------------------------------------
    {
        let sp = ctx.space("tamper.bitflip",
            "one library-created message (SignedMessage::create, window T0 +- 300 s), one foreign message with the three mandatory attributes and one with 3 extra attributes (> 256 octets) (thorough: two more foreign spellings): every single-bit flip, decoded strict and relaxed, validated at T0 under the peer key: never validates; the untouched message validates; non-trivial = flips");
        let mut objs: Vec<(String, Vec<u8>)> = Vec::new();
        match guard(|| SignedMessage::create(Bytes::from(fx.content.clone()), Validity::new(pki::time(T0 - W), pki::time(T0 + W)), &s.kid(K_PEER), s).map(|m| m.to_captured().into_bytes().to_vec())) {
            Ok(Ok(b)) => objs.push(("library-created".into(), b)),
            Ok(Err(e)) => fail("C10.created.valid_within", "tamper seed", format!("create failed: {e}")),
            Err(p) => fail("C10.no_panic", "tamper seed", p),
        }
        objs.push(("foreign-3-attrs".into(), cache.build(&fx, &Plan::base())));
        if thorough {
            // big serial, revoked list with entries and extensions, GeneralizedTime signing time, other attribute order
            let mut p = Plan::base(); p.ee = EeV::BigSerial; p.crl = CrlV::ListsOthers; p.order = [2, 1, 0]; p.st_gen = true; p.extras = vec![Extra::Unk1]; p.extras_first = true;
            objs.push(("foreign-4-attrs-big-serial".into(), cache.build(&fx, &p)));
            let mut p = Plan::base(); p.ee = EeV::NoAki; p.crl = CrlV::NoAki; p.extras = vec![Extra::Unk100];
            objs.push(("foreign-4-attrs-no-aki".into(), cache.build(&fx, &p)));
        }
        let mut p = Plan::base(); p.extras = vec![Extra::Bst, Extra::Unk100, Extra::Unk200]; p.crl = CrlV::ListsOthersWithExt; p.ee = EeV::KeyUsage;
        objs.push(("foreign-6-attrs".into(), cache.build(&fx, &p)));
        for (nm, bytes) in &objs {
            let mut base_ok = true;
            for via in [Via::Strict, Via::Relaxed] {
                let v = run(bytes, &fx.peer, T0, via);
                sp.eval(); sp.outcome(v.class());
                base_ok &= v.accepted();
                expect(&ctx, "C10.tamper.base.accept", "-", true, &v, || format!("{nm} untouched via={via:?}"));
            }
            if !base_ok { sp.set(&format!("skipped_{nm}"), serde_json::json!("untouched message did not validate; flips not meaningful")); continue }
            let nbits = bytes.len() * 8;
            let oc: Mutex<BTreeMap<&'static str, u64>> = Mutex::new(BTreeMap::new());
            let acc: Mutex<Vec<String>> = Mutex::new(Vec::new());
            (0..nbits * 2).into_par_iter().for_each(|i| {
                let via = if i < nbits { Via::Strict } else { Via::Relaxed };
                let bit = i % nbits;
                let mut m = bytes.clone();
                m[bit / 8] ^= 0x80 >> (bit % 8);
                let v = run(&m, &fx.peer, T0, via);
                *oc.lock().unwrap().entry(v.class()).or_insert(0) += 1;
                let w = || format!("{nm} via={via:?} octet={} mask={:#04x} (message of {} octets, original octet {:#04x})", bit / 8, 0x80u8 >> (bit % 8), bytes.len(), bytes[bit / 8]);
                match &v {
                    Verdict::Accept => { acc.lock().unwrap().push(format!("via={via:?} octet={} mask={:#04x}", bit / 8, 0x80u8 >> (bit % 8))); fail("C10.tamper.bitflip.reject", w(), "message with one flipped bit validated") }
                    Verdict::Panic(pn) => fail("C10.no_panic", w(), pn.clone()),
                    _ => {}
                }
            });
            let mut acc = acc.into_inner().unwrap(); acc.sort();
            sp.set(&format!("accepted_flips_{nm}"), serde_json::json!(acc));
            sp.evals(nbits as u64 * 2); sp.nontrivial(nbits as u64 * 2);
            sp.merge_outcomes(&oc.lock().unwrap());
            sp.sample_str(|| format!("{nm}: {} octets {}", bytes.len(), trunc(&hex(bytes), 100)));
        }
        sp.done(true, &format!("all single-bit flips of {} messages x 2 decoders", objs.len()));
    }

    flush_fails(&ctx);
    ctx.finish();
}
